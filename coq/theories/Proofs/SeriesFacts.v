(* Proofs for C18: the L1 model of the series functions (Model/Series.v, built on the kernels
   regenerated from series.py) equals the L0 specification (Spec/Series.v) for all inputs, and the
   L0 functions act row by row. *)
From Coq Require Import ZArith QArith List Bool Lia.
From DM Require Import Spec.Series Gen.KSeries Model.Series.
Import ListNotations.
Local Open Scope nat_scope.

(* ---------- generic list facts ------------------------------------------- *)
Lemma norm_idx_nat : forall n a, norm_idx n (Z.of_nat a) = Nat.min a n.
Proof.
  intros. unfold norm_idx. destruct (Z.ltb_spec (Z.of_nat a) 0); [lia|]. now rewrite Nat2Z.id.
Qed.

Lemma firstn_app_exact : forall {X} (a b : list X), firstn (length a) (a ++ b) = a.
Proof. intros. rewrite firstn_app, Nat.sub_diag, firstn_all. simpl. apply app_nil_r. Qed.
Lemma skipn_app_exact : forall {X} (a b : list X), skipn (length a) (a ++ b) = b.
Proof. intros. rewrite skipn_app, Nat.sub_diag, skipn_all. reflexivity. Qed.

Lemma repeat_shift : forall {X} (a : X) n l, repeat a n ++ a :: l = a :: repeat a n ++ l.
Proof. induction n; intros; simpl; [reflexivity|]. now rewrite IHn. Qed.

Lemma rev_repeat_eq : forall {X} (a : X) k, rev (repeat a k) = repeat a k.
Proof. induction k; simpl; [reflexivity|]. rewrite IHk. symmetry. apply repeat_cons. Qed.

Lemma np_fill_mid : forall {X} (A B C : list X) (v : X) lo hi,
  lo = Z.of_nat (length A) -> hi = Z.of_nat (length A + length B) ->
  np_fill (Some lo) (Some hi) v (A ++ B ++ C) = A ++ repeat v (length B) ++ C.
Proof.
  intros X A B C v lo hi -> ->. unfold np_fill, norm_opt. rewrite !norm_idx_nat, !app_length.
  replace (Nat.min (length A) _) with (length A) by lia.
  replace (Nat.min (length A + length B) _) with (length A + length B)%nat by lia.
  replace (Nat.max _ _) with (length A + length B)%nat by lia.
  rewrite firstn_app_exact. replace (length A + length B - length A)%nat with (length B) by lia.
  f_equal. f_equal. rewrite app_assoc. rewrite <- app_length. apply skipn_app_exact.
Qed.

Lemma np_set_mid : forall {X} (A B C src : list X) lo hi,
  lo = Z.of_nat (length A) -> hi = Z.of_nat (length A + length B) -> length src = length B ->
  np_set (Some lo) (Some hi) (A ++ B ++ C) src = Some (A ++ src ++ C).
Proof.
  intros X A B C src lo hi -> -> Hs. unfold np_set, norm_opt. rewrite !norm_idx_nat, !app_length.
  replace (Nat.min (length A) _) with (length A) by lia.
  replace (Nat.min (length A + length B) _) with (length A + length B)%nat by lia.
  replace (Nat.max _ _) with (length A + length B)%nat by lia.
  replace (length A + length B - length A)%nat with (length B) by lia.
  rewrite Hs, Nat.eqb_refl, firstn_app_exact. do 3 f_equal.
  rewrite app_assoc. rewrite <- app_length. apply skipn_app_exact.
Qed.

Lemma np_set_head : forall {X} (B C src : list X) hi,
  hi = Z.of_nat (length B) -> length src = length B ->
  np_set None (Some hi) (B ++ C) src = Some (src ++ C).
Proof.
  intros X B C src hi -> Hs. unfold np_set, norm_opt. rewrite norm_idx_nat, app_length.
  replace (Nat.min (length B) _) with (length B) by lia. rewrite Nat.sub_0_r, Hs, Nat.eqb_refl. simpl firstn.
  rewrite Nat.max_0_l. now rewrite skipn_app_exact.
Qed.

Lemma all_some_map_Some : forall {X Y} (f : X -> Y) (g : X -> option Y) l,
  (forall x, In x l -> g x = Some (f x)) -> all_some (map g l) = Some (map f l).
Proof.
  induction l; simpl; intros H; [reflexivity|].
  rewrite (H a) by now left. rewrite IHl; [reflexivity|]. intros; apply H; now right.
Qed.

(* ---------- acting row by row -------------------------------------------- *)
Section Rowwise.
  Variable V : Type.
  Notation row := (list (option V)).

  Lemma rowwise_length : forall (f : row -> row) s, length (rowwise f s) = length s.
  Proof. intros. apply map_length. Qed.

  Lemma rowwise_nth : forall (f : row -> row) s i, i < length s -> nth i (rowwise f s) [] = f (nth i s []).
  Proof.
    intros f s i H. unfold rowwise. rewrite nth_indep with (d' := f []) by now rewrite map_length.
    apply map_nth.
  Qed.

  (* commutes with selecting and reordering host rows (any list of valid positions, repetitions allowed) *)
  Theorem rowwise_commutes : forall (f : row -> row) ps s,
    Forall (fun p => p < length s) ps -> take_rows ps (rowwise f s) = rowwise f (take_rows ps s).
  Proof.
    intros f ps s H. unfold take_rows, rowwise at 2. rewrite map_map. apply map_ext_in.
    intros p Hp. rewrite Forall_forall in H. apply rowwise_nth. now apply H.
  Qed.

  (* row i of the output is a function of row i of the input alone *)
  Theorem rowwise_local : forall (f : row -> row) s s' i,
    i < length s -> i < length s' -> nth i s [] = nth i s' [] -> nth i (rowwise f s) [] = nth i (rowwise f s') [].
  Proof. intros. rewrite !rowwise_nth by assumption. now f_equal. Qed.

  Lemma map_commutes_take : forall {Y} (op : row -> Y) (d : Y) ps s,
    Forall (fun p => p < length s) ps ->
    map (fun p => nth p (map op s) d) ps = map op (take_rows ps s).
  Proof.
    intros Y op d ps s H. unfold take_rows. rewrite map_map. apply map_ext_in. intros p Hp.
    rewrite Forall_forall in H. rewrite nth_indep with (d' := op []) by (rewrite map_length; now apply H).
    apply map_nth.
  Qed.
End Rowwise.

(* ---------- _SeriesColumn._map -------------------------------------------- *)
Section Smap.
  Variable V : Type.
  Notation row := (list (option V)).

  Lemma set_nth_app : forall {X} (A : list X) x y C, set_nth (length A) y (A ++ x :: C) = A ++ y :: C.
  Proof. induction A; simpl; intros; [reflexivity|]. now rewrite IHA. Qed.

  Lemma smap_loop_spec : forall (f : row -> row) n d cells done newrest,
    (forall c, In c cells -> length (f c) = d) ->
    length newrest = length cells -> length done <> 0 ->
    smap_loop n (fun r => Some (f r)) cells (length done) (map f done ++ newrest) d
      = Some (map f done ++ map f cells).
  Proof.
    intros f n d cells. induction cells as [|c rest IH]; intros done newrest Hd Hl Hn.
    - destruct newrest; [|discriminate]. reflexivity.
    - destruct newrest as [|x nr]; [discriminate|]. simpl.
      destruct (Nat.eqb_spec (length done) 0) as [E|_]; [contradiction|].
      rewrite (Hd c) by now left. rewrite Nat.eqb_refl.
      replace (set_nth (length done) (f c) (map f done ++ x :: nr)) with (map f done ++ f c :: nr)
        by (rewrite <- (map_length f done) at 1; now rewrite set_nth_app).
      specialize (IH (done ++ [c]) nr).
      rewrite app_length, map_app in IH. simpl in IH. rewrite Nat.add_1_r in IH.
      rewrite <- app_assoc in IH. simpl in IH. rewrite IH.
      + now rewrite <- app_assoc.
      + intros; apply Hd; now right.
      + simpl in Hl. lia.
      + lia.
  Qed.

  (* the map over a non-empty column whose per-row results all have depth d *)
  Theorem smap_spec : forall (f : row -> row) d s,
    s <> [] -> (forall c, In c s -> length (f c) = d) ->
    smap (fun r => Some (f r)) s = Some (rowwise f s).
  Proof.
    intros f d s Hne Hd. destruct s as [|c rest]; [congruence|]. unfold smap, rowwise.
    simpl. rewrite Nat.eqb_refl.
    pose proof (smap_loop_spec f (S (length rest)) (length (f c)) rest [c] (repeat (nans (length (f c))) (length rest))) as H.
    simpl in H. rewrite H; [reflexivity| | now rewrite repeat_length | lia].
    intros c' Hc. rewrite (Hd c') by now right. symmetry. apply Hd. now left.
  Qed.
End Smap.

(* ---------- threshold ------------------------------------------------------ *)
Section ThresholdFacts.
  Variable V : Type.
  Variables (inj : Z -> V) (hit : option V -> bool) (min_length : Z).
  Notation row := (list (option V)).
  Notation one := (inj 1%Z).
  Notation zero := (inj 0%Z).
  Notation Z0 := (Some (inj 0%Z)).

  Definition thr_fin (res : row * Z) (j : Z) : row :=
    if k_thr_end_test (snd res) min_length
    then np_fill (Some (k_thr_end_lo j (snd res))) (Some (k_thr_end_hi j (snd res))) (Some (inj k_thr_end_mark)) (fst res)
    else fst res.

  Lemma mark_test : forall nh, (if Z.geb (Z.of_nat nh) min_length then Some one else Z0) = mark one zero min_length nh.
  Proof. intros. unfold mark. rewrite Z.geb_leb. reflexivity. Qed.

  Lemma fill_run : forall (A C : row) nh lo hi,
    lo = Z.of_nat (length A) -> hi = Z.of_nat (length A + nh) ->
    (if Z.geb (Z.of_nat nh) min_length then np_fill (Some lo) (Some hi) (Some one) (A ++ repeat Z0 nh ++ C)
     else A ++ repeat Z0 nh ++ C) = A ++ repeat (mark one zero min_length nh) nh ++ C.
  Proof.
    intros A C nh lo hi Hlo Hhi. rewrite <- mark_test. destruct (Z.geb (Z.of_nat nh) min_length); [|reflexivity].
    rewrite np_fill_mid with (B := repeat Z0 nh); rewrite ?repeat_length; auto.
  Qed.

  Lemma thr_loop_spec : forall tr (A : row) nh,
    thr_fin (thr_loop inj hit min_length tr (Z.of_nat (length A + nh)) (Z.of_nat nh)
                      (A ++ repeat Z0 nh ++ repeat Z0 (length tr)))
            (Z.of_nat (length A + nh + length tr) - 1)
    = A ++ thr_runs one zero hit min_length nh tr.
  Proof.
    induction tr as [|x r IH]; intros A nh.
    - simpl. unfold thr_fin. simpl fst; simpl snd. unfold k_thr_end_test, k_thr_end_lo, k_thr_end_hi, k_thr_end_mark.
      pose proof (fill_run A [] nh (Z.of_nat (length A + nh + 0) - 1 - Z.of_nat nh + 1)%Z
                           (Z.of_nat (length A + nh + 0) - 1 + 1)%Z) as H.
      rewrite !app_nil_r in H. rewrite app_nil_r. apply H; lia.
    - simpl thr_loop. simpl thr_runs. destruct (hit x).
      + specialize (IH A (S nh)).
        replace (Z.of_nat (length A + nh) + 1)%Z with (Z.of_nat (length A + S nh)) by lia.
        replace (k_thr_inc (Z.of_nat nh)) with (Z.of_nat (S nh)) by (unfold k_thr_inc; lia).
        simpl length. simpl repeat. rewrite repeat_shift.
        replace (length A + nh + S (length r)) with (length A + S nh + length r) by lia. exact IH.
      + unfold k_thr_test, k_thr_lo, k_thr_hi, k_thr_mark, k_thr_reset.
        pose proof (fill_run A (Z0 :: repeat Z0 (length r)) nh (Z.of_nat (length A + nh) - Z.of_nat nh)%Z
                             (Z.of_nat (length A + nh))) as H.
        simpl length. simpl repeat. rewrite H by lia. clear H.
        specialize (IH (A ++ repeat (mark one zero min_length nh) nh ++ [Z0]) 0).
        rewrite !app_length, repeat_length in IH. simpl in IH.
        replace (Z.of_nat (length A + nh) + 1)%Z with (Z.of_nat (length A + (nh + 1) + 0)) by lia.
        replace (length A + nh + S (length r)) with (length A + (nh + 1) + 0 + length r) by lia.
        rewrite <- !app_assoc in IH. simpl in IH. exact IH.
  Qed.

  (* the loop of series.threshold (with the regenerated bounds and tests) marks exactly the runs of the spec *)
  Theorem threshold_row_spec : forall tr,
    threshold_row1 inj hit min_length tr = threshold_row one zero hit min_length tr.
  Proof.
    intros tr. unfold threshold_row1, threshold_row.
    pose proof (thr_loop_spec tr [] 0) as H. simpl in H. unfold thr_fin in H.
    unfold k_thr_bg, k_thr_init, lenZ. exact H.
  Qed.

  Theorem threshold_spec_L1 : forall s,
    threshold1 inj hit min_length s = threshold one zero hit min_length s.
  Proof. intros. unfold threshold1, threshold, rowwise. apply map_ext. apply threshold_row_spec. Qed.

  (* ----- what the spec says, run by run ----- *)
  Lemma thr_runs_hits : forall k p r, (forall x, In x k -> hit x = true) ->
    thr_runs one zero hit min_length p (k ++ r) = thr_runs one zero hit min_length (p + length k) r.
  Proof.
    induction k as [|x k IH]; intros p r H; simpl.
    - now rewrite Nat.add_0_r.
    - rewrite (H x) by now left. rewrite IH by (intros; apply H; now right). f_equal. lia.
  Qed.

  (* a maximal run of k hits closed by a miss: all k positions are marked iff k >= min_length *)
  Theorem threshold_run_then_miss : forall k x r,
    (forall y, In y k -> hit y = true) -> hit x = false ->
    threshold_row one zero hit min_length (k ++ x :: r)
    = repeat (mark one zero min_length (length k)) (length k) ++ Z0 :: threshold_row one zero hit min_length r.
  Proof.
    intros k x r Hk Hx. unfold threshold_row. rewrite thr_runs_hits by assumption. simpl. now rewrite Hx.
  Qed.

  (* a run that touches the end of the row *)
  Theorem threshold_run_at_end : forall k,
    (forall y, In y k -> hit y = true) ->
    threshold_row one zero hit min_length k = repeat (mark one zero min_length (length k)) (length k).
  Proof.
    intros k Hk. unfold threshold_row. rewrite <- (app_nil_r k) at 1. rewrite thr_runs_hits by assumption. reflexivity.
  Qed.

  Lemma thr_runs_length : forall r p, length (thr_runs one zero hit min_length p r) = p + length r.
  Proof.
    induction r as [|x r IH]; intros p; simpl.
    - rewrite repeat_length. lia.
    - destruct (hit x).
      + rewrite IH. lia.
      + rewrite app_length, repeat_length. simpl. rewrite IH. lia.
  Qed.
  Theorem threshold_row_length : forall r, length (threshold_row one zero hit min_length r) = length r.
  Proof. intros. unfold threshold_row. now rewrite thr_runs_length. Qed.
End ThresholdFacts.

(* ---------- endlock --------------------------------------------------------- *)
Section EndlockFacts.
  Variable V : Type.
  Notation row := (list (option V)).
  Notation valid := (fun x : sample V => negb (isnan x)).

  Lemma leading_app : forall {X} (p : X -> bool) a b,
    leading p (a ++ b) = if forallb p a then length a + leading p b else leading p a.
  Proof.
    induction a as [|x a IH]; intros b; simpl; [reflexivity|].
    destruct (p x); simpl; [|reflexivity]. rewrite IH. now destruct (forallb p a).
  Qed.
  Lemma leading_le : forall {X} (p : X -> bool) l, leading p l <= length l.
  Proof. induction l as [|x l IH]; simpl; [lia|]. destruct (p x); lia. Qed.
  Lemma forallb_rev : forall {X} (p : X -> bool) l, forallb p (rev l) = forallb p l.
  Proof.
    induction l; simpl; [reflexivity|]. rewrite forallb_app, IHl. simpl. rewrite andb_true_r. apply andb_comm.
  Qed.
  Lemma trailing_app : forall (P S : row),
    trailing (P ++ S) = if forallb isnan S then length S + trailing P else trailing S.
  Proof. intros. unfold trailing. now rewrite rev_app_distr, leading_app, forallb_rev, rev_length. Qed.
  Lemma trailing_valid_last : forall (P : row) v, trailing (P ++ [Some v]) = 0.
  Proof. intros. now rewrite trailing_app. Qed.
  Lemma no_valid_all_nan : forall (S : row), existsb valid S = false -> forallb isnan S = true.
  Proof. induction S as [|x S IH]; simpl; [reflexivity|]. destruct x; simpl; [discriminate|exact IH]. Qed.
  Lemma all_nan_no_valid : forall (S : row), forallb isnan S = false -> existsb valid S = true.
  Proof. induction S as [|x S IH]; simpl; [discriminate|]. destruct x; simpl; [reflexivity|exact IH]. Qed.
  Lemma trailing_nans : forall k, trailing (nans k : row) = k.
  Proof.
    intros. unfold trailing, nans. rewrite rev_repeat_eq. induction k; simpl; [reflexivity|]. now rewrite IHk.
  Qed.
  Lemma forallb_nans : forall k, forallb isnan (nans k : row) = true.
  Proof. induction k; simpl; auto. Qed.
  Lemma all_nan_is_nans : forall (r : row), forallb isnan r = true -> r = nans (length r).
  Proof.
    induction r as [|x r IH]; simpl; [reflexivity|]. destruct x; simpl; [discriminate|]. intros H. unfold nans in *. simpl. f_equal. now apply IH.
  Qed.

  Lemma get_tail : forall (P S : row), np_get (Some (Z.of_nat (length P))) None (P ++ S) = S.
  Proof.
    intros. unfold np_get, pyslice, norm_opt. rewrite norm_idx_nat, app_length.
    replace (Nat.min (length P) _) with (length P) by lia. rewrite skipn_app_exact.
    replace (length P + length S - length P) with (length S) by lia. apply firstn_all.
  Qed.
  Lemma get_head : forall (P S : row), np_get None (Some (Z.of_nat (length P))) (P ++ S) = P.
  Proof.
    intros. unfold np_get, pyslice, norm_opt. rewrite norm_idx_nat, app_length.
    replace (Nat.min (length P) _) with (length P) by lia. simpl skipn. rewrite Nat.sub_0_r. apply firstn_app_exact.
  Qed.
  Lemma set_tail : forall (P : row) k, P <> [] ->
    np_set (Some (- Z.of_nat (length P))%Z) None (nans (length P + k)) P = Some (nans k ++ P).
  Proof.
    intros P k HP. unfold np_set, norm_opt, norm_idx, nans. rewrite repeat_length.
    assert (0 < length P) by (destruct P; [congruence|simpl; lia]).
    destruct (Z.ltb_spec (- Z.of_nat (length P)) 0); [|lia].
    replace (Z.to_nat _) with k by lia.
    replace (length P + k - k) with (length P) by lia. rewrite Nat.eqb_refl.
    replace (Nat.max k (length P + k)) with (length P + k) by lia.
    rewrite skipn_all2 by (rewrite repeat_length; lia). rewrite app_nil_r.
    replace (length P + k) with (k + length P) by lia. rewrite repeat_app.
    rewrite <- (repeat_length (@None V) k) at 1. now rewrite firstn_app_exact.
  Qed.

  Lemma endlock_scan_spec : forall (S P : row),
    (existsb valid S = true \/ exists P' v, P = P' ++ [Some v]) ->
    endlock_scan (P ++ S) (nans (length (P ++ S))) (nan_positions (Z.of_nat (length P)) S)
    = Some (endlock_row (P ++ S)).
  Proof.
    induction S as [|x S IH]; intros P Inv.
    - simpl. destruct Inv as [H|[P' [v ->]]]; [discriminate|].
      unfold endlock_row. rewrite app_nil_r, trailing_valid_last. simpl. now rewrite Nat.sub_0_r, firstn_all.
    - assert (Hstep : P ++ x :: S = (P ++ [x]) ++ S) by now rewrite <- app_assoc.
      assert (Hpos : (Z.of_nat (length P) + 1)%Z = Z.of_nat (length (P ++ [x]))) by (rewrite app_length; simpl; lia).
      destruct x as [v|]; simpl nan_positions.
      + rewrite Hstep, Hpos. apply IH. right. now exists P, v.
      + simpl endlock_scan. unfold k_el_tail_lo, k_el_dst_lo, k_el_src_hi.
        rewrite get_tail. simpl existsb. destruct (existsb valid S) eqn:E.
        * rewrite Hstep, Hpos. apply IH. now left.
        * destruct Inv as [H|[P' [v ->]]]; [simpl in H; congruence|].
          rewrite get_head. rewrite (app_length (P' ++ [Some v]) (None :: S)).
          rewrite set_tail by (intro H; apply app_eq_nil in H; destruct H; discriminate).
          f_equal. unfold endlock_row. rewrite trailing_app. simpl forallb. rewrite no_valid_all_nan by assumption.
          rewrite trailing_valid_last, Nat.add_0_r, app_length.
          replace (length (P' ++ [Some v]) + length (None :: S) - length (None :: S)) with (length (P' ++ [Some v])) by lia.
          now rewrite firstn_app_exact.
  Qed.

  (* the formula: a row whose body does not end in NaN, followed by k NaNs, becomes k NaNs followed by the body;
     body = [] is the all-NaN row, k = 0 the row without trailing NaN *)
  Theorem endlock_formula : forall (body : row) k,
    trailing body = 0 -> endlock_row (body ++ nans k) = nans k ++ body.
  Proof.
    intros body k H. unfold endlock_row. rewrite trailing_app, forallb_nans, H, Nat.add_0_r, app_length.
    unfold nans. rewrite !repeat_length. replace (length body + k - k) with (length body) by lia.
    now rewrite firstn_app_exact.
  Qed.
  (* the scan of series.endlock computes the specification, for every row *)
  Theorem endlock_row_spec : forall rw : row, endlock_row1 rw = Some (endlock_row rw).
  Proof.
    intros rw. unfold endlock_row1. destruct (forallb isnan rw) eqn:E.
    - f_equal. pose proof (all_nan_is_nans rw E) as H. set (n := length rw) in *. clearbody n. subst rw.
      pose proof (endlock_formula [] n eq_refl) as F. simpl in F. now rewrite app_nil_r in F.
    - apply (endlock_scan_spec rw []). left. now apply all_nan_no_valid.
  Qed.
  Theorem endlock_spec_L1 : forall s : list row, endlock1 s = Some (endlock s).
  Proof. intros. unfold endlock1, endlock, rowwise. apply all_some_map_Some. intros; apply endlock_row_spec. Qed.

  Theorem endlock_row_length : forall r : row, length (endlock_row r) = length r.
  Proof.
    intros. unfold endlock_row, nans.
    assert (trailing r <= length r).
    { unfold trailing. rewrite <- (rev_length r). apply leading_le. }
    unfold sample in *. rewrite app_length, repeat_length, firstn_length_le by lia. lia.
  Qed.
End EndlockFacts.

(* ---------- lock --------------------------------------------------------------- *)
Section LockFacts.
  Variable V : Type.
  Notation row := (list (option V)).

  Lemma fold_max_ge : forall r x, (x <= fold_left Z.max r x)%Z /\ (forall y, In y r -> (y <= fold_left Z.max r x)%Z).
  Proof.
    induction r as [|a r IH]; intros x; simpl; [split; [lia|tauto]|].
    destruct (IH (Z.max x a)) as [H1 H2]. split; [lia|]. intros y [->|Hy]; [lia|auto].
  Qed.
  Lemma fold_min_le : forall r x, (fold_left Z.min r x <= x)%Z /\ (forall y, In y r -> (fold_left Z.min r x <= y)%Z).
  Proof.
    induction r as [|a r IH]; intros x; simpl; [split; [lia|tauto]|].
    destruct (IH (Z.min x a)) as [H1 H2]. split; [lia|]. intros y [->|Hy]; [lia|auto].
  Qed.
  Lemma zmax_ge : forall lk l, In l lk -> (l <= zmax lk)%Z.
  Proof. intros [|x r] l H; [destruct H|]. simpl. destruct (fold_max_ge r x) as [H1 H2]. destruct H as [->|H]; auto. Qed.
  Lemma zmin_le : forall lk l, In l lk -> (zmin lk <= l)%Z.
  Proof. intros [|x r] l H; [destruct H|]. simpl. destruct (fold_min_le r x) as [H1 H2]. destruct H as [->|H]; auto. Qed.
  Lemma fold_max_lpad : forall M r x,
    fold_left Z.max (map (k_lock_lpad M) r) (k_lock_lpad M x) = (M - fold_left Z.min r x)%Z.
  Proof.
    unfold k_lock_lpad. induction r as [|a r IH]; intros x; simpl; [reflexivity|].
    replace (Z.max (M - x) (M - a)) with (M - Z.min x a)%Z by lia. apply IH.
  Qed.

  Lemma py_max_zmax : forall lk, lk <> [] -> py_max lk = Some (zmax lk).
  Proof. intros [|x r] H; [congruence|reflexivity]. Qed.
  Lemma py_max_lpad : forall M lk, lk <> [] -> py_max (map (k_lock_lpad M) lk) = Some (M - zmin lk)%Z.
  Proof. intros M [|x r] H; [congruence|]. simpl. now rewrite fold_max_lpad. Qed.

  Lemma lock_one_row : forall M m d (r : row) l, (m <= l <= M)%Z -> length r = d ->
    np_set (Some (k_lock_lo (k_lock_lpad M l) (Z.of_nat d))) (Some (k_lock_hi (k_lock_lpad M l) (Z.of_nat d)))
           (nans (Z.to_nat (k_lock_depth (Z.of_nat d) (M - m)))) r
    = Some (lock_row M m r l).
  Proof.
    intros M m d r l Hl Hr. unfold k_lock_lo, k_lock_hi, k_lock_lpad, k_lock_depth, lock_row.
    replace (Z.to_nat (Z.of_nat d + (M - m))) with (Z.to_nat (M - l) + (d + Z.to_nat (l - m))) by lia.
    unfold nans. rewrite !repeat_app.
    apply np_set_mid; rewrite ?repeat_length; unfold sample in *; try lia.
  Qed.

  Lemma lock_rows : forall M m d (s : list row) lk,
    (forall l, In l lk -> (m <= l <= M)%Z) -> (forall r, In r s -> length r = d) ->
    all_some (map (fun pr => np_set (Some (k_lock_lo (fst pr) (Z.of_nat d))) (Some (k_lock_hi (fst pr) (Z.of_nat d)))
                                    (nans (Z.to_nat (k_lock_depth (Z.of_nat d) (M - m)))) (snd pr))
                  (combine (map (k_lock_lpad M) lk) s))
    = Some (map (fun rl => lock_row M m (fst rl) (snd rl)) (combine s lk)).
  Proof.
    intros M m d s. induction s as [|r s IH]; intros lk Hl Hr.
    - destruct lk; reflexivity.
    - destruct lk as [|l lk]; [reflexivity|]. simpl.
      rewrite lock_one_row by (try apply Hl; try apply Hr; now left).
      rewrite IH; [reflexivity| |]; intros; [apply Hl|apply Hr]; now right.
  Qed.

  (* lock: every row is shifted right by max(lock) - lock_i inside a depth of depth + max(lock) - min(lock);
     the zero point is max(lock) *)
  Theorem lock_spec_L1 : forall d (s : list row) lk,
    lk <> [] -> length s = length lk -> (forall r, In r s -> length r = d) ->
    lock1 d s lk = Some (lock s lk, lock_zero_point lk).
  Proof.
    intros d s lk Hne Hlen Hd. unfold lock1, lock, lock_zero_point. rewrite Hlen, Nat.eqb_refl. simpl negb. cbv iota.
    rewrite py_max_zmax, py_max_lpad by assumption.
    rewrite (lock_rows (zmax lk) (zmin lk) d s lk); [reflexivity| |assumption].
    intros l Hl. split; [now apply zmin_le|now apply zmax_ge].
  Qed.

  Theorem lock_row_depth : forall M m (r : row) l, (m <= l <= M)%Z ->
    length (lock_row M m r l) = length r + Z.to_nat (M - m).
  Proof. intros. unfold lock_row, nans, sample in *. rewrite !app_length, !repeat_length. lia. Qed.

  (* row i of the result depends on row i, its own offset and on the other rows only through the
     amount of NaN padding: stripping the padding gives back the row *)
  Theorem lock_rowwise_mod_padding : forall M m (r : row) l,
    exists a b, lock_row M m r l = nans a ++ r ++ nans b /\ a = Z.to_nat (M - l) /\ b = Z.to_nat (l - m).
  Proof. intros. eexists; eexists; repeat split. Qed.

  Lemma combine_map_same : forall {X Y Z0} (f : X -> Y) (g : X -> Z0) l,
    combine (map f l) (map g l) = map (fun x => (f x, g x)) l.
  Proof. induction l; simpl; [reflexivity|]. now rewrite IHl. Qed.

  (* selecting / reordering host rows (series and lock values alike): each selected row is locked exactly as
     before, except that max and min are those of the selected lock values *)
  Theorem lock_commutes_mod_padding : forall ps (s : list row) lk,
    let lk' := map (fun q => nth q lk 0%Z) ps in
    lock (take_rows ps s) lk' = map (fun p => lock_row (zmax lk') (zmin lk') (nth p s []) (nth p lk 0%Z)) ps.
  Proof.
    intros ps s lk lk'. unfold lock, take_rows. unfold lk' at 3. rewrite combine_map_same, map_map. reflexivity.
  Qed.
End LockFacts.

(* ---------- window, depth setter ------------------------------------------------ *)
Section WindowFacts.
  Variable V : Type.
  Notation row := (list (option V)).

  Theorem window_spec_L1 : forall d lo hi (s : list row),
    (forall r, In r s -> length r = d) -> window1 d lo hi s = window lo hi s.
  Proof.
    intros d lo hi s Hd. unfold window1, getslice1, window, rowwise, window_row, np_get. apply map_ext_in.
    intros r Hr. destruct hi as [h|]; [reflexivity|]. unfold pyslice, norm_opt.
    rewrite norm_idx_nat. unfold sample in *. rewrite (Hd r Hr). now rewrite Nat.min_id.
  Qed.

  (* the formula: the samples at depth positions [a, b) *)
  Theorem window_formula : forall (A B C : row),
    window_row (Z.of_nat (length A)) (Some (Z.of_nat (length A + length B))) (A ++ B ++ C) = B.
  Proof.
    intros. unfold window_row, pyslice, norm_opt. rewrite !norm_idx_nat, !app_length.
    replace (Nat.min (length A) _) with (length A) by lia.
    replace (Nat.min (length A + length B) _) with (length A + length B) by lia.
    rewrite skipn_app_exact. replace (length A + length B - length A) with (length B) by lia. apply firstn_app_exact.
  Qed.
  (* negative bounds count from the end; an omitted end is the depth *)
  Theorem window_formula_neg : forall (A B : row), B <> [] ->
    window_row (- Z.of_nat (length B)) None (A ++ B) = B.
  Proof.
    intros A B HB. unfold window_row, pyslice, norm_opt, norm_idx. rewrite app_length.
    assert (0 < length B) by (destruct B; [congruence|simpl; lia]).
    destruct (Z.ltb_spec (- Z.of_nat (length B)) 0); [|lia].
    replace (Z.to_nat _) with (length A) by lia. rewrite skipn_app_exact.
    replace (length A + length B - length A) with (length B) by lia. apply firstn_all.
  Qed.

  Theorem set_depth_spec_L1 : forall old (d : Z) (s : list row),
    (0 <= d)%Z -> (forall r, In r s -> length r = old) ->
    set_depth1 old d s = Some (set_depth (Z.to_nat d) s).
  Proof.
    intros old d s Hd Hs. unfold set_depth1, k_depth_same, k_depth_grow, set_depth, rowwise, set_depth_row.
    unfold Series.row, sample in *.
    destruct (Z.eqb_spec d (Z.of_nat old)) as [E|E].
    - f_equal. rewrite <- (map_id s) at 1. apply map_ext_in. intros r Hr. rewrite E, Nat2Z.id, <- (Hs r Hr).
      rewrite firstn_all, Nat.sub_diag. simpl. now rewrite app_nil_r.
    - destruct (Z.gtb_spec d (Z.of_nat old)) as [G|G].
      + apply all_some_map_Some. intros r Hr. specialize (Hs r Hr).
        replace (nans (Z.to_nat d)) with (nans old ++ nans (Z.to_nat d - old) : row)
          by (unfold nans; rewrite <- repeat_app; f_equal; lia).
        unfold sample in *. rewrite np_set_head by (unfold nans; rewrite ?repeat_length; lia).
        rewrite firstn_all2 by lia. now rewrite Hs.
      + f_equal. apply map_ext_in. intros r Hr. specialize (Hs r Hr).
        unfold np_get, pyslice, norm_opt, norm_idx. destruct (Z.ltb_spec d 0); [lia|]. simpl skipn.
        rewrite Nat.sub_0_r. rewrite !Hs. replace (Z.to_nat d - old) with 0 by lia. unfold nans. simpl repeat. rewrite app_nil_r.
        now replace (Nat.min (Z.to_nat d) old) with (Z.to_nat d) by lia.
  Qed.

  (* the depth setter of a column with its own padding value (defaultnan=False: 0) *)
  Theorem set_depth_pad_spec_L1 : forall (pad : option V) old (d : Z) (s : list row),
    (0 <= d)%Z -> (forall r, In r s -> length r = old) ->
    set_depth1_pad pad old d s = Some (set_depth_pad pad (Z.to_nat d) s).
  Proof.
    intros pad old d s Hd Hs. unfold set_depth1_pad, k_depth_same, k_depth_grow, set_depth_pad, rowwise, set_depth_row_pad.
    unfold Series.row, sample in *.
    destruct (Z.eqb_spec d (Z.of_nat old)) as [E|E].
    - f_equal. rewrite <- (map_id s) at 1. apply map_ext_in. intros r Hr. rewrite E, Nat2Z.id, <- (Hs r Hr).
      rewrite firstn_all, Nat.sub_diag. simpl. now rewrite app_nil_r.
    - destruct (Z.gtb_spec d (Z.of_nat old)) as [G|G].
      + apply all_some_map_Some. intros r Hr. specialize (Hs r Hr).
        replace (repeat pad (Z.to_nat d)) with (repeat pad old ++ repeat pad (Z.to_nat d - old))
          by (rewrite <- repeat_app; f_equal; lia).
        rewrite np_set_head by (rewrite ?repeat_length; lia).
        rewrite firstn_all2 by lia. now rewrite Hs.
      + f_equal. apply map_ext_in. intros r Hr. specialize (Hs r Hr).
        unfold np_get, pyslice, norm_opt, norm_idx. destruct (Z.ltb_spec d 0); [lia|]. simpl skipn.
        rewrite Nat.sub_0_r. rewrite !Hs. replace (Z.to_nat d - old) with 0 by lia. simpl repeat. rewrite app_nil_r.
        now replace (Nat.min (Z.to_nat d) old) with (Z.to_nat d) by lia.
  Qed.
  (* padding with NaN is the depth property of the statement; the model with NaN padding is the plain depth setter *)
  Theorem set_depth_pad_nan : forall d (s : list row), set_depth_pad None d s = set_depth d s.
  Proof. reflexivity. Qed.
  Theorem set_depth1_pad_nan : forall old d (s : list row), set_depth1_pad None old d s = set_depth1 old d s.
  Proof. reflexivity. Qed.
  (* growing keeps every row and appends the padding; the result has the new depth *)
  Theorem set_depth_row_pad_grow : forall (pad : option V) (r : row) k,
    set_depth_row_pad pad (length r + k) r = r ++ repeat pad k.
  Proof.
    intros. unfold set_depth_row_pad. unfold Series.row, sample in *. rewrite firstn_all2 by lia.
    now rewrite Nat.add_comm, Nat.add_sub.
  Qed.

  Theorem set_depth_row_length : forall d (r : row), length (set_depth_row d r) = d.
  Proof.
    intros. unfold set_depth_row, nans, sample in *. rewrite app_length, repeat_length, firstn_length.
    destruct (Nat.le_ge_cases d (length r)); [rewrite Nat.min_l by lia|rewrite Nat.min_r by lia]; lia.
  Qed.
End WindowFacts.

(* ---------- downsample ------------------------------------------------------------- *)
Lemma firstn_app_len : forall {X} n (a t : list X), length a = n -> firstn n (a ++ t) = a.
Proof. intros; subst; apply firstn_app_exact. Qed.
Lemma skipn_app_len : forall {X} n (a t : list X), length a = n -> skipn n (a ++ t) = t.
Proof. intros; subst; apply skipn_app_exact. Qed.

Lemma reshape_cons : forall {X} f b (hd tl : list X), length hd = b -> 0 < b ->
  reshape (S f) b (hd ++ tl) = match reshape f b tl with Some r => Some (hd :: r) | None => None end.
Proof.
  intros X f b hd tl H Hb. destruct hd as [|x hd']; [simpl in H; lia|].
  simpl app. cbn [reshape]. change (x :: hd' ++ tl) with ((x :: hd') ++ tl).
  rewrite firstn_app_len, skipn_app_len by assumption. rewrite H, Nat.eqb_refl.
  destruct (Nat.eqb_spec b 0); [lia|]. reflexivity.
Qed.

Lemma reshape_blocks : forall {X} b k fuel (r : list X),
  0 < b -> b * k <= length r -> b * k <= fuel -> reshape fuel b (firstn (b * k) r) = Some (blocks k b r).
Proof.
  intros X b k. induction k as [|k IH]; intros fuel r Hb Hlen Hfuel.
  - rewrite Nat.mul_0_r. simpl. destruct fuel; reflexivity.
  - assert (E : firstn (b * S k) r = firstn b r ++ firstn (b * k) (skipn b r)).
    { rewrite <- (firstn_skipn b r) at 1. rewrite firstn_app, firstn_firstn.
      replace (Nat.min (b * S k) b) with b by lia. rewrite firstn_length_le by lia.
      f_equal. f_equal. lia. }
    assert (Lb : length (firstn b r) = b) by (apply firstn_length_le; lia).
    destruct fuel as [|f]; [lia|].
    rewrite E, reshape_cons by assumption. rewrite IH; [reflexivity|lia| |lia].
    rewrite skipn_length. lia.
Qed.

Theorem downsample_row_spec : forall (by_ : Z) (a : qrow), (0 < by_)%Z ->
  downsample_row1 by_ a = Some (downsample_row (Z.to_nat by_) a).
Proof.
  intros by_ a Hb. unfold downsample_row1, downsample_row, k_ds_keep, lenZ.
  destruct (Z.leb_spec by_ 0); [lia|].
  set (b := Z.to_nat by_). set (n := length a).
  assert (Hk : (by_ * (Z.of_nat n / by_))%Z = Z.of_nat (b * (n / b))).
  { replace by_ with (Z.of_nat b) by lia. rewrite <- Nat2Z.inj_div, <- Nat2Z.inj_mul. reflexivity. }
  rewrite Hk. unfold np_get, pyslice, norm_opt. rewrite norm_idx_nat. simpl skipn. rewrite Nat.sub_0_r.
  fold n. assert (Hle : b * (n / b) <= n) by (apply Nat.mul_div_le; lia).
  replace (Nat.min (b * (n / b)) n) with (b * (n / b)) by lia.
  rewrite reshape_blocks; [reflexivity|lia|exact Hle|].
  rewrite firstn_length_le by exact Hle. lia.
Qed.

(* depth // by blocks *)
Lemma blocks_length : forall {X} k b (l : list X), length (blocks k b l) = k.
Proof. induction k; simpl; intros; [reflexivity|]. now rewrite IHk. Qed.
Theorem downsample_row_depth : forall b (r : qrow), length (downsample_row b r) = length r / b.
Proof. intros. unfold downsample_row. rewrite map_length. apply blocks_length. Qed.
(* block k of the output is the NaN-ignoring mean of samples [k*by, (k+1)*by) *)
Theorem downsample_formula : forall b (pre blk post : qrow) k,
  0 < b -> length pre = k * b -> length blk = b -> k < (length (pre ++ blk ++ post)) / b ->
  nth k (downsample_row b (pre ++ blk ++ post)) None = nanmean blk.
Proof.
  intros b pre blk post k Hb Hpre Hblk Hk. unfold downsample_row.
  set (K := length (pre ++ blk ++ post) / b) in *. clearbody K.
  revert pre K Hpre Hk. induction k as [|k IH]; intros pre K Hpre Hk.
  - destruct pre; [|simpl in Hpre; lia]. destruct K; [lia|]. simpl. rewrite <- Hblk. now rewrite firstn_app_exact.
  - destruct K; [lia|]. simpl.
    assert (E : pre = firstn b pre ++ skipn b pre) by (symmetry; apply firstn_skipn).
    assert (L : length (firstn b pre) = b) by (apply firstn_length_le; simpl in Hpre; lia).
    rewrite E, <- app_assoc. rewrite <- L at 2. rewrite skipn_app_exact. apply IH; [|lia].
    rewrite skipn_length. simpl in Hpre. lia.
Qed.

Theorem downsample_spec_L1 : forall (by_ : Z) (s : list qrow) d,
  (0 < by_)%Z -> s <> [] -> (forall r, In r s -> length r = d) ->
  downsample1 by_ s = Some (downsample (Z.to_nat by_) s).
Proof.
  intros by_ s d Hb Hne Hd. unfold downsample1, downsample.
  etransitivity; [|apply (smap_spec Q (downsample_row (Z.to_nat by_)) (d / Z.to_nat by_) s Hne)].
  - unfold smap. destruct s; [congruence|].
    (* the per-row functions agree *)
    assert (Ext : forall n cells i nc dp,
      smap_loop n (downsample_row1 by_) cells i nc dp
      = smap_loop n (fun r => Some (downsample_row (Z.to_nat by_) r)) cells i nc dp).
    { intros n cells. induction cells as [|c cells IH]; intros; simpl; [reflexivity|].
      rewrite downsample_row_spec by assumption. destruct (Nat.eqb _ _); [apply IH|reflexivity]. }
    apply Ext.
  - intros c Hc. rewrite downsample_row_depth. now rewrite (Hd c Hc).
Qed.

(* ---------- concatenate (L0): row i of the result joins row i of every argument, so it commutes
   with selecting / reordering the host rows of all arguments alike --------------------------- *)
Section ConcatFacts.
  Variable V : Type.
  Notation row := (list (option V)).

  Lemma map_seq_nth : forall {X Y} (F : X -> Y) (l : list X) d,
    map (fun i => F (nth i l d)) (seq 0 (length l)) = map F l.
  Proof.
    intros X Y F l d. induction l as [|x l IH]; [reflexivity|].
    simpl. f_equal. rewrite <- seq_shift, map_map. exact IH.
  Qed.

  Theorem concatenate_nth : forall n (ss : list (list row)) i, i < n ->
    nth i (concatenate n ss) [] = concat (map (fun s => nth i s []) ss).
  Proof.
    intros n ss i Hi. unfold concatenate.
    set (F := fun j => concat (map (fun s : list row => nth j s []) ss)).
    rewrite nth_indep with (d' := F 0) by (rewrite map_length, seq_length; exact Hi).
    rewrite (map_nth F), seq_nth by exact Hi. reflexivity.
  Qed.

  Theorem concatenate_commutes : forall n ps (ss : list (list row)),
    Forall (fun p => p < n) ps ->
    concatenate (length ps) (map (take_rows ps) ss) = take_rows ps (concatenate n ss).
  Proof.
    intros n ps ss H.
    transitivity (map (fun i => (fun p => nth p (concatenate n ss) []) (nth i ps 0)) (seq 0 (length ps)));
      [|unfold take_rows; apply (map_seq_nth (fun p => nth p (concatenate n ss) []) ps 0)].
    unfold concatenate at 1. apply map_ext_in. intros i Hi. apply in_seq in Hi.
    assert (Hp : nth i ps 0 < n). { rewrite Forall_forall in H. apply H, nth_In. lia. }
    rewrite concatenate_nth by exact Hp. f_equal. rewrite map_map. apply map_ext. intros s.
    unfold take_rows. set (G := fun p => nth p s []).
    rewrite nth_indep with (d' := G 0) by (rewrite map_length; lia).
    now rewrite (map_nth G).
  Qed.

  Theorem concatenate_depth : forall n (ss : list (list row)) i, i < n ->
    length (nth i (concatenate n ss) []) = fold_right Nat.add 0 (map (fun s => length (nth i s [])) ss).
  Proof.
    intros. rewrite concatenate_nth by assumption. induction ss as [|s ss IH]; [reflexivity|].
    simpl. unfold sample in *. now rewrite app_length, IH.
  Qed.
End ConcatFacts.
