(* DataMatrix.__lshift__ (a << b): the L1 model that creates every column with default cells and fills the two
   slices [:k_concat_left_stop] and [k_concat_right_start:] (bounds and result length regenerated from the source)
   computes the L0 concatenation on every pair of tables satisfying the representation invariant. *)
From Coq Require Import ZArith NArith List Bool String Lia.
From DM Require Import Base.PyVal Spec.Nf Spec.Table Spec.Ops Model.LTable Gen.KCore Model.Core.
From DM Require Import Proofs.ListX Proofs.TableFacts Proofs.CoreRefine.
Import ListNotations.

Lemma set_nth_app_mid {A} (pre : list A) x r rest :
  set_nth (List.length pre) x (pre ++ r :: rest) = pre ++ x :: rest.
Proof. induction pre as [|a pre IH]; cbn [List.length set_nth app]; [reflexivity|]. f_equal. exact IH. Qed.

Lemma write_at_run (xs : list val) : forall pre rest,
  List.length xs <= List.length rest ->
  write_at (seq (List.length pre) (List.length xs)) xs (pre ++ rest) = pre ++ xs ++ skipn (List.length xs) rest.
Proof.
  induction xs as [|x xs IH]; intros pre rest Hl; cbn [List.length seq write_at skipn app]; [reflexivity|].
  destruct rest as [|r rest]; [cbn in Hl; lia|]. cbn [List.length] in Hl.
  rewrite set_nth_app_mid.
  replace (pre ++ x :: rest) with ((pre ++ [x]) ++ rest) by (rewrite <- app_assoc; reflexivity).
  replace (S (List.length pre)) with (List.length (pre ++ [x])) by (rewrite app_length; cbn; lia).
  rewrite IH by lia. rewrite <- app_assoc. reflexivity.
Qed.

Lemma slice_pos_left n m : slice_pos (n + m) None (Some (Z.of_nat n)) = seq 0 n.
Proof.
  unfold slice_pos, clamp.
  replace (Z.of_nat n <? 0)%Z with false by (symmetry; apply Z.ltb_ge; lia).
  replace (Z.min (Z.of_nat (n + m)) (Z.of_nat n)) with (Z.of_nat n) by lia.
  replace (Z.to_nat (Z.of_nat n - 0)) with n by lia. cbn [Z.to_nat].
  rewrite <- (map_id (seq 0 n)) at 2. apply map_ext. intros k. reflexivity.
Qed.

Lemma map_add_seq n m : forall s, map (fun k => n + k) (seq s m) = seq (n + s) m.
Proof. induction m as [|m IH]; intros s; cbn [seq map]; [reflexivity|]. f_equal. rewrite IH. f_equal. lia. Qed.

Lemma slice_pos_right n m : slice_pos (n + m) (Some (Z.of_nat n)) None = seq n m.
Proof.
  unfold slice_pos, clamp.
  replace (Z.of_nat n <? 0)%Z with false by (symmetry; apply Z.ltb_ge; lia).
  replace (Z.min (Z.of_nat (n + m)) (Z.of_nat n)) with (Z.of_nat n) by lia.
  replace (Z.to_nat (Z.of_nat (n + m) - Z.of_nat n)) with m by lia.
  rewrite Nat2Z.id. rewrite map_add_seq. f_equal. lia.
Qed.

(* ---------- the column-wise views ---------- *)
Definition F (nc : string * lcol) : string * kind * list val := (fst nc, lc_kind (snd nc), lc_cells (snd nc)).

Lemma lview_view t :
  Forall (fun ni : string * nat => snd ni < List.length (l_cols t)) (l_names t) ->
  view (abs t) = map F (lview t).
Proof.
  unfold view, lview. change (names (abs t)) with (l_names t). change (slots (abs t)) with (map slot_of_col (l_cols t)).
  induction (l_names t) as [|[n i] r IH]; intros H; [reflexivity|].
  inversion H as [|? ? Hi Hr]; subst. cbn [map flat_map snd] in *.
  rewrite nth_error_map. destruct (nth_error (l_cols t) i) as [c|] eqn:E.
  - cbn [option_map app map]. f_equal. apply IH. assumption.
  - apply nth_error_None in E. lia.
Qed.

Lemma lview_In t n c : In (n, c) (lview t) -> In c (l_cols t).
Proof.
  unfold lview. rewrite in_flat_map. intros [[m i] [_ H]].
  destruct (nth_error (l_cols t) i) as [c'|] eqn:E; [|contradiction].
  destruct H as [H|[]]. injection H as _ <-. eapply nth_error_In. eassumption.
Qed.

Lemma lookup_mapF n (V : list (string * lcol)) :
  lookup n (map (fun '(m, k, c) => (m, (k, c))) (map F V)) = option_map (fun c => (lc_kind c, lc_cells c)) (lookup n V).
Proof.
  induction V as [|[m c] V IH]; [reflexivity|]. cbn [map F fst snd lookup].
  destruct (String.eqb n m); [reflexivity|exact IH].
Qed.

Lemma lookup_mapF' n (V : list (string * lcol)) :
  lookup n (map (fun x : string * lcol => (fst x, (lc_kind (snd x), lc_cells (snd x)))) V)
  = option_map (fun c => (lc_kind c, lc_cells c)) (lookup n V).
Proof.
  induction V as [|[m c] V IH]; [reflexivity|]. cbn [map fst snd lookup].
  destruct (String.eqb n m); [reflexivity|exact IH].
Qed.

Definition to_l0 (nc : string * lcol) : string * slot := (fst nc, slot_of_col (snd nc)).

Lemma fill_left_spec na nb (cells : list val) d :
  List.length cells = na ->
  write_at (slice_pos (na + nb) None (Some (Z.of_nat na))) cells (repeat d (na + nb)) = cells ++ repeat d nb.
Proof.
  intros Hl. rewrite slice_pos_left. rewrite <- Hl at 1.
  pose proof (write_at_run cells [] (repeat d (na + nb))) as H. cbn [List.length app] in H.
  rewrite H by (rewrite repeat_length; lia).
  f_equal. rewrite Hl, repeat_app, skipn_app, repeat_length, Nat.sub_diag.
  rewrite skipn_all2 by (rewrite repeat_length; lia). reflexivity.
Qed.

Lemma fill_right_spec na nb (pre c2 : list val) d :
  List.length pre = na -> List.length c2 = nb ->
  write_at (slice_pos (na + nb) (Some (Z.of_nat na)) None) c2 (pre ++ repeat d nb) = pre ++ c2.
Proof.
  intros Hp Hc. rewrite slice_pos_right. rewrite <- Hp at 1. rewrite <- Hc at 1.
  rewrite write_at_run by (rewrite repeat_length; lia).
  rewrite Hc, skipn_all2 by (rewrite repeat_length; lia). rewrite app_nil_r. reflexivity.
Qed.

Lemma existsb_ext_in {A} (f g : A -> bool) l : (forall x, In x l -> f x = g x) -> existsb f l = existsb g l.
Proof. induction l as [|a l IH]; intros H; [reflexivity|]. cbn [existsb]. rewrite (H a (or_introl eq_refl)), IH; [reflexivity|]. intros x Hx. apply H. right. exact Hx. Qed.

Lemma existsb_map' {A B} (f : B -> bool) (g : A -> B) l : existsb f (map g l) = existsb (fun x => f (g x)) l.
Proof. induction l as [|a l IH]; [reflexivity|]. cbn [map existsb]. rewrite IH. reflexivity. Qed.

Lemma inv_lview_len t : inv_b t = true -> forall n c, In (n, c) (lview t) -> List.length (lc_cells c) = nrows_l t.
Proof.
  intros Hinv n c Hin. destruct (inv_b_facts t Hinv) as (_ & _ & _ & Hcols & _).
  rewrite Forall_forall in Hcols. destruct (Hcols c (lview_In t n c Hin)) as [_ Hl _]. exact Hl.
Qed.

Lemma colsb_eq (VA : list (string * lcol)) na nb : forall VB : list (string * lcol),
  (forall n c, In (n, c) VB -> List.length (lc_cells c) = nb) ->
  map to_l0
    (flat_map (fun '(n, c) =>
                 match lookup n VA with
                 | Some _ => []
                 | None => [(n, {| lc_kind := lc_kind c; lc_rowid := idx_of_list (iotaN 0 (na + nb));
                                   lc_cells := fill_slice (na + nb) (Some (Z.of_nat na)) None (lc_cells c) (lc_kind c)
                                                          (repeat (default_cell (lc_kind c)) (na + nb));
                                   lc_owner := true; lc_tc := true |})]
                 end) VB)
  = flat_map (fun '(n, k, c) =>
                match lookup n (map (fun '(m, k0, c0) => (m, (k0, c0))) (map F VA)) with
                | Some _ => []
                | None => [(n, {| skind := k; scells := repeat (default_cell k) na ++ c |})]
                end) (map F VB).
Proof.
  induction VB as [|[n c] V IH]; intros Hl; [reflexivity|]. cbn [flat_map map F fst snd].
  rewrite lookup_mapF. rewrite map_app.
  rewrite IH by (intros m x Hx; apply (Hl m x); right; exact Hx).
  f_equal. destruct (lookup n VA) as [c1|]; cbn [option_map]; [reflexivity|].
  cbn [map]. unfold to_l0, slot_of_col. cbn [fst snd lc_kind lc_cells]. f_equal. f_equal. f_equal.
  unfold fill_slice. rewrite repeat_app.
  apply fill_right_spec; [apply repeat_length|apply (Hl n c); left; reflexivity].
Qed.

Theorem concat_refines a b nf :
  inv_b a = true -> inv_b b = true ->
  match concat_l a b nf with
  | Ok r => concat_tables (abs a) (abs b) nf = Ok (abs r)
  | Raise e => concat_tables (abs a) (abs b) nf = Raise e
  end.
Proof.
  intros Ha Hb.
  destruct (inv_b_facts a Ha) as (_ & _ & _ & _ & Hna). destruct (inv_b_facts b Hb) as (_ & _ & _ & _ & Hnb).
  pose proof (inv_lview_len a Ha) as La. pose proof (inv_lview_len b Hb) as Lb.
  unfold concat_l, concat_tables.
  rewrite (lview_view a Hna), (lview_view b Hnb).
  change (nrows (abs a)) with (nrows_l a). change (nrows (abs b)) with (nrows_l b).
  set (na := nrows_l a) in *. set (nb := nrows_l b) in *.
  set (VA := lview a) in *. set (VB := lview b) in *.
  unfold k_concat_len, k_concat_left_stop, k_concat_right_start.
  replace (Z.to_nat (Z.of_nat na + Z.of_nat nb)) with (na + nb) by lia.
  (* the type test *)
  match goal with |- context [existsb ?f (map F VB)] =>
    assert (Hex : existsb f (map F VB)
                  = existsb (fun '(n, c) => match lookup n VA with
                                            | Some c2 => negb (kind_eqb (lc_kind c) (lc_kind c2))
                                            | None => false end) VB) end.
  { rewrite existsb_map'. apply existsb_ext_in. intros [n c] _. cbn [F fst snd]. rewrite lookup_mapF.
    destruct (lookup n VA) as [c2|]; reflexivity. }
  rewrite Hex. clear Hex.
  match goal with |- context [if ?c then _ else _] => destruct c end; [reflexivity|].
  (* the columns *)
  f_equal. unfold abs.
  cbn [l_fam l_rowid l_names l_cols l_sorted l_dflt idx_range ia].
  match goal with |- context [map snd (?ca ++ ?cb)] => set (CA := ca); set (CB := cb) end.
  match goal with |- _ = {| fam := _; ids := _; names := combine (map fst (?ca0 ++ ?cb0)) _; slots := _; tsorted := _; dflt := _ |} =>
    set (CA0 := ca0); set (CB0 := cb0) end.
  assert (HA : map to_l0 CA0 = CA).
  { unfold CA, CA0. rewrite !map_map. apply map_ext_in. intros [n c] Hin. cbn [F fst snd to_l0].
    unfold to_l0, slot_of_col. cbn [fst snd lc_kind lc_cells]. f_equal. f_equal.
    rewrite ?lookup_mapF, ?lookup_mapF'. unfold fill_slice.
    destruct (lookup n VB) as [c2|] eqn:E2; cbn [option_map].
    - rewrite (fill_left_spec na nb _ _ (La n c Hin)).
      apply fill_right_spec; [apply (La n c Hin)|].
      apply (Lb n c2). clear - E2. induction VB as [|[m x] V IH]; [discriminate|]. cbn [lookup] in E2.
      destruct (String.eqb n m) eqn:Em; [injection E2 as ->; apply String.eqb_eq in Em; subst; left; reflexivity|right; apply IH; exact E2].
    - apply fill_left_spec. apply (La n c Hin). }
  assert (HB : map to_l0 CB0 = CB) by (unfold CB, CB0; apply colsb_eq; exact Lb).
  assert (HAB : map to_l0 (CA0 ++ CB0) = CA ++ CB) by (rewrite map_app, HA, HB; reflexivity).
  rewrite <- HAB. rewrite !map_map, map_length.
  f_equal.
Qed.
