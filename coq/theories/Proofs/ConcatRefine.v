(* DataMatrix.__lshift__ (a << b): the L1 model that creates every column with default cells and fills the two
   slices [:k_concat_left_stop] and [k_concat_right_start:] (bounds and result length regenerated from the source)
   computes the L0 concatenation on every pair of tables satisfying the representation invariant. *)
From Coq Require Import ZArith NArith List Bool String Lia.
From DM Require Import Base.PyVal Spec.Nf Spec.Table Spec.Ops Model.LTable Gen.KCore Model.Core.
From DM Require Import Proofs.ListX Proofs.TableFacts Proofs.CoreRefine.
Import ListNotations.

Lemma set_nth_app_mid {A} (pre : list A) x r rest :
  set_nth (List.length pre) x (pre ++ r :: rest) = pre ++ x :: rest.
Proof. induction pre as [|a pre IH]; cbn [List.length set_nth app]; [reflexivity|]. f_equal. exact IH. Qed.

Lemma write_at_run (xs : list val) : forall pre rest,
  List.length xs <= List.length rest ->
  write_at (seq (List.length pre) (List.length xs)) xs (pre ++ rest) = pre ++ xs ++ skipn (List.length xs) rest.
Proof.
  induction xs as [|x xs IH]; intros pre rest Hl; cbn [List.length seq write_at skipn app]; [reflexivity|].
  destruct rest as [|r rest]; [cbn in Hl; lia|]. cbn [List.length] in Hl.
  rewrite set_nth_app_mid.
  replace (pre ++ x :: rest) with ((pre ++ [x]) ++ rest) by (rewrite <- app_assoc; reflexivity).
  replace (S (List.length pre)) with (List.length (pre ++ [x])) by (rewrite app_length; cbn; lia).
  rewrite IH by lia. rewrite <- app_assoc. reflexivity.
Qed.

Lemma slice_pos_left n m : slice_pos (n + m) None (Some (Z.of_nat n)) = seq 0 n.
Proof.
  unfold slice_pos, clamp.
  replace (Z.of_nat n <? 0)%Z with false by (symmetry; apply Z.ltb_ge; lia).
  replace (Z.min (Z.of_nat (n + m)) (Z.of_nat n)) with (Z.of_nat n) by lia.
  replace (Z.to_nat (Z.of_nat n - 0)) with n by lia. cbn [Z.to_nat].
  rewrite <- (map_id (seq 0 n)) at 2. apply map_ext. intros k. reflexivity.
Qed.

Lemma map_add_seq n m : forall s, map (fun k => n + k) (seq s m) = seq (n + s) m.
Proof. induction m as [|m IH]; intros s; cbn [seq map]; [reflexivity|]. f_equal. rewrite IH. f_equal. lia. Qed.

Lemma slice_pos_right n m : slice_pos (n + m) (Some (Z.of_nat n)) None = seq n m.
Proof.
  unfold slice_pos, clamp.
  replace (Z.of_nat n <? 0)%Z with false by (symmetry; apply Z.ltb_ge; lia).
  replace (Z.min (Z.of_nat (n + m)) (Z.of_nat n)) with (Z.of_nat n) by lia.
  replace (Z.to_nat (Z.of_nat (n + m) - Z.of_nat n)) with m by lia.
  rewrite Nat2Z.id. rewrite map_add_seq. f_equal. lia.
Qed.
