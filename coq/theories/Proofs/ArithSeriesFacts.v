(* C13, SeriesColumn part: the model through the regenerated operator table / per-sample code equals the
   specification; shape and pointwise laws. *)
From Coq Require Import ZArith List Bool String Lia.
From DM Require Import Base.PyVal Spec.Nf Spec.Arith Spec.ArithSeries Gen.KArith Model.ArithSeries Proofs.ArithFacts.
Import ListNotations.

Section SeriesFacts.
  Variable num_op : binop -> num -> num -> num.
  Hypothesis mul_comm : forall a b, num_op OMul a b = num_op OMul b a.

  Lemma np_sample_spec d c x :
    (let '(op, _, flip) := k_base_dunder d in np_sample num_op op flip c x) = scell num_op (dunder_op d) (dunder_refl d) c x.
  Proof.
    unfold np_sample, scell, ordered.
    destruct d; cbn [k_base_dunder dunder_op dunder_refl k_series_cell num_fl]; try reflexivity.
    rewrite mul_comm. reflexivity.
  Qed.

  Theorem series_refines d c o : series_operate num_op d c o = spec_series num_op (dunder_op d) (dunder_refl d) c o.
  Proof.
    unfold series_operate, spec_series, srow_scalar, srow_vec, k_series_rowid.
    pose proof (fun s x => np_sample_spec d s x) as R.
    destruct (k_base_dunder d) as [[op has] flip].
    assert (Rf : forall s x, np_sample num_op op flip s x = scell num_op (dunder_op d) (dunder_refl d) s x) by exact R.
    destruct o as [x | xs | xss].
    - do 2 f_equal. apply map_ext. intros row. apply map_ext. intros s. apply Rf.
    - destruct (Nat.eqb (List.length xs) (List.length (srows c))).
      + do 2 f_equal. apply map2_ext. intros row x. apply map_ext. intros s. apply Rf.
      + destruct (Nat.eqb (List.length xs) (sdepth c)); [|reflexivity].
        do 2 f_equal. apply map_ext. intros row. apply map2_ext. exact Rf.
    - destruct (Nat.eqb (List.length xss) (List.length (srows c)) && all_len (sdepth c) xss); [|reflexivity].
      do 2 f_equal. apply map2_ext. intros row xs. apply map2_ext. exact Rf.
  Qed.
End SeriesFacts.

Section SeriesSpec.
  Variable num_op : binop -> num -> num -> num.

  Theorem spec_series_shape op refl c o r :
    spec_series num_op op refl c o = Ok r ->
    sdepth r = sdepth c /\ sids r = sids c /\ List.length (srows r) = List.length (srows c).
  Proof.
    unfold spec_series. destruct o as [x | xs | xss].
    - intros H; inversion H; subst; cbn. repeat split. apply map_length.
    - destruct (Nat.eqb (List.length xs) (List.length (srows c))) eqn:E.
      + intros H; inversion H; subst; cbn. repeat split. apply map2_length. apply Nat.eqb_eq in E. exact E.
      + destruct (Nat.eqb (List.length xs) (sdepth c)); [|discriminate].
        intros H; inversion H; subst; cbn. repeat split. apply map_length.
    - destruct (Nat.eqb (List.length xss) (List.length (srows c)) && all_len (sdepth c) xss) eqn:E; [|discriminate].
      intros H; inversion H; subst; cbn. repeat split. apply map2_length.
      apply andb_prop in E. destruct E as [E _]. apply Nat.eqb_eq in E. exact E.
  Qed.

  (* scalar operand: sample j of row i is sample o x (x o sample) *)
  Theorem spec_series_scalar op refl c x r i j :
    spec_series num_op op refl c (SScalar x) = Ok r ->
    (i < List.length (srows c))%nat -> (j < List.length (nth i (srows c) []))%nat ->
    nth j (nth i (srows r) []) FNan = scell num_op op refl (nth j (nth i (srows c) []) FNan) x.
  Proof.
    cbn. intros H Hi Hj. inversion H; subst; cbn.
    rewrite (nth_indep _ [] (srow_scalar num_op op refl [] x)) by (rewrite map_length; exact Hi).
    rewrite (map_nth (fun row => srow_scalar num_op op refl row x)).
    unfold srow_scalar.
    rewrite (nth_indep _ FNan (scell num_op op refl FNan x)) by (rewrite map_length; exact Hj).
    rewrite (map_nth (fun s => scell num_op op refl s x)). reflexivity.
  Qed.

  (* per-row operand: every sample of row i is combined with x_i *)
  Theorem spec_series_per_row op refl c xs r i j :
    spec_series num_op op refl c (SVec xs) = Ok r -> List.length xs = List.length (srows c) ->
    (i < List.length (srows c))%nat -> (j < List.length (nth i (srows c) []))%nat ->
    nth j (nth i (srows r) []) FNan = scell num_op op refl (nth j (nth i (srows c) []) FNan) (nth i xs (NInt 0)).
  Proof.
    cbn. intros H Hl Hi Hj. rewrite Hl, Nat.eqb_refl in H. inversion H; subst; cbn.
    rewrite (map2_nth (srow_scalar num_op op refl) (srows c) xs i [] (NInt 0) []) by assumption.
    unfold srow_scalar.
    rewrite (nth_indep _ FNan (scell num_op op refl FNan (nth i xs (NInt 0)))) by (rewrite map_length; exact Hj).
    rewrite (map_nth (fun s => scell num_op op refl s (nth i xs (NInt 0)))). reflexivity.
  Qed.

  (* per-sample operand (its length is the depth and differs from the number of rows) *)
  Theorem spec_series_per_sample op refl c xs r i j :
    spec_series num_op op refl c (SVec xs) = Ok r -> List.length xs <> List.length (srows c) ->
    (i < List.length (srows c))%nat -> List.length (nth i (srows c) []) = List.length xs ->
    (j < List.length xs)%nat ->
    nth j (nth i (srows r) []) FNan = scell num_op op refl (nth j (nth i (srows c) []) FNan) (nth j xs (NInt 0)).
  Proof.
    cbn. intros H Hl Hi Hrow Hj. apply Nat.eqb_neq in Hl. rewrite Hl in H.
    destruct (Nat.eqb (List.length xs) (sdepth c)); [|discriminate]. inversion H; subst; cbn.
    rewrite (nth_indep _ [] (srow_vec num_op op refl [] xs)) by (rewrite map_length; exact Hi).
    rewrite (map_nth (fun row => srow_vec num_op op refl row xs)).
    unfold srow_vec. apply map2_nth; lia.
  Qed.
End SeriesSpec.
