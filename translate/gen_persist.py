"""Persistence kernels (C17) -> Gen/KPersist.v

Regenerated from the current source on every run:
  * the skip test of OrderedState.__getstate__ (`if k in ignore: continue`), its polarity and operand order;
  * the `ignore` constants handed over by DataMatrix/BaseColumn/Index.__getstate__ (a str: substring test!);
  * the bookkeeping of the global family-id counter `_id` in DataMatrix.__init__, __setstate__ and _mutate: the
    statements `global _id`, `object.__setattr__(self, u'_id', E)`, `_id += E` / `_id = E` are executed symbolically
    IN THE ORDER IN WHICH THEY OCCUR and become k_init_ids / k_setstate_ids / k_mutate_ids : counter -> (id the
    object ends up with, counter afterwards); the start value of the counter; no other function may touch `_id`;
  * the sortedness test of DataMatrix._to_list;
  * which cell list to_pandas hands to pandas (`list(col)` or `col._printable_list()`), for the column and for the
    DataMatrix branch, and the depth test of _SeriesColumn._printable_list (rows kept vs ellipsized into text);
Everything else these functions do is *pinned*: the statement lists of __getstate__/__setstate__, of
io.readpickle/writepickle, convert.to_json/from_json and convert.to_pandas must be exactly the ones the hand-written
skeleton of Model/Persist.v mirrors, otherwise translation fails (fail closed)."""
import ast
from py2coq import TranslationError, Env, tr_typed, find_function, body_nodoc, expect_same, dump
from kernels_common import HEADER, load

FILE = 'KPersist.v'


def coq_string(s):
    if not all(0x20 <= ord(c) <= 0x7e for c in s):
        raise TranslationError('non-ASCII attribute name %r' % s)
    return '"' + s.replace('"', '""') + '"'


def ign_const(node):
    """The `ignore=` argument: a str constant or a list/tuple/set of str constants."""
    if isinstance(node, ast.Constant) and isinstance(node.value, str):
        return '(IgnStr %s)' % coq_string(node.value)
    if isinstance(node, (ast.List, ast.Tuple, ast.Set)) and all(
            isinstance(e, ast.Constant) and isinstance(e.value, str) for e in node.elts):
        return '(IgnList [%s])' % '; '.join(coq_string(e.value) for e in node.elts)
    raise TranslationError('ignore argument %s' % ast.unparse(node))


def tr_skip(node):
    """Boolean expression over `k in ignore` -> Coq bool over (k : string) (ignore : ign)."""
    if isinstance(node, ast.Compare) and len(node.ops) == 1 and isinstance(node.left, ast.Name) \
            and node.left.id == 'k' and isinstance(node.comparators[0], ast.Name) and node.comparators[0].id == 'ignore':
        if isinstance(node.ops[0], ast.In):
            return '(py_in k ignore)'
        if isinstance(node.ops[0], ast.NotIn):
            return '(negb (py_in k ignore))'
    if isinstance(node, ast.UnaryOp) and isinstance(node.op, ast.Not):
        return '(negb %s)' % tr_skip(node.operand)
    if isinstance(node, ast.BoolOp):
        return '(' + (' && ' if isinstance(node.op, ast.And) else ' || ').join(tr_skip(v) for v in node.values) + ')'
    if isinstance(node, ast.Constant) and node.value in (True, False):
        return 'true' if node.value else 'false'
    raise TranslationError('skip test %s' % ast.unparse(node))


def pin_body(fn, srcs, what):
    body = body_nodoc(fn)
    if len(body) != len(srcs):
        raise TranslationError('%s: %d statements, expected %d' % (what, len(body), len(srcs)))
    for node, src in zip(body, srcs):
        if src is not None:
            expect_same(node, src, what)
    return body


def getstate_ignore(tree, qual):
    fn = find_function(tree, qual)
    body = body_nodoc(fn)
    if len(body) != 1 or not isinstance(body[0], ast.Return) or not isinstance(body[0].value, ast.Call):
        raise TranslationError('%s: expected a single return OrderedState.__getstate__(...)' % qual)
    call = body[0].value
    expect_same(call.func, 'OrderedState.__getstate__', qual)
    if len(call.args) != 1 or dump(call.args[0]) != dump(ast.parse('self', mode='eval').body):
        raise TranslationError('%s: positional arguments' % qual)
    if len(call.keywords) == 0:
        return '(IgnList [])'
    if len(call.keywords) != 1 or call.keywords[0].arg != 'ignore':
        raise TranslationError('%s: keywords' % qual)
    return ign_const(call.keywords[0].value)


# ---------------------------------------------------------------- the global id counter
def _is_setattr_id(node):
    """object.__setattr__(<obj>, u'_id', E) -> (obj source, E) or None"""
    if not (isinstance(node, ast.Expr) and isinstance(node.value, ast.Call)):
        return None
    c = node.value
    if dump(c.func) != dump(ast.parse('object.__setattr__', mode='eval').body) or len(c.args) != 3 or c.keywords:
        return None
    if not (isinstance(c.args[1], ast.Constant) and c.args[1].value == '_id'):
        return None
    return ast.unparse(c.args[0]), c.args[2]


def ids_kernel(fn, what, pins, own0=None):
    """Symbolic execution, in statement order, of what `fn` does with the global counter `_id` and with the `_id`
    attribute of `self`.  Returns the Coq body of a function of the counter `n` (and of `own`, the id the object had
    before, when own0 is given) yielding (id of the object afterwards, counter afterwards).  All other statements
    must be exactly `pins`, in this order, and must not mention `_id` at all."""
    lets, rest = [], []
    ctr, own, seen_global, k = 'n', own0, False, 0

    def env():
        b = [('_id', ctr, 'Z')] if seen_global else []
        if own is not None:
            b.append(('self._id', own, 'Z'))
        return Env(b)
    for node in body_nodoc(fn):
        if isinstance(node, ast.Global):
            if node.names != ['_id']:
                raise TranslationError('%s: global %s' % (what, node.names))
            seen_global = True
            continue
        sa = _is_setattr_id(node)
        if sa is not None:
            if sa[0] != 'self':
                raise TranslationError('%s: _id of %s is assigned' % (what, sa[0]))
            k += 1
            lets.append('let o%d := %s in' % (k, tr_typed(sa[1], env(), 'Z')))
            own = 'o%d' % k
            continue
        tgt = None
        if isinstance(node, ast.AugAssign) and isinstance(node.target, ast.Name) and node.target.id == '_id':
            tgt = ast.BinOp(ast.Name('_id', ast.Load()), node.op, node.value)
        elif isinstance(node, ast.Assign) and len(node.targets) == 1 and isinstance(node.targets[0], ast.Name) \
                and node.targets[0].id == '_id':
            tgt = node.value
        if tgt is not None:
            if not seen_global:
                raise TranslationError('%s: `_id` is assigned before `global _id`' % what)
            k += 1
            lets.append('let c%d := %s in' % (k, tr_typed(tgt, env(), 'Z')))
            ctr = 'c%d' % k
            continue
        rest.append(node)
    for node in rest:
        for sub in ast.walk(node):
            if (isinstance(sub, ast.Name) and sub.id == '_id') or (isinstance(sub, ast.Attribute) and sub.attr == '_id') \
                    or (isinstance(sub, ast.Constant) and sub.value == '_id'):
                raise TranslationError('%s: `_id` is used in `%s`' % (what, ast.unparse(node)[:80]))
    if len(rest) != len(pins):
        raise TranslationError('%s: %d statements besides the id bookkeeping, expected %d' % (what, len(rest), len(pins)))
    for node, src in zip(rest, pins):
        expect_same(node, src, what)
    if own is None or not seen_global:
        raise TranslationError('%s: no id is assigned / no `global _id`' % what)
    return ' '.join(lets + ['(%s, %s)' % (own, ctr)])


def id_writers(tree):
    """qualified names of all functions that declare `global _id` or assign the name `_id`, and the module-level
    start value"""
    out, start = [], None
    for node in tree.body:
        if isinstance(node, ast.Assign) and any(isinstance(t, ast.Name) and t.id == '_id' for t in node.targets):
            if start is not None or not (isinstance(node.value, ast.Constant) and type(node.value.value) is int):
                raise TranslationError('module-level `_id`: %s' % ast.unparse(node))
            start = node.value.value

    def visit(node, qual):
        for ch in ast.iter_child_nodes(node):
            if isinstance(ch, ast.ClassDef):
                visit(ch, qual + [ch.name])
            elif isinstance(ch, (ast.FunctionDef, ast.AsyncFunctionDef)):
                q = '.'.join(qual + [ch.name])
                for sub in ast.walk(ch):
                    if (isinstance(sub, ast.Global) and '_id' in sub.names) or \
                            (isinstance(sub, ast.Name) and sub.id == '_id' and isinstance(sub.ctx, (ast.Store, ast.Del))):
                        if q not in out:
                            out.append(q)
                visit(ch, qual + [ch.name])
            elif not isinstance(ch, (ast.expr, ast.expr_context)):
                visit(ch, qual)
    visit(tree, [])
    if start is None:
        raise TranslationError('no module-level `_id = <int>`')
    return sorted(out), start


def contains_stmts(fn, srcs, what):
    """the statements `srcs` occur in this order (not necessarily adjacent) at the top level of fn"""
    body = body_nodoc(fn)
    i = 0
    for src in srcs:
        ref = dump(ast.parse(src).body[0])
        while i < len(body) and dump(body[i]) != ref:
            i += 1
        if i == len(body):
            raise TranslationError('%s: statement `%s` not found (in order)' % (what, src))
        i += 1


def cell_source(node, var, what):
    """`list(var)` -> SrcList, `var._printable_list()` -> SrcPrintable"""
    if dump(node) == dump(ast.parse('list(%s)' % var, mode='eval').body):
        return 'SrcList'
    if dump(node) == dump(ast.parse('%s._printable_list()' % var, mode='eval').body):
        return 'SrcPrintable'
    raise TranslationError('%s: cells are taken from `%s`' % (what, ast.unparse(node)))


LEGACY = "if isinstance(state, dict):\n    warn(u'Unpickling an old datamatrix')\n    self.__dict__.update(state)\n    return"


def gen(repo):
    out = [HEADER % 'datamatrix/_ordered_state.py, _datamatrix/_datamatrix.py, _basecolumn.py, _index.py, '
                    'io/_pickle.py, convert/_json.py, convert/_pandas.py',
           'From Coq Require Import ZArith List Bool String.\nFrom DM Require Import Base.PersistPy.\n'
           'Import ListNotations.\nOpen Scope string_scope.\n']
    # ---- OrderedState
    t_os = load(repo, 'datamatrix/_ordered_state.py')
    gs = find_function(t_os, 'OrderedState.__getstate__')
    a = gs.args
    if [x.arg for x in a.args] != ['self', 'ignore'] or len(a.defaults) != 1 or a.vararg or a.kwarg or a.kwonlyargs:
        raise TranslationError('OrderedState.__getstate__: signature')
    dflt = ign_const(a.defaults[0])
    body = pin_body(gs, ['keys = []', 'values = []', None, 'return keys, values'], 'OrderedState.__getstate__')
    loop = body[2]
    if not isinstance(loop, ast.For) or loop.orelse:
        raise TranslationError('OrderedState.__getstate__: loop')
    if not (isinstance(loop.target, ast.Name) and loop.target.id == 'k'):
        raise TranslationError('OrderedState.__getstate__: loop variable')
    expect_same(loop.iter, 'sorted(self.__dict__)', 'iteration order of __getstate__')
    if len(loop.body) != 3 or not isinstance(loop.body[0], ast.If) or loop.body[0].orelse \
            or len(loop.body[0].body) != 1 or not isinstance(loop.body[0].body[0], ast.Continue):
        raise TranslationError('OrderedState.__getstate__: loop body is not `if T: continue; append; append`')
    skip = tr_skip(loop.body[0].test)
    expect_same(loop.body[1], 'keys.append(k)')
    expect_same(loop.body[2], 'values.append(self.__dict__[k])')
    out.append('(* OrderedState.__getstate__: `if <this>: continue` inside `for k in sorted(self.__dict__)` *)\n'
               'Definition k_skip (k : string) (ignore : ign) : bool := %s.\n'
               'Definition k_ignore_default : ign := %s.\n' % (skip, dflt))
    ss = find_function(t_os, 'OrderedState.__setstate__')
    pin_body(ss, [LEGACY, 'keys, values = state',
                  'self.__dict__.update({key: val for key, val in zip(keys, values)})'], 'OrderedState.__setstate__')
    # ---- the three __getstate__ call sites
    t_dm = load(repo, 'datamatrix/_datamatrix/_datamatrix.py')
    t_col = load(repo, 'datamatrix/_datamatrix/_basecolumn.py')
    t_ix = load(repo, 'datamatrix/_datamatrix/_index.py')
    out.append('Definition k_ignore_dm : ign := %s.\n' % getstate_ignore(t_dm, 'DataMatrix.__getstate__'))
    out.append('Definition k_ignore_col : ign := %s.\n' % getstate_ignore(t_col, 'BaseColumn.__getstate__'))
    out.append('Definition k_ignore_index : ign := %s.\n' % getstate_ignore(t_ix, 'Index.__getstate__'))
    for cls, tree in (('MixedColumn', 'datamatrix/_datamatrix/_mixedcolumn.py'),
                      ('NumericColumn', 'datamatrix/_datamatrix/_numericcolumn.py'),
                      ('FloatColumn', 'datamatrix/_datamatrix/_numericcolumn.py'),
                      ('IntColumn', 'datamatrix/_datamatrix/_numericcolumn.py')):
        t = load(repo, tree)
        for node in ast.walk(t):
            if isinstance(node, ast.ClassDef) and node.name == cls:
                for ch in node.body:
                    if isinstance(ch, ast.FunctionDef) and ch.name in ('__getstate__', '__setstate__', '__reduce__',
                                                                       '__reduce_ex__', '__getnewargs__'):
                        raise TranslationError('%s overrides %s' % (cls, ch.name))
    # ---- the global family-id counter: __init__, __setstate__, _mutate (and nobody else)
    writers, start = id_writers(t_dm)
    if writers != ['DataMatrix.__init__', 'DataMatrix.__setstate__', 'DataMatrix._mutate']:
        raise TranslationError('functions writing the global `_id`: %s' % writers)
    out.append('(* the global family-id counter of _datamatrix.py when the module is imported *)\n'
               'Definition k_id_start : Z := (%d)%%Z.\n' % start)
    init = ids_kernel(find_function(t_dm, 'DataMatrix.__init__'), 'DataMatrix.__init__', [
        "try:\n    length = int(length)\nexcept ValueError:\n    raise TypeError('length should be an integer')",
        "object.__setattr__(self, u'_cols', OrderedDict())",
        "object.__setattr__(self, u'_rowid', Index(length))",
        "object.__setattr__(self, u'_default_col_type', default_col_type)",
        "object.__setattr__(self, u'_sorted', True)",
        "for column_name, val in columns.items():\n    self[column_name] = val"])
    out.append('(* DataMatrix.__init__: counter n -> (the _id of the new object, the counter afterwards), '
               'the id statements taken in source order *)\n'
               'Definition k_init_ids (n : Z) : Z * Z := %s.\n' % init)
    sst = ids_kernel(find_function(t_dm, 'DataMatrix.__setstate__'), 'DataMatrix.__setstate__', [
        LEGACY, 'OrderedState.__setstate__(self, state)',
        'for name, column in self.columns:\n    column._datamatrix = self'])
    out.append('(* DataMatrix.__setstate__: counter n -> (the _id of the restored object, the counter afterwards) *)\n'
               'Definition k_setstate_ids (n : Z) : Z * Z := %s.\n' % sst)
    mut = ids_kernel(find_function(t_dm, 'DataMatrix._mutate'), 'DataMatrix._mutate', [], own0='own')
    out.append('(* DataMatrix._mutate: (the _id the object has, counter n) -> (its _id afterwards, the counter afterwards) *)\n'
               'Definition k_mutate_ids (own n : Z) : Z * Z := %s.\n' % mut)
    # derived tables: constructed (which consumes a counter value) and then given the family of their source
    for q in ('DataMatrix._selectrowid', 'DataMatrix._slice', 'DataMatrix._merge'):
        contains_stmts(find_function(t_dm, q), ['dm = DataMatrix(len(_rowid))', "object.__setattr__(dm, u'_id', self._id)"], q)
    for node in ast.walk(t_dm):
        if isinstance(node, ast.ClassDef) and node.name == 'DataMatrix':
            for ch in node.body:
                if isinstance(ch, ast.FunctionDef) and ch.name in ('__reduce__', '__reduce_ex__', '__getnewargs__'):
                    raise TranslationError('DataMatrix defines %s' % ch.name)
    # ---- DataMatrix.columns / _to_list
    cols = find_function(t_dm, 'DataMatrix.columns')
    pin_body(cols, ['return self._to_list(self._cols.items(), key=lambda col: col[0])'], 'DataMatrix.columns')
    tl = find_function(t_dm, 'DataMatrix._to_list')
    body = pin_body(tl, [None, 'return list(seq)'], 'DataMatrix._to_list')
    if not isinstance(body[0], ast.If) or body[0].orelse or len(body[0].body) != 1:
        raise TranslationError('DataMatrix._to_list: shape')
    expect_same(body[0].body[0], 'return list(sorted(seq, key=key))')
    test = tr_typed(body[0].test, Env([('self._sorted', 'sorted_flag', 'bool')]), 'bool')
    out.append('(* DataMatrix._to_list: is the listing sorted by name? *)\n'
               'Definition k_to_list_sorts (sorted_flag : bool) : bool := %s.\n' % test)
    # ---- Index.__setstate__
    ist = find_function(t_ix, 'Index.__setstate__')
    pin_body(ist, ['OrderedState.__setstate__(self, state)', 'self._metaindex = None'], 'Index.__setstate__')
    # ---- io._pickle
    t_pk = load(repo, 'datamatrix/io/_pickle.py')
    pin_body(find_function(t_pk, 'readpickle'),
             ["with open(path, 'rb') as picklefile:\n    dm = pickle.load(picklefile)",
              "if not hasattr(dm._rowid, '_a'):\n    dm = _upgrade_datamatrix_index(dm)", 'return dm'], 'io.readpickle')
    wp = find_function(t_pk, 'writepickle')
    body = body_nodoc(wp)
    if len(body) != 2:
        raise TranslationError('io.writepickle: statements')
    expect_same(body[1], "with open(path, 'wb') as picklefile:\n    pickle.dump(dm, picklefile, protocol)", 'io.writepickle')
    # ---- convert._json
    t_js = load(repo, 'datamatrix/convert/_json.py')
    pin_body(find_function(t_js, 'to_json'), ['import json_tricks', """return json_tricks.dumps(
        collections.OrderedDict([
            ('rowid', list(dm._rowid._a)),
            ('columns', collections.OrderedDict([
                (name, (type(column).__name__, column._seq)) for name, column in dm.columns]))
        ]), allow_nan=True)"""], 'convert.to_json')
    pin_body(find_function(t_js, 'from_json'), ['import json_tricks', 'd = json_tricks.loads(s)',
                                                "dm = DataMatrix(length=len(d['rowid']))", """for name, (coltype, seq) in d['columns'].items():
    if coltype == '_SeriesColumn':
        dm[name] = SeriesColumn(depth=seq.shape[1])
        dm[name]._seq = seq
    else:
        dm[name] = globals()[coltype]
        dm[name]._seq = seq""", 'return dm'], 'convert.from_json')
    # ---- convert._pandas
    t_pd = load(repo, 'datamatrix/convert/_pandas.py')
    body = pin_body(find_function(t_pd, 'to_pandas'), [
        None, "if not isinstance(obj, DataMatrix):\n    raise TypeError('Expecting a column or DataMatrix')",
        'd = {}', None, 'return pd.DataFrame(d)'], 'convert.to_pandas')
    b0 = body[0]
    if not (isinstance(b0, ast.If) and not b0.orelse and len(b0.body) == 1 and isinstance(b0.body[0], ast.Return)
            and isinstance(b0.body[0].value, ast.Call) and len(b0.body[0].value.args) == 1):
        raise TranslationError('convert.to_pandas: column branch')
    expect_same(b0.test, 'isinstance(obj, BaseColumn)', 'convert.to_pandas')
    src_col = cell_source(b0.body[0].value.args[0], 'obj', 'convert.to_pandas (column)')
    expect_same(ast.Return(ast.Call(b0.body[0].value.func, [ast.Name('X', ast.Load())], b0.body[0].value.keywords)),
                'return pd.Series(X, dtype=None)', 'convert.to_pandas')
    b3 = body[3]
    if not (isinstance(b3, ast.For) and not b3.orelse and len(b3.body) == 1 and isinstance(b3.body[0], ast.Assign)
            and len(b3.body[0].targets) == 1):
        raise TranslationError('convert.to_pandas: DataMatrix loop')
    expect_same(ast.For(b3.target, b3.iter, [ast.Assign(b3.body[0].targets, ast.Name('X', ast.Load()))], []),
                'for colname, col in obj.columns:\n    d[colname] = X', 'convert.to_pandas')
    src_dm = cell_source(b3.body[0].value, 'col', 'convert.to_pandas (DataMatrix)')
    out.append('(* convert.to_pandas: the cell list handed to pandas.Series / put into the dict for pandas.DataFrame *)\n'
               'Definition k_pandas_src_col : cellsrc := %s.\nDefinition k_pandas_src_dm : cellsrc := %s.\n' % (src_col, src_dm))
    t_bc = t_col
    pin_body(find_function(t_bc, 'BaseColumn._printable_list'), ['return self._seq'], 'BaseColumn._printable_list')
    t_nc = load(repo, 'datamatrix/_datamatrix/_numericcolumn.py')
    pin_body(find_function(t_nc, 'NumericColumn._printable_list'), ['return list(self._seq)'], 'NumericColumn._printable_list')
    t_sc = load(repo, 'datamatrix/_datamatrix/_seriescolumn.py')
    body = pin_body(find_function(t_sc, '_SeriesColumn._printable_list'),
                    [None, 'return [self._ellipsize(cell) for cell in self]'], '_SeriesColumn._printable_list')
    if not (isinstance(body[0], ast.If) and not body[0].orelse and len(body[0].body) == 1):
        raise TranslationError('_SeriesColumn._printable_list: shape')
    expect_same(body[0].body[0], 'return list(self._seq)', '_SeriesColumn._printable_list')
    keeps = tr_typed(body[0].test, Env([('self._depth', 'depth', 'Z')]), 'bool')
    out.append('(* _SeriesColumn._printable_list: are the rows handed out as arrays (else ellipsized into text)? *)\n'
               'Definition k_printable_keeps_rows (depth : Z) : bool := %s.\n' % keeps)
    for cls, tree in (('MixedColumn', 'datamatrix/_datamatrix/_mixedcolumn.py'), ('FloatColumn', 'datamatrix/_datamatrix/_numericcolumn.py'),
                      ('IntColumn', 'datamatrix/_datamatrix/_numericcolumn.py')):
        for node in ast.walk(load(repo, tree)):
            if isinstance(node, ast.ClassDef) and node.name == cls:
                for ch in node.body:
                    if isinstance(ch, ast.FunctionDef) and ch.name in ('_printable_list', '__iter__'):
                        raise TranslationError('%s overrides %s' % (cls, ch.name))
    # the series column keeps the state handling of BaseColumn
    for node in ast.walk(t_sc):
        if isinstance(node, ast.ClassDef) and node.name == '_SeriesColumn':
            for ch in node.body:
                if isinstance(ch, ast.FunctionDef) and ch.name in ('__getstate__', '__setstate__', '__reduce__',
                                                                   '__reduce_ex__', '__getnewargs__'):
                    raise TranslationError('_SeriesColumn overrides %s' % ch.name)
    return ''.join(out)
