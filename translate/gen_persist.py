"""Persistence kernels (C17) -> Gen/KPersist.v

Regenerated from the current source on every run:
  * the skip test of OrderedState.__getstate__ (`if k in ignore: continue`), its polarity and operand order;
  * the `ignore` constants handed over by DataMatrix/BaseColumn/Index.__getstate__ (a str: substring test!);
  * the id increment of DataMatrix.__setstate__ and the sortedness test of DataMatrix._to_list;
Everything else these functions do is *pinned*: the statement lists of __getstate__/__setstate__, of
io.readpickle/writepickle, convert.to_json/from_json and convert.to_pandas must be exactly the ones the hand-written
skeleton of Model/Persist.v mirrors, otherwise translation fails (fail closed)."""
import ast
from py2coq import TranslationError, Env, tr_typed, find_function, body_nodoc, expect_same, dump
from kernels_common import HEADER, load

FILE = 'KPersist.v'


def coq_string(s):
    if not all(0x20 <= ord(c) <= 0x7e for c in s):
        raise TranslationError('non-ASCII attribute name %r' % s)
    return '"' + s.replace('"', '""') + '"'


def ign_const(node):
    """The `ignore=` argument: a str constant or a list/tuple/set of str constants."""
    if isinstance(node, ast.Constant) and isinstance(node.value, str):
        return '(IgnStr %s)' % coq_string(node.value)
    if isinstance(node, (ast.List, ast.Tuple, ast.Set)) and all(
            isinstance(e, ast.Constant) and isinstance(e.value, str) for e in node.elts):
        return '(IgnList [%s])' % '; '.join(coq_string(e.value) for e in node.elts)
    raise TranslationError('ignore argument %s' % ast.unparse(node))


def tr_skip(node):
    """Boolean expression over `k in ignore` -> Coq bool over (k : string) (ignore : ign)."""
    if isinstance(node, ast.Compare) and len(node.ops) == 1 and isinstance(node.left, ast.Name) \
            and node.left.id == 'k' and isinstance(node.comparators[0], ast.Name) and node.comparators[0].id == 'ignore':
        if isinstance(node.ops[0], ast.In):
            return '(py_in k ignore)'
        if isinstance(node.ops[0], ast.NotIn):
            return '(negb (py_in k ignore))'
    if isinstance(node, ast.UnaryOp) and isinstance(node.op, ast.Not):
        return '(negb %s)' % tr_skip(node.operand)
    if isinstance(node, ast.BoolOp):
        return '(' + (' && ' if isinstance(node.op, ast.And) else ' || ').join(tr_skip(v) for v in node.values) + ')'
    if isinstance(node, ast.Constant) and node.value in (True, False):
        return 'true' if node.value else 'false'
    raise TranslationError('skip test %s' % ast.unparse(node))


def pin_body(fn, srcs, what):
    body = body_nodoc(fn)
    if len(body) != len(srcs):
        raise TranslationError('%s: %d statements, expected %d' % (what, len(body), len(srcs)))
    for node, src in zip(body, srcs):
        if src is not None:
            expect_same(node, src, what)
    return body


def getstate_ignore(tree, qual):
    fn = find_function(tree, qual)
    body = body_nodoc(fn)
    if len(body) != 1 or not isinstance(body[0], ast.Return) or not isinstance(body[0].value, ast.Call):
        raise TranslationError('%s: expected a single return OrderedState.__getstate__(...)' % qual)
    call = body[0].value
    expect_same(call.func, 'OrderedState.__getstate__', qual)
    if len(call.args) != 1 or dump(call.args[0]) != dump(ast.parse('self', mode='eval').body):
        raise TranslationError('%s: positional arguments' % qual)
    if len(call.keywords) == 0:
        return '(IgnList [])'
    if len(call.keywords) != 1 or call.keywords[0].arg != 'ignore':
        raise TranslationError('%s: keywords' % qual)
    return ign_const(call.keywords[0].value)


LEGACY = "if isinstance(state, dict):\n    warn(u'Unpickling an old datamatrix')\n    self.__dict__.update(state)\n    return"


def gen(repo):
    out = [HEADER % 'datamatrix/_ordered_state.py, _datamatrix/_datamatrix.py, _basecolumn.py, _index.py, '
                    'io/_pickle.py, convert/_json.py, convert/_pandas.py',
           'From Coq Require Import ZArith List Bool String.\nFrom DM Require Import Base.PersistPy.\n'
           'Import ListNotations.\nOpen Scope string_scope.\n']
    # ---- OrderedState
    t_os = load(repo, 'datamatrix/_ordered_state.py')
    gs = find_function(t_os, 'OrderedState.__getstate__')
    a = gs.args
    if [x.arg for x in a.args] != ['self', 'ignore'] or len(a.defaults) != 1 or a.vararg or a.kwarg or a.kwonlyargs:
        raise TranslationError('OrderedState.__getstate__: signature')
    dflt = ign_const(a.defaults[0])
    body = pin_body(gs, ['keys = []', 'values = []', None, 'return keys, values'], 'OrderedState.__getstate__')
    loop = body[2]
    if not isinstance(loop, ast.For) or loop.orelse:
        raise TranslationError('OrderedState.__getstate__: loop')
    if not (isinstance(loop.target, ast.Name) and loop.target.id == 'k'):
        raise TranslationError('OrderedState.__getstate__: loop variable')
    expect_same(loop.iter, 'sorted(self.__dict__)', 'iteration order of __getstate__')
    if len(loop.body) != 3 or not isinstance(loop.body[0], ast.If) or loop.body[0].orelse \
            or len(loop.body[0].body) != 1 or not isinstance(loop.body[0].body[0], ast.Continue):
        raise TranslationError('OrderedState.__getstate__: loop body is not `if T: continue; append; append`')
    skip = tr_skip(loop.body[0].test)
    expect_same(loop.body[1], 'keys.append(k)')
    expect_same(loop.body[2], 'values.append(self.__dict__[k])')
    out.append('(* OrderedState.__getstate__: `if <this>: continue` inside `for k in sorted(self.__dict__)` *)\n'
               'Definition k_skip (k : string) (ignore : ign) : bool := %s.\n'
               'Definition k_ignore_default : ign := %s.\n' % (skip, dflt))
    ss = find_function(t_os, 'OrderedState.__setstate__')
    pin_body(ss, [LEGACY, 'keys, values = state',
                  'self.__dict__.update({key: val for key, val in zip(keys, values)})'], 'OrderedState.__setstate__')
    # ---- the three __getstate__ call sites
    t_dm = load(repo, 'datamatrix/_datamatrix/_datamatrix.py')
    t_col = load(repo, 'datamatrix/_datamatrix/_basecolumn.py')
    t_ix = load(repo, 'datamatrix/_datamatrix/_index.py')
    out.append('Definition k_ignore_dm : ign := %s.\n' % getstate_ignore(t_dm, 'DataMatrix.__getstate__'))
    out.append('Definition k_ignore_col : ign := %s.\n' % getstate_ignore(t_col, 'BaseColumn.__getstate__'))
    out.append('Definition k_ignore_index : ign := %s.\n' % getstate_ignore(t_ix, 'Index.__getstate__'))
    for cls, tree in (('MixedColumn', 'datamatrix/_datamatrix/_mixedcolumn.py'),
                      ('NumericColumn', 'datamatrix/_datamatrix/_numericcolumn.py'),
                      ('FloatColumn', 'datamatrix/_datamatrix/_numericcolumn.py'),
                      ('IntColumn', 'datamatrix/_datamatrix/_numericcolumn.py')):
        t = load(repo, tree)
        for node in ast.walk(t):
            if isinstance(node, ast.ClassDef) and node.name == cls:
                for ch in node.body:
                    if isinstance(ch, ast.FunctionDef) and ch.name in ('__getstate__', '__setstate__', '__reduce__',
                                                                       '__reduce_ex__', '__getnewargs__'):
                        raise TranslationError('%s overrides %s' % (cls, ch.name))
    # ---- DataMatrix.__setstate__
    st = find_function(t_dm, 'DataMatrix.__setstate__')
    body = pin_body(st, [LEGACY, 'global _id', 'OrderedState.__setstate__(self, state)',
                         "object.__setattr__(self, u'_id', _id)",
                         'for name, column in self.columns:\n    column._datamatrix = self', None],
                    'DataMatrix.__setstate__')
    inc = body[5]
    if not (isinstance(inc, ast.AugAssign) and isinstance(inc.target, ast.Name) and inc.target.id == '_id'):
        raise TranslationError('DataMatrix.__setstate__: id increment')
    nxt = tr_typed(ast.BinOp(ast.Name('_id', ast.Load()), inc.op, inc.value), Env([('_id', 'n', 'Z')]), 'Z')
    out.append('(* DataMatrix.__setstate__: the global id counter after handing out the new family id *)\n'
               'Definition k_next_id (n : Z) : Z := %s.\n' % nxt)
    for node in ast.walk(t_dm):
        if isinstance(node, ast.ClassDef) and node.name == 'DataMatrix':
            for ch in node.body:
                if isinstance(ch, ast.FunctionDef) and ch.name in ('__reduce__', '__reduce_ex__', '__getnewargs__'):
                    raise TranslationError('DataMatrix defines %s' % ch.name)
    # ---- DataMatrix.columns / _to_list
    cols = find_function(t_dm, 'DataMatrix.columns')
    pin_body(cols, ['return self._to_list(self._cols.items(), key=lambda col: col[0])'], 'DataMatrix.columns')
    tl = find_function(t_dm, 'DataMatrix._to_list')
    body = pin_body(tl, [None, 'return list(seq)'], 'DataMatrix._to_list')
    if not isinstance(body[0], ast.If) or body[0].orelse or len(body[0].body) != 1:
        raise TranslationError('DataMatrix._to_list: shape')
    expect_same(body[0].body[0], 'return list(sorted(seq, key=key))')
    test = tr_typed(body[0].test, Env([('self._sorted', 'sorted_flag', 'bool')]), 'bool')
    out.append('(* DataMatrix._to_list: is the listing sorted by name? *)\n'
               'Definition k_to_list_sorts (sorted_flag : bool) : bool := %s.\n' % test)
    # ---- Index.__setstate__
    ist = find_function(t_ix, 'Index.__setstate__')
    pin_body(ist, ['OrderedState.__setstate__(self, state)', 'self._metaindex = None'], 'Index.__setstate__')
    # ---- io._pickle
    t_pk = load(repo, 'datamatrix/io/_pickle.py')
    pin_body(find_function(t_pk, 'readpickle'),
             ["with open(path, 'rb') as picklefile:\n    dm = pickle.load(picklefile)",
              "if not hasattr(dm._rowid, '_a'):\n    dm = _upgrade_datamatrix_index(dm)", 'return dm'], 'io.readpickle')
    wp = find_function(t_pk, 'writepickle')
    body = body_nodoc(wp)
    if len(body) != 2:
        raise TranslationError('io.writepickle: statements')
    expect_same(body[1], "with open(path, 'wb') as picklefile:\n    pickle.dump(dm, picklefile, protocol)", 'io.writepickle')
    # ---- convert._json
    t_js = load(repo, 'datamatrix/convert/_json.py')
    pin_body(find_function(t_js, 'to_json'), ['import json_tricks', """return json_tricks.dumps(
        collections.OrderedDict([
            ('rowid', list(dm._rowid._a)),
            ('columns', collections.OrderedDict([
                (name, (type(column).__name__, column._seq)) for name, column in dm.columns]))
        ]), allow_nan=True)"""], 'convert.to_json')
    pin_body(find_function(t_js, 'from_json'), ['import json_tricks', 'd = json_tricks.loads(s)',
                                                "dm = DataMatrix(length=len(d['rowid']))", """for name, (coltype, seq) in d['columns'].items():
    if coltype == '_SeriesColumn':
        dm[name] = SeriesColumn(depth=seq.shape[1])
        dm[name]._seq = seq
    else:
        dm[name] = globals()[coltype]
        dm[name]._seq = seq""", 'return dm'], 'convert.from_json')
    # ---- convert._pandas
    t_pd = load(repo, 'datamatrix/convert/_pandas.py')
    pin_body(find_function(t_pd, 'to_pandas'), [
        'if isinstance(obj, BaseColumn):\n    return pd.Series(list(obj), dtype=None)',
        "if not isinstance(obj, DataMatrix):\n    raise TypeError('Expecting a column or DataMatrix')",
        'd = {}', 'for colname, col in obj.columns:\n    d[colname] = list(col)', 'return pd.DataFrame(d)'],
        'convert.to_pandas')
    return ''.join(out)
