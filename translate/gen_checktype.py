"""_basecolumn.py / _numericcolumn.py: the type-checking chains -> Gen/KCheck.v"""
import ast
from py2coq import TranslationError, find_function, body_nodoc, expect_same
from pystmt import Ctx, block
from kernels_common import HEADER, load

FILE = 'KCheck.v'

ISIN = {
    'numbers.Integral': 'is_Integral', 'basestring': 'is_basestring', 'bytes': 'is_bytes', 'complex': 'is_complex',
    'BASESTRING_OR_NUMBER': 'is_basestring_or_Number', 'NUMBER': 'is_Number',
    'int': 'is_int', 'float': 'is_float', '(int, float)': 'is_int_or_float',
}
CALLS = {
    'int': ('b_int', 'res pyv'), 'float': ('b_float', 'res pyv'),
    'math.isnan': ('b_isnan', 'res bool'), 'math.isinf': ('b_isinf', 'res bool'),
    'safe_decode': ('b_safe_decode', 'pyv'),
}


def params(fn, expected):
    names = [a.arg for a in fn.args.args]
    if names != expected or fn.args.vararg or fn.args.kwarg or fn.args.kwonlyargs:
        raise TranslationError('%s: signature %s, expected %s' % (fn.name, names, expected))


def gen(repo):
    out = [HEADER % 'datamatrix/_datamatrix/_basecolumn.py, _numericcolumn.py',
           'From Coq Require Import ZArith List Bool String.\nFrom DM Require Import Base.PyVal.\n'
           'Import ListNotations.\nOpen Scope Z_scope.\n\n']
    base = load(repo, 'datamatrix/_datamatrix/_basecolumn.py')
    num = load(repo, 'datamatrix/_datamatrix/_numericcolumn.py')
    # module-level facts the kernels rely on
    src = ast.unparse(base)
    if 'BASESTRING_OR_NUMBER = (NUMBER, basestring)' not in src or 'NUMBER = numbers.Number' not in src:
        raise TranslationError('_basecolumn: NUMBER / BASESTRING_OR_NUMBER definitions changed')
    # fastnumbers is not installed: both modules bind it to None on ImportError (checked by the harness at run time)

    # BaseColumn._checktype_regular
    fn = find_function(base, 'BaseColumn._checktype_regular')
    params(fn, ['self', 'value'])
    cx = Ctx(ISIN, {}, CALLS)
    cx.locals = {'value'}
    out.append('Definition k_checktype_regular (value : pyv) : res pyv :=\n  %s.\n\n' % block(body_nodoc(fn), cx))

    # BaseColumn._checktype
    fn = find_function(base, 'BaseColumn._checktype')
    params(fn, ['self', 'value'])
    calls = dict(CALLS)
    calls['self._checktype_regular'] = ('k_checktype_regular', 'res pyv')
    cx = Ctx(ISIN, {'fastnumbers': ('false', 'bool')}, calls)
    cx.locals = {'value'}
    # the fastnumbers branch is dead here; it must still be the guarded call we expect
    body = body_nodoc(fn)
    pruned = []
    for st in body:
        if isinstance(st, ast.If) and ast.unparse(st.test) == 'fastnumbers':
            expect_same(st.body[0], 'return self._checktype_fastnumber(value)')
            if st.orelse:
                raise TranslationError('_checktype: fastnumbers branch has an else')
            continue
        pruned.append(st)
    out.append('Definition k_base_checktype (value : pyv) : res pyv :=\n  %s.\n\n' % block(pruned, cx))

    # NumericColumn._checktype  (self.invalid is a parameter: nan for Float, 0 for Int)
    fn = find_function(num, 'NumericColumn._checktype')
    params(fn, ['self', 'value'])
    calls = dict(CALLS)
    calls['BaseColumn._checktype'] = ('k_base_checktype_self', 'res pyv')
    cx = Ctx(ISIN, {'self.invalid': ('invalid', 'pyv'), 'self': ('PNone', 'pyv')}, calls)
    cx.locals = {'value'}
    out.append('Definition k_base_checktype_self (_self value : pyv) : res pyv := k_base_checktype value.\n')
    out.append('Definition k_numeric_checktype (invalid value : pyv) : res pyv :=\n  %s.\n\n' % block(body_nodoc(fn), cx))

    # IntColumn._checktype
    fn = find_function(num, 'IntColumn._checktype')
    params(fn, ['self', 'value'])
    body = body_nodoc(fn)
    pruned = []
    for st in body:
        if isinstance(st, ast.If) and ast.unparse(st.test) == 'value is not None and fastnumbers is not None':
            continue            # dead: fastnumbers is None
        pruned.append(st)
    cx = Ctx(ISIN, {}, CALLS)
    cx.locals = {'value'}
    out.append('Definition k_int_checktype (value : pyv) : res pyv :=\n  %s.\n\n' % block(pruned, cx))

    # BaseColumn._nanorinf (used by the statistics): val != val or val == INF
    fn = find_function(base, 'BaseColumn._nanorinf')
    params(fn, ['self', 'val'])
    cx = Ctx(ISIN, {'INF': ('(PFloat (FInf false))', 'pyv')}, CALLS)
    cx.locals = {'val'}
    out.append('Definition k_nanorinf (val : pyv) : res bool :=\n  %s.\n' % block(body_nodoc(fn), cx))
    return ''.join(out)
