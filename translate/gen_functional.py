"""functional.py map_/filter_/setcol and the DataMatrix/Row/BaseColumn methods they run through -> Gen/KFunctional.v

Every function body is translated into a *script*: its control skeleton (if / elif / else / raise / return) becomes a
Gallina decision term over named boolean / integer conditions, and every other statement must be one of the pinned
statements of that function (compared by AST); it contributes its label to the list of effects at the leaf:

    k_<fn> conditions : res (list eff)        Raise e = the function raises e;  Ok [e1; ...; en] = these statements ran

A changed condition, a dropped / reordered guard or statement changes the generated term, so the characterising lemmas
in Proofs/FunctionalFacts.v stop proving for all inputs; harmless rewrites of the conditions (reordered disjuncts,
`not a == b` for `a != b`) still compute to the same script.  Loop skeletons and list comprehensions are pinned whole.
"""
import ast
from py2coq import TranslationError, Env, tr_typed, find_function, body_nodoc, expect_same, dump, parse_stmt
from kernels_common import HEADER, load

FILE = 'KFunctional.v'

EXN = {'ValueError', 'TypeError', 'IndexError', 'KeyError', 'AttributeError'}


def _pins(table):
    """{source: label} -> {ast dump: label}"""
    out = {}
    for src, label in table.items():
        node = parse_stmt(src)
        out[dump(node)] = label
    return out


def script(stmts, env, pins, what):
    """statement list -> Coq term of type res (list eff)"""
    if not stmts:
        return '(Ok [])'
    s, rest = stmts[0], list(stmts[1:])
    if isinstance(s, ast.Expr) and isinstance(s.value, ast.Constant) and isinstance(s.value.value, str):
        return script(rest, env, pins, what)
    if isinstance(s, ast.If):
        c = tr_typed(s.test, env, 'bool')
        a = script(list(s.body) + rest, env, pins, what)
        b = script(list(s.orelse) + rest, env, pins, what)
        return '(if %s then %s else %s)' % (c, a, b)
    if isinstance(s, ast.Raise):
        e = s.exc
        name = e.func.id if isinstance(e, ast.Call) and isinstance(e.func, ast.Name) else \
            (e.id if isinstance(e, ast.Name) else None)
        if name == 'Exception':
            return '(Raise PlainException)'
        if name not in EXN:
            raise TranslationError('%s: raise %s' % (what, ast.unparse(s)))
        return '(Raise %s)' % name
    label = pins.get(dump(s))
    if label is None:
        raise TranslationError('%s: statement is not one of the pinned ones: `%s`' % (what, ast.unparse(s)[:160]))
    if isinstance(s, ast.Return):
        return '(Ok [%s])' % label
    return '(eff_cons %s %s)' % (label, script(rest, env, pins, what))


def params(fn, expected, what):
    a = fn.args
    names = [x.arg for x in a.args]
    if names != expected or a.vararg or a.kwarg or a.kwonlyargs:
        raise TranslationError('%s: signature %s, expected %s' % (what, names, expected))


def definition(name, binders, term, comment=None):
    return '%sDefinition %s %s : res (list eff) :=\n  %s.\n\n' % (
        ('(* %s *)\n' % comment) if comment else '', name, binders, term)


EFFECTS = [
    # map_
    'MColMap', 'MCopy', 'MRowLoop', 'MReturn',
    # filter_
    'FColFilter', 'FBind', 'FKeep', 'FSelectKept',
    # setcol
    'SCopy', 'SAssign', 'SReturn',
    # DataMatrix._set_col
    'CDecode', 'CNewOfType', 'CNewOfSpec', 'CUnpack', 'CInsertRef', 'CEmptyLike', 'CNewDefault', 'CFill', 'CMutate', 'CReturn',
    # DataMatrix.__getitem__
    'GByObject', 'GByName', 'GRow', 'GSlice', 'GImportOps', 'GKeepOnly',
    # DataMatrix._getrow
    'GMakeRow',
    # DataMatrix._to_list
    'LSorted', 'LPlain',
    # Row
    'RKeyByPos', 'RReadCell', 'RCreateDefault', 'RWriteCell',
    # BaseColumn._compare / _compare_function / __setitem__
    'QNan', 'QType', 'QSet', 'QFunction', 'QSequence', 'QValue',
    'TTestIs', 'TTestNeg', 'TSelect',
    'WInt', 'WSlice', 'WSequence', 'WDataMatrix', 'WMutate',
]


def gen(repo):
    fun = load(repo, 'datamatrix/functional.py')
    dmt = load(repo, 'datamatrix/_datamatrix/_datamatrix.py')
    rowt = load(repo, 'datamatrix/_datamatrix/_row.py')
    base = load(repo, 'datamatrix/_datamatrix/_basecolumn.py')
    num = load(repo, 'datamatrix/_datamatrix/_numericcolumn.py')
    out = [HEADER % 'datamatrix/functional.py, _datamatrix/_datamatrix.py, _row.py, _basecolumn.py',
           'From Coq Require Import ZArith List Bool.\nFrom DM Require Import Base.PyVal.\n'
           'Import ListNotations.\nOpen Scope Z_scope.\n\n',
           'Inductive eff :=\n  ' + '\n  '.join('| %s' % e for e in EFFECTS) + '.\n\n',
           'Definition eff_cons (e : eff) (r : res (list eff)) : res (list eff) :=\n'
           '  match r with Ok l => Ok (e :: l) | Raise x => Raise x end.\n\n']

    # ------------------------------------------------------------------ functional.map_
    fn = find_function(fun, 'map_')
    params(fn, ['fnc', 'obj'], 'map_')
    env = Env([('callable(fnc)', 'is_callable', 'bool'), ('isinstance(obj, BaseColumn)', 'is_col', 'bool'),
               ('isinstance(obj, DataMatrix)', 'is_dm', 'bool')])
    pins = _pins({
        'return obj._map(fnc)': 'MColMap',
        'dm = obj[:]': 'MCopy',
        'for row, source_row in zip(dm, obj):\n    d = {col: val for col, val in source_row}\n    d.update(fnc(**d))\n'
        '    for col, val in d.items():\n        row[col] = val': 'MRowLoop',
        'return dm': 'MReturn',
    })
    out.append(definition('k_map', '(is_callable is_col is_dm : bool)', script(body_nodoc(fn), env, pins, 'map_'),
                          'functional.map_: guards and dispatch; the row loop is pinned'))

    # ------------------------------------------------------------------ functional.filter_
    fn = find_function(fun, 'filter_')
    params(fn, ['fnc', 'obj'], 'filter_')
    pins = _pins({
        'return (obj == fnc)[obj.name]': 'FColFilter',
        'dm = obj': 'FBind',
        'keep = lambda fnc, row: fnc(**{col: val for col, val in row})': 'FKeep',
        'return dm._selectrowid(Index([rowid for rowid, row in zip(dm._rowid, obj) if keep(fnc, row)]))': 'FSelectKept',
    })
    out.append(definition('k_filter', '(is_callable is_col is_dm : bool)', script(body_nodoc(fn), env, pins, 'filter_'),
                          'functional.filter_: guards and dispatch; the row-id comprehension is pinned'))

    # ------------------------------------------------------------------ functional.setcol
    fn = find_function(fun, 'setcol')
    params(fn, ['dm', 'name', 'value'], 'setcol')
    env = Env([('isinstance(name, basestring)', 'name_is_str', 'bool'),
               ('isinstance(value, BaseColumn)', 'value_is_col', 'bool'),
               ('value._datamatrix is not dm', '(negb owner_is_dm)', 'bool'),
               ('value._datamatrix is dm', 'owner_is_dm', 'bool')])
    pins = _pins({'newdm = dm[:]': 'SCopy', 'newdm[name] = value': 'SAssign', 'return newdm': 'SReturn'})
    out.append(definition('k_setcol', '(name_is_str value_is_col owner_is_dm : bool)',
                          script(body_nodoc(fn), env, pins, 'setcol'), 'functional.setcol'))

    # ------------------------------------------------------------------ DataMatrix.__setitem__ / _set_col
    fn = find_function(dmt, 'DataMatrix.__setitem__')
    params(fn, ['self', 'name', 'value'], 'DataMatrix.__setitem__')
    b = body_nodoc(fn)
    if len(b) != 1:
        raise TranslationError('DataMatrix.__setitem__: body')
    expect_same(b[0], 'self._set_col(name, value)')

    fn = find_function(dmt, 'DataMatrix._set_col')
    params(fn, ['self', 'name', 'value'], 'DataMatrix._set_col')
    body = body_nodoc(fn)
    # the tail starts at the name check that follows the column branch
    cut = None
    for i, st in enumerate(body):
        if isinstance(st, ast.If) and ast.unparse(st.test) == 'not isinstance(name, str)':
            cut = i
    if cut is None:
        raise TranslationError('_set_col: the `if not isinstance(name, str)` check is missing')
    env = Env([('isinstance(name, bytes)', 'name_is_bytes', 'bool'),
               ('isinstance(value, type)', 'v_is_type', 'bool'),
               ('issubclass(value, BaseColumn)', 'v_is_colclass', 'bool'),
               ('isinstance(value, tuple)', 'v_is_tuple', 'bool'),
               ('len(value) == 2', 'v_len2', 'bool'),
               ('isinstance(value[0], type)', 'v0_is_type', 'bool'),
               ('issubclass(value[0], BaseColumn)', 'v0_is_colclass', 'bool'),
               ('isinstance(value, BaseColumn)', 'v_is_col', 'bool'),
               ('value._datamatrix is self', 'same_dm', 'bool'),
               ('any((value is col for col in self._cols.values()))', 'is_own_column', 'bool'),
               ('len(value)', 'vlen', 'Z'), ('len(self)', 'slen', 'Z'),
               ('all((i == j for i, j in zip(value._rowid, self._rowid)))', 'ids_match', 'bool')])
    pins = _pins({
        'name = safe_decode(name)': 'CDecode',
        'self._cols[name] = value(self)': 'CNewOfType',
        'cls, kwdict = value': 'CUnpack',
        'self._cols[name] = cls(self, **kwdict)': 'CNewOfSpec',
        'self._cols[name] = value': 'CInsertRef',
        'self._cols[name] = value._empty_col(datamatrix=self)': 'CEmptyLike',
        'return': 'CReturn',
    })
    out.append(definition(
        'k_set_col_head',
        '(name_is_bytes v_is_type v_is_colclass v_is_tuple v_len2 v0_is_type v0_is_colclass v_is_col same_dm is_own_column '
        'ids_match : bool) '
        '(vlen slen : Z)',
        script(body[:cut], env, pins, '_set_col (head)'),
        'DataMatrix._set_col up to and including the column-object branch'))
    env = Env([('isinstance(name, str)', 'name_is_str', 'bool'), ('name not in self', 'name_missing', 'bool')])
    pins = _pins({'self._cols[name] = self._default_col_type(self)': 'CNewDefault',
                  'self._cols[name][:] = value': 'CFill', 'self._mutate()': 'CMutate'})
    out.append(definition('k_set_col_tail', '(name_is_str name_missing : bool)',
                          script(body[cut:], env, pins, '_set_col (tail)'),
                          'DataMatrix._set_col after the column-object branch (name_missing is evaluated at that point)'))

    # ------------------------------------------------------------------ DataMatrix.__getitem__, _getrow, _slice, _selectrowid
    fn = find_function(dmt, 'DataMatrix.__getitem__')
    params(fn, ['self', 'key'], 'DataMatrix.__getitem__')
    env = Env([('isinstance(key, BaseColumn)', 'key_is_col', 'bool'), ('isinstance(key, basestring)', 'key_is_str', 'bool'),
               ('isinstance(key, int)', 'key_is_int', 'bool'), ('isinstance(key, slice)', 'key_is_slice', 'bool'),
               ('isinstance(key, Sequence)', 'key_is_seq', 'bool'),
               ('all((isinstance(v, (basestring, BaseColumn)) for v in key))', 'all_names', 'bool')])
    pins = _pins({'return self._getcolbyobject(key)': 'GByObject', 'return self._getcolbyname(key)': 'GByName',
                  'return self._getrow(key)': 'GRow', 'return self._slice(key)': 'GSlice',
                  'from datamatrix import operations as ops': 'GImportOps', 'return ops.keep_only(self, *key)': 'GKeepOnly'})
    body = body_nodoc(fn)
    if not isinstance(body[-1], ast.Raise):
        raise TranslationError('DataMatrix.__getitem__: last statement is not the KeyError')
    out.append(definition('k_dm_getitem', '(key_is_col key_is_str key_is_int key_is_slice key_is_seq all_names : bool)',
                          script(body, env, pins, 'DataMatrix.__getitem__'), 'DataMatrix.__getitem__: dispatch on the key'))

    fn = find_function(dmt, 'DataMatrix._getrow')
    params(fn, ['self', 'key'], 'DataMatrix._getrow')
    env = Env([('key', 'key', 'Z'), ('len(self)', 'slen', 'Z')])
    pins = _pins({'return Row(self, key)': 'GMakeRow'})
    out.append(definition('k_getrow', '(key slen : Z)', script(body_nodoc(fn), env, pins, '_getrow'),
                          'DataMatrix._getrow: the index range guard'))

    fn = find_function(dmt, 'DataMatrix._slice')
    params(fn, ['self', 'key'], 'DataMatrix._slice')
    body = body_nodoc(fn)
    want = ['_rowid = self._rowid[key]', 'dm = DataMatrix(len(_rowid))', "object.__setattr__(dm, u'_rowid', _rowid)",
            "object.__setattr__(dm, u'_id', self._id)",
            'for name, col in self._cols.items():\n    dm._cols[name] = self._cols[name][key]\n    dm._cols[name]._datamatrix = dm',
            'return dm']
    if len(body) != len(want):
        raise TranslationError('DataMatrix._slice: %d statements, expected %d' % (len(body), len(want)))
    for st, src in zip(body, want):
        expect_same(st, src, 'DataMatrix._slice')

    fn = find_function(dmt, 'DataMatrix._selectrowid')
    params(fn, ['self', '_rowid'], 'DataMatrix._selectrowid')
    body = body_nodoc(fn)
    want = ['dm = DataMatrix(len(_rowid))', "object.__setattr__(dm, u'_rowid', _rowid)",
            "object.__setattr__(dm, u'_id', self._id)",
            'for name, col in self._cols.items():\n    dm._cols[name] = self._cols[name]._getrowidkey(_rowid)\n'
            '    dm._cols[name]._datamatrix = dm',
            'return dm']
    if len(body) != len(want):
        raise TranslationError('DataMatrix._selectrowid: %d statements, expected %d' % (len(body), len(want)))
    for st, src in zip(body, want):
        expect_same(st, src, 'DataMatrix._selectrowid')

    # a new DataMatrix is sorted and has MixedColumn as default column type
    fn = find_function(dmt, 'DataMatrix.__init__')
    a = fn.args
    if [x.arg for x in a.args] != ['self', 'length', 'default_col_type'] or len(a.defaults) != 2 \
            or ast.unparse(a.defaults[1]) != 'MixedColumn' or ast.unparse(a.defaults[0]) != '0':
        raise TranslationError('DataMatrix.__init__: signature / defaults changed')
    init_src = [dump(s) for s in body_nodoc(fn)]
    for need in ("object.__setattr__(self, u'_sorted', True)", "object.__setattr__(self, u'_default_col_type', default_col_type)",
                 "object.__setattr__(self, u'_cols', OrderedDict())", "object.__setattr__(self, u'_rowid', Index(length))"):
        if dump(parse_stmt(need)) not in init_src:
            raise TranslationError('DataMatrix.__init__: missing `%s`' % need)

    # column_names / rows / _to_list / __iter__
    for prop, src in (('column_names', 'return self._to_list(self._cols.keys())'), ('rows', 'return list(range(len(self)))')):
        fn = find_function(dmt, 'DataMatrix.%s' % prop)
        b = body_nodoc(fn)
        if len(b) != 1:
            raise TranslationError('DataMatrix.%s: body' % prop)
        expect_same(b[0], src, 'DataMatrix.%s' % prop)
    fn = find_function(dmt, 'DataMatrix._to_list')
    env = Env([('self._sorted', 'is_sorted', 'bool')])
    pins = _pins({'return list(sorted(seq, key=key))': 'LSorted', 'return list(seq)': 'LPlain'})
    out.append(definition('k_to_list', '(is_sorted : bool)', script(body_nodoc(fn), env, pins, '_to_list'),
                          'DataMatrix._to_list: sorted names iff the table is flagged sorted'))
    fn = find_function(dmt, 'DataMatrix.__iter__')
    b = body_nodoc(fn)
    if len(b) != 1:
        raise TranslationError('DataMatrix.__iter__: body')
    expect_same(b[0], 'for i in self.rows:\n    yield self[i]', 'DataMatrix.__iter__')

    # ------------------------------------------------------------------ Row
    fn = find_function(rowt, 'Row.__iter__')
    b = body_nodoc(fn)
    if len(b) != 1:
        raise TranslationError('Row.__iter__: body')
    expect_same(b[0], 'for col in self._datamatrix.column_names:\n    yield (col, self[col])', 'Row.__iter__')
    env = Env([('isinstance(key, int)', 'key_is_int', 'bool'), ('isinstance(key, basestring)', 'key_is_str', 'bool'),
               ('key not in self._datamatrix.column_names', 'key_missing', 'bool')])
    fn = find_function(rowt, 'Row.__getitem__')
    params(fn, ['self', 'key'], 'Row.__getitem__')
    pins = _pins({'key = self._datamatrix.column_names[key]': 'RKeyByPos',
                  'return self._datamatrix[key][self._index]': 'RReadCell'})
    out.append(definition('k_row_getitem', '(key_is_int : bool)', script(body_nodoc(fn), env, pins, 'Row.__getitem__'),
                          'Row.__getitem__'))
    fn = find_function(rowt, 'Row.__setitem__')
    params(fn, ['self', 'key', 'value'], 'Row.__setitem__')
    pins = _pins({'key = self._datamatrix.column_names[key]': 'RKeyByPos',
                  'self._datamatrix[key] = self._datamatrix._default_col_type.default_value': 'RCreateDefault',
                  'self._datamatrix[key][self._index] = value': 'RWriteCell'})
    out.append(definition('k_row_setitem', '(key_is_int key_is_str key_missing : bool)',
                          script(body_nodoc(fn), env, pins, 'Row.__setitem__'),
                          'Row.__setitem__: a missing column is created with the default value first'))

    # ------------------------------------------------------------------ BaseColumn
    # the default value of a new column is the empty string for every column type
    cls = find_function(base, 'BaseColumn')
    dv = [s for s in cls.body if isinstance(s, ast.Assign) and ast.unparse(s.targets[0]) == 'default_value']
    if len(dv) != 1 or not (isinstance(dv[0].value, ast.Constant) and dv[0].value.value == ''):
        raise TranslationError("BaseColumn.default_value is not ''")
    for cname in ('NumericColumn', 'FloatColumn', 'IntColumn'):
        c = find_function(num, cname)
        for s in c.body:
            if isinstance(s, ast.Assign) and ast.unparse(s.targets[0]) == 'default_value':
                raise TranslationError('%s overrides default_value' % cname)

    fn = find_function(base, 'BaseColumn.__eq__')
    b = body_nodoc(fn)
    if len(b) != 1:
        raise TranslationError('BaseColumn.__eq__: body')
    expect_same(b[0], 'return self._compare(other, operator.eq)', 'BaseColumn.__eq__')

    fn = find_function(base, 'BaseColumn._compare')
    params(fn, ['self', 'other', 'op'], 'BaseColumn._compare')
    env = Env([('isinstance(other, float)', 'o_is_float', 'bool'), ('math.isnan(other)', 'o_is_nan', 'bool'),
               ('isinstance(other, type)', 'o_is_type', 'bool'), ('isinstance(other, set)', 'o_is_set', 'bool'),
               ('isinstance(other, types.FunctionType)', 'o_is_function', 'bool'),
               ('self._issequence(other)', 'o_is_sequence', 'bool')])
    pins = _pins({'return self._compare_nan(other, op)': 'QNan', 'return self._compare_type(other, op)': 'QType',
                  'return self._compare_set(other, op)': 'QSet', 'return self._compare_function(other, op)': 'QFunction',
                  'return self._compare_sequence(other, op)': 'QSequence', 'return self._compare_value(other, op)': 'QValue'})
    out.append(definition('k_compare', '(o_is_float o_is_nan o_is_type o_is_set o_is_function o_is_sequence : bool)',
                          script(body_nodoc(fn), env, pins, 'BaseColumn._compare'),
                          'BaseColumn._compare: which comparison a reference object selects'))

    fn = find_function(base, 'BaseColumn._compare_function')
    params(fn, ['self', 'other', 'op'], 'BaseColumn._compare_function')
    env = Env([('op == operator.__eq__', 'op_is_eq', 'bool'), ('op == operator.__ne__', 'op_is_ne', 'bool'),
               ('len(getargspec(other).args)', 'nargs', 'Z')])
    pins = _pins({'test = other': 'TTestIs', 'test = lambda val: not other(val)': 'TTestNeg',
                  'return self._datamatrix._selectrowid(Index([rowid for rowid, val in zip(self._rowid, self._seq) '
                  'if test(val)]))': 'TSelect'})
    out.append(definition('k_compare_function', '(op_is_eq op_is_ne : bool) (nargs : Z)',
                          script(body_nodoc(fn), env, pins, 'BaseColumn._compare_function'),
                          'BaseColumn._compare_function: the test, the arity guard; the row-id comprehension is pinned'))

    # col[i] = v : BaseColumn.__setitem__ -> _setintkey -> self._seq[key] = self._checktype(value)
    fn = find_function(base, 'BaseColumn.__setitem__')
    params(fn, ['self', 'key', 'value'], 'BaseColumn.__setitem__')
    env = Env([('isinstance(key, int)', 'key_is_int', 'bool'), ('isinstance(key, slice)', 'key_is_slice', 'bool'),
               ('isinstance(key, SEQUENCE)', 'key_is_seq', 'bool'), ('isinstance(key, DataMatrix)', 'key_is_dm', 'bool')])
    pins = _pins({'self._setintkey(key, value)': 'WInt', 'self._setslicekey(key, value)': 'WSlice',
                  'self._setsequencekey(key, value)': 'WSequence', 'self._setdatamatrixkey(key, value)': 'WDataMatrix',
                  'self._datamatrix._mutate()': 'WMutate'})
    out.append(definition('k_col_setitem', '(key_is_int key_is_slice key_is_seq key_is_dm : bool)',
                          script(body_nodoc(fn), env, pins, 'BaseColumn.__setitem__'), 'BaseColumn.__setitem__'))
    fn = find_function(base, 'BaseColumn._setintkey')
    b = body_nodoc(fn)
    if len(b) != 1:
        raise TranslationError('BaseColumn._setintkey: body')
    expect_same(b[0], 'self._seq[key] = self._checktype(value)', 'BaseColumn._setintkey')
    for c in ('NumericColumn', 'FloatColumn', 'IntColumn'):
        node = find_function(num, c)
        for s in node.body:
            if isinstance(s, ast.FunctionDef) and s.name in ('_setintkey', '__setitem__', '_compare', '_compare_function'):
                raise TranslationError('%s overrides %s (not modelled)' % (c, s.name))

    # BaseColumn._getrowidkey: cells are fetched by id through the Index position dict
    fn = find_function(base, 'BaseColumn._getrowidkey')
    body = body_nodoc(fn)
    want = ['col = self._empty_col()', 'col._rowid = key',
            'col._seq = [self._seq[self._rowid.index(_rowid)] for _rowid in key]', 'return col']
    if len(body) != len(want):
        raise TranslationError('BaseColumn._getrowidkey: statements')
    for st, src in zip(body, want):
        expect_same(st, src, 'BaseColumn._getrowidkey')
    # BaseColumn._getslicekey (dm[:] slices every column)
    fn = find_function(base, 'BaseColumn._getslicekey')
    body = body_nodoc(fn)
    want = ['col = self._empty_col()', 'col._rowid = self._rowid[key]', 'col._seq = self._seq[key]', 'return col']
    if len(body) != len(want):
        raise TranslationError('BaseColumn._getslicekey: statements')
    for st, src in zip(body, want):
        expect_same(st, src, 'BaseColumn._getslicekey')
    # BaseColumn._map
    fn = find_function(base, 'BaseColumn._map')
    body = body_nodoc(fn)
    want = ['col = self._empty_col()', 'col._rowid = self._rowid.copy()', 'col._seq = [fnc(val) for val in self._seq]',
            'return col']
    if len(body) != len(want):
        raise TranslationError('BaseColumn._map: statements')
    for st, src in zip(body, want):
        expect_same(st, src, 'BaseColumn._map')
    fn = find_function(num, 'NumericColumn._map')
    body = body_nodoc(fn)
    want = ['col = self._empty_col()', 'col._rowid = self._rowid.copy()',
            'col._seq = np.array([fnc(val) for val in self._seq], dtype=self.dtype)', 'return col']
    if len(body) != len(want):
        raise TranslationError('NumericColumn._map: statements')
    for st, src in zip(body, want):
        expect_same(st, src, 'NumericColumn._map')
    return ''.join(out)
