"""_sort.py (comparison methods, _sortable_regular), the _sortedrowid skeletons and
operations.sort / bin_split  ->  Gen/KSort.v   (property C10)

Translated (regenerated on every run):
  * the six __lt__/__gt__ bodies of SortableNAN / SortableNone / SortableSTR over the key universe of
    Base/SortKey.v (isinstance tests -> is_nan/is_none/is_str/is_num, ._val -> sval, str comparison exact);
  * the decision chain of _sortable_regular over the classified object universe pyv (through pystmt);
  * bin_split: the guard `len(col) < bins`, the initial `start`, the bound `int(len(dm) * (i+1)/bins)`.
Pinned (must be exactly the statement shown, otherwise the translation fails closed): the statement skeletons
of BaseColumn._sortedrowid, NumericColumn._sortedrowid, operations.sort, the loop skeleton of bin_split,
SortableSTR.__init__, the module-level bindings of sortable / sortable_nan / sortable_none, and the bodies of
DataMatrix._selectrowid, BaseColumn._getrowidkey and NumericColumn._getrowidkey (rows are fetched by row id, whole
rows of _seq: series columns inherit the numeric variant).
"""
import ast
from py2coq import TranslationError, Env, tr_typed, find_function, body_nodoc, expect_same
from pystmt import Ctx, block
from kernels_common import HEADER, load

FILE = 'KSort.v'

CMP_ENV = [
    ('isinstance(other, SortableNAN)', '(is_nan other)', 'bool'),
    ('isinstance(other, SortableNone)', '(is_none other)', 'bool'),
    ('isinstance(other, SortableSTR)', '(is_str other)', 'bool'),
    ('isinstance(other, (int, float))', '(is_num other)', 'bool'),
    ('isinstance(other, (float, int))', '(is_num other)', 'bool'),
    ('other._val', '(sval other)', 'str'),
    ('self._val', '(sval self)', 'str'),
]


def params(fn, expected):
    names = [a.arg for a in fn.args.args]
    if names != expected or fn.args.vararg or fn.args.kwarg or fn.args.kwonlyargs or fn.args.defaults:
        raise TranslationError('%s: signature %s, expected %s' % (fn.name, names, expected))


def single_return(fn):
    body = body_nodoc(fn)
    if len(body) != 1 or not isinstance(body[0], ast.Return) or body[0].value is None:
        raise TranslationError('%s: expected a single `return <expr>`' % fn.name)
    return body[0].value


def class_methods(tree, cname):
    cls = find_function(tree, cname)
    if not isinstance(cls, ast.ClassDef):
        raise TranslationError('%s is not a class' % cname)
    if [ast.unparse(b) for b in cls.bases] != ['object'] or cls.keywords or cls.decorator_list:
        raise TranslationError('%s: bases/decorators changed' % cname)
    return {n.name: n for n in cls.body if isinstance(n, ast.FunctionDef)}


class WrapReturns(ast.NodeTransformer):
    """`return e` for a plain object e becomes `return __plain_key__(e)` so that every returned
    object is tagged with how it was built (SKObj / SKStr / the singletons)."""

    def visit_Return(self, node):
        v = node.value
        if v is None:
            raise TranslationError('_sortable_regular: bare return')
        if isinstance(v, ast.Name) and v.id in ('sortable_none', 'sortable_nan'):
            return node
        if isinstance(v, ast.Call) and isinstance(v.func, ast.Name) and v.func.id == 'SortableSTR':
            return node
        return ast.copy_location(ast.Return(ast.Call(ast.Name('__plain_key__', ast.Load()), [v], [])), node)

    def visit_FunctionDef(self, node):      # no nested functions expected
        raise TranslationError('_sortable_regular: nested function')

    visit_Lambda = visit_FunctionDef


def gen(repo):
    rel = 'datamatrix/_datamatrix/_sort.py'
    tree = load(repo, rel)
    out = [HEADER % (rel + ', _basecolumn.py, _numericcolumn.py, operations.py'),
           'From Coq Require Import ZArith List Bool String.\n'
           'From DM Require Import Base.PyVal Base.SortKey.\nImport ListNotations.\nOpen Scope Z_scope.\n\n']

    # ---- the comparison methods -------------------------------------------------------
    env = Env(CMP_ENV)
    for cname in ('SortableNAN', 'SortableNone', 'SortableSTR'):
        ms = class_methods(tree, cname)
        allowed = {'__lt__', '__gt__'} | ({'__init__'} if cname == 'SortableSTR' else set())
        if set(ms) != allowed:
            raise TranslationError('%s: methods %s, expected %s' % (cname, sorted(ms), sorted(allowed)))
        for m in ('__lt__', '__gt__'):
            fn = ms[m]
            params(fn, ['self', 'other'])
            if fn.decorator_list:
                raise TranslationError('%s.%s: decorated' % (cname, m))
            text = tr_typed(single_return(fn), env, 'bool')
            out.append('Definition %s_%s (self other : key) : bool := %s.\n' % (cname, m.strip('_'), text))
    init = class_methods(tree, 'SortableSTR')['__init__']
    params(init, ['self', 'val'])
    ib = body_nodoc(init)
    if len(ib) != 1:
        raise TranslationError('SortableSTR.__init__: body')
    expect_same(ib[0], 'self._val = val')
    out.append('\n')

    # ---- module-level bindings -----------------------------------------------------------
    tops = [ast.unparse(s) for s in tree.body if isinstance(s, ast.Assign)]
    for need in ('sortable = _sortable_fastnumbers if fastnumbers else _sortable_regular',
                 'sortable_nan = SortableNAN()', 'sortable_none = SortableNone()'):
        if tops.count(need) != 1:
            raise TranslationError('_sort.py: module-level binding changed: %s' % need)
    if len(tops) != 3:
        raise TranslationError('_sort.py: unexpected module-level assignments %s' % tops)

    # ---- _sortable_regular (fastnumbers is absent: checked by the harness at run time) --------
    fn = find_function(tree, '_sortable_regular')
    params(fn, ['val'])
    body = [WrapReturns().visit(s) for s in body_nodoc(fn)]
    cx = Ctx({'float': 'is_float', 'int': 'is_int', '(int, float)': 'is_int_or_float'},
             {'sortable_none': ('SKNone', 'pyv'), 'sortable_nan': ('SKNan', 'pyv')},
             {'float': ('b_float', 'res pyv'), 'int': ('b_int', 'res pyv'),
              'math.isnan': ('b_isnan', 'res bool'), 'math.isinf': ('b_isinf', 'res bool'),
              # constructors of the returned object; the kind `pyv` only says "pure value" here, Coq checks the type
              'SortableSTR': ('SKStr', 'pyv'), '__plain_key__': ('SKObj', 'pyv')})
    cx.locals = {'val'}
    text = block(body, cx, tail='(Raise OtherError)')
    out.append('(* _sortable_regular: the key object built for a cell value *)\n'
               'Definition k_sortable (val : pyv) : res skey :=\n  %s.\n\n' % text)

    # ---- the _sortedrowid skeletons ----------------------------------------------------------
    base = load(repo, 'datamatrix/_datamatrix/_basecolumn.py')
    fn = find_function(base, 'BaseColumn._sortedrowid')
    params(fn, ['self'])
    b = body_nodoc(fn)
    if len(b) != 2:
        raise TranslationError('BaseColumn._sortedrowid: statement count')
    expect_same(b[0], 's = sorted(zip(self._seq, self._rowid), key=lambda x: sortable(x[0]))', 'BaseColumn._sortedrowid')
    expect_same(b[1], 'return Index([rowid for val, rowid in s])', 'BaseColumn._sortedrowid')
    num = load(repo, 'datamatrix/_datamatrix/_numericcolumn.py')
    fn = find_function(num, 'NumericColumn._sortedrowid')
    params(fn, ['self'])
    b = body_nodoc(fn)
    if len(b) != 1:
        raise TranslationError('NumericColumn._sortedrowid: statement count')
    expect_same(b[0], 'return Index(self._rowid[self._seq.argsort()])', 'NumericColumn._sortedrowid')
    for cls in ('FloatColumn', 'IntColumn', 'MixedColumn'):
        for mod in (base, num):
            try:
                c = find_function(mod, cls)
            except TranslationError:
                continue
            if any(isinstance(n, ast.FunctionDef) and n.name == '_sortedrowid' for n in c.body):
                raise TranslationError('%s overrides _sortedrowid' % cls)

    # ---- how the sorted rows are fetched: by ROW ID (pinned; Model.Sort.getrowidkey / selectrowid mirror them) ----
    # BaseColumn looks every id of the key up in its own row ids; NumericColumn (also inherited by _SeriesColumn, whose
    # _seq is rows x depth) finds the same positions through a cached argsort + searchsorted and takes WHOLE ROWS of
    # _seq by fancy indexing.  A positional shortcut, a flattening take() or a per-class override is refused here.
    def pin_body(tree, qual, plist, stmts):
        f = find_function(tree, qual)
        params(f, plist)
        body = body_nodoc(f)
        if len(body) != len(stmts):
            raise TranslationError('%s: %d statements, expected %d (pinned body changed)' % (qual, len(body), len(stmts)))
        for node, src in zip(body, stmts):
            expect_same(node, src, qual)

    dmod = load(repo, 'datamatrix/_datamatrix/_datamatrix.py')
    pin_body(dmod, 'DataMatrix._selectrowid', ['self', '_rowid'], [
        'dm = DataMatrix(len(_rowid))',
        "object.__setattr__(dm, u'_rowid', _rowid)",
        "object.__setattr__(dm, u'_id', self._id)",
        'for name, col in self._cols.items():\n'
        '    dm._cols[name] = self._cols[name]._getrowidkey(_rowid)\n'
        '    dm._cols[name]._datamatrix = dm',
        'return dm'])
    pin_body(base, 'BaseColumn._getrowidkey', ['self', 'key'], [
        'col = self._empty_col()',
        'col._rowid = key',
        'col._seq = [self._seq[self._rowid.index(_rowid)] for _rowid in key]',
        'return col'])
    pin_body(num, 'NumericColumn._getrowidkey', ['self', 'key'], [
        'col = self._empty_col()',
        'orig_indices = self._rowid_argsort()',
        'matching_indices = np.searchsorted(self._rowid[orig_indices], key)',
        'selected_indices = orig_indices[matching_indices]',
        'col._rowid = self._rowid[selected_indices]',
        'col._seq = self._seq[selected_indices]',
        'return col'])
    series = load(repo, 'datamatrix/_datamatrix/_seriescolumn.py')
    mixed = load(repo, 'datamatrix/_datamatrix/_mixedcolumn.py')
    for mod in (num, series, mixed):
        for c in mod.body:
            if isinstance(c, ast.ClassDef) and c.name != 'NumericColumn':
                for ch in c.body:
                    if isinstance(ch, ast.FunctionDef) and ch.name in ('_getrowidkey', '_sortedrowid', '_rowid_argsort'):
                        raise TranslationError('%s overrides %s' % (c.name, ch.name))
    # (nothing is emitted for the pins: the generated text stays the same, a changed pin makes the generation fail)

    # ---- operations.sort and bin_split ---------------------------------------------------------
    ops = load(repo, 'datamatrix/operations.py')
    fn = find_function(ops, 'sort')
    if [a.arg for a in fn.args.args] != ['obj', 'by'] or [ast.unparse(d) for d in fn.args.defaults] != ['None']:
        raise TranslationError('operations.sort: signature')
    b = body_nodoc(fn)
    if len(b) != 5:
        raise TranslationError('operations.sort: statement count %d' % len(b))
    first = b[0]
    if not isinstance(first, ast.If) or first.orelse or len(first.body) != 2:
        raise TranslationError('operations.sort: DataMatrix branch')
    expect_same(first.test, 'isinstance(obj, DataMatrix)')
    inner = first.body[0]
    if not isinstance(inner, ast.If) or inner.orelse or len(inner.body) != 1 or not isinstance(inner.body[0], ast.Raise):
        raise TranslationError('operations.sort: by-is-None guard')
    expect_same(inner.test, 'by is None')
    exc = inner.body[0].exc
    if not (isinstance(exc, ast.Call) and isinstance(exc.func, ast.Name) and exc.func.id == 'ValueError'):
        raise TranslationError('operations.sort: expected ValueError')
    expect_same(first.body[1], 'return obj._selectrowid(by._sortedrowid())')
    second = b[1]
    if not isinstance(second, ast.If) or second.orelse or len(second.body) != 1:
        raise TranslationError('operations.sort: default by')
    expect_same(second.test, 'by is None')
    expect_same(second.body[0], 'by = obj')
    expect_same(b[2], 'col = obj._getrowidkey(by._sortedrowid())')
    expect_same(b[3], 'col._rowid = obj._rowid')
    expect_same(b[4], 'return col')

    fn = find_function(ops, 'bin_split')
    params(fn, ['col', 'bins'])
    b = body_nodoc(fn)
    if len(b) != 4:
        raise TranslationError('bin_split: statement count %d' % len(b))
    guard = b[0]
    if not isinstance(guard, ast.If) or guard.orelse or len(guard.body) != 1 or not isinstance(guard.body[0], ast.Raise):
        raise TranslationError('bin_split: guard shape')
    exc = guard.body[0].exc
    if not (isinstance(exc, ast.Call) and isinstance(exc.func, ast.Name) and exc.func.id == 'ValueError'):
        raise TranslationError('bin_split: the guard must raise ValueError')
    genv = Env([('len(col)', 'len_col', 'Z'), ('bins', 'bins', 'Z')])
    out.append('(* bin_split: `if <guard>: raise ValueError` *)\n'
               'Definition k_bin_guard (len_col bins : Z) : bool := %s.\n' % tr_typed(guard.test, genv, 'bool'))
    expect_same(b[1], 'dm = sort(col._datamatrix, by=col)', 'bin_split')
    st = b[2]
    if not (isinstance(st, ast.Assign) and len(st.targets) == 1 and isinstance(st.targets[0], ast.Name)
            and st.targets[0].id == 'start'):
        raise TranslationError('bin_split: start initialisation')
    out.append('Definition k_bin_start : Z := %s.\n' % tr_typed(st.value, Env([]), 'Z'))
    loop = b[3]
    if not isinstance(loop, ast.For) or loop.orelse or len(loop.body) != 3:
        raise TranslationError('bin_split: loop shape')
    if not (isinstance(loop.target, ast.Name) and loop.target.id == 'i'):
        raise TranslationError('bin_split: loop variable')
    expect_same(loop.iter, 'range(bins)')
    asg = loop.body[0]
    if not (isinstance(asg, ast.Assign) and len(asg.targets) == 1 and isinstance(asg.targets[0], ast.Name)
            and asg.targets[0].id == 'end'):
        raise TranslationError('bin_split: end assignment')
    lenv = Env([('len(dm)', 'len_dm', 'Z'), ('i', 'i', 'Z'), ('bins', 'bins', 'Z'), ('len(col)', 'len_dm', 'Z')])
    out.append('(* bin_split: end of chunk i  (int(a/b) -> Z.quot under the stated bound 0 <= a < 2^53, 0 < b) *)\n'
               'Definition k_bin_end (len_dm i bins : Z) : Z := %s.\n' % tr_typed(asg.value, lenv, 'Z'))
    expect_same(loop.body[1], 'yield dm[start:end]', 'bin_split')
    expect_same(loop.body[2], 'start = end', 'bin_split')
    return ''.join(out)
