"""functional.py: curry kernels -> Gen/KCurry.v"""
import ast
from py2coq import TranslationError, Env, tr_typed, find_function, body_nodoc, expect_same
from kernels_common import HEADER, load

FILE = 'KCurry.v'

def gen(repo):
    rel = 'datamatrix/functional.py'
    tree = load(repo, rel)
    out = [HEADER % rel, 'From Coq Require Import ZArith List Bool.\nOpen Scope Z_scope.\n']
    # what `getargspec` is: the first statement of the module-level try must be
    # `from inspect import getfullargspec as getargspec` (its .args lists the positional parameters only: no
    # keyword-only parameters, no *args / **kwargs), with the Python 2 fallback `from inspect import getargspec`
    imports = [node for node in tree.body if isinstance(node, ast.Try) and node.body
               and isinstance(node.body[0], ast.ImportFrom) and node.body[0].module == 'inspect']
    if len(imports) != 1 or len(imports[0].body) != 1 or len(imports[0].handlers) != 1 \
            or len(imports[0].handlers[0].body) != 1:
        raise TranslationError('functional.py: the try/except import of getargspec from inspect changed')
    expect_same(imports[0].body[0], 'from inspect import getfullargspec as getargspec', 'what counts the parameters')
    expect_same(imports[0].handlers[0].body[0], 'from inspect import getargspec', 'Python 2 fallback')
    for node in ast.walk(tree):
        if isinstance(node, (ast.Assign, ast.AugAssign, ast.AnnAssign, ast.FunctionDef, ast.ClassDef, ast.Import,
                             ast.ImportFrom, ast.Global)) and node not in (imports[0].body[0], imports[0].handlers[0].body[0]):
            names = []
            if isinstance(node, ast.Assign):
                names = [t.id for tg in node.targets for t in ast.walk(tg) if isinstance(t, ast.Name)]
            elif isinstance(node, (ast.AugAssign, ast.AnnAssign)):
                names = [t.id for t in ast.walk(node.target) if isinstance(t, ast.Name)]
            elif isinstance(node, (ast.FunctionDef, ast.ClassDef)):
                names = [node.name]
            elif isinstance(node, ast.Global):
                names = list(node.names)
            else:
                names = [(a.asname or a.name) for a in node.names]
            if 'getargspec' in names:
                raise TranslationError('functional.py: getargspec is bound a second time')
    # _count_unbound_arguments: nbound = 0; while isinstance(fnc, partial): nbound += E1; fnc = fnc.func; return E2
    fn = find_function(tree, '_count_unbound_arguments')
    body = body_nodoc(fn)
    if len(body) != 3:
        raise TranslationError('_count_unbound_arguments: unexpected statement count')
    expect_same(body[0], 'nbound = 0')
    loop = body[1]
    if not isinstance(loop, ast.While) or loop.orelse:
        raise TranslationError('_count_unbound_arguments: expected while loop')
    expect_same(loop.test, 'isinstance(fnc, functools.partial)')
    if len(loop.body) != 2:
        raise TranslationError('_count_unbound_arguments: loop body')
    acc = loop.body[0]
    if not (isinstance(acc, ast.AugAssign) and isinstance(acc.target, ast.Name) and acc.target.id == 'nbound'):
        raise TranslationError('_count_unbound_arguments: accumulator')
    env = Env([('nbound', 'nbound', 'Z'), ('len(fnc.args)', 'nargs_link', 'Z')])
    step = tr_typed(ast.BinOp(ast.Name('nbound', ast.Load()), acc.op, acc.value), env, 'Z')
    expect_same(loop.body[1], 'fnc = fnc.func')
    ret = body[2]
    if not isinstance(ret, ast.Return):
        raise TranslationError('_count_unbound_arguments: return')
    env2 = Env([('nbound', 'nbound', 'Z'), ('len(getargspec(fnc).args)', 'arity', 'Z')])
    res = tr_typed(ret.value, env2, 'Z')
    out.append('(* one iteration of the while loop over the functools.partial chain *)\n'
               'Definition k_nbound_step (nbound nargs_link : Z) : Z := %s.\n' % step)
    out.append('Definition k_unbound (arity nbound : Z) : Z := %s.\n' % res)
    # curry.inner
    inner = find_function(tree, 'curry.inner')
    if inner.args.vararg is None or inner.args.vararg.arg != 'args' or inner.args.args or inner.args.kwonlyargs \
            or inner.args.kwarg:
        raise TranslationError('curry.inner: signature is not (*args)')
    ib = body_nodoc(inner)
    if len(ib) != 2 or not isinstance(ib[0], ast.If) or ib[0].orelse:
        raise TranslationError('curry.inner: expected `if ...: return ...` then `return ...`')
    env3 = Env([('_count_unbound_arguments(fnc)', 'unbound', 'Z'), ('len(args)', 'nargs', 'Z')])
    test = tr_typed(ib[0].test, env3, 'bool')
    if len(ib[0].body) != 1:
        raise TranslationError('curry.inner: then-branch')
    expect_same(ib[0].body[0], 'return fnc(*args)')
    expect_same(ib[1], 'return curry(functools.partial(fnc, *args))')
    out.append('(* curry.inner: call the function now? *)\n'
               'Definition k_call_now (unbound nargs : Z) : bool := %s.\n' % test)
    # wrapper keeps name/doc
    cur = find_function(tree, 'curry')
    cb = body_nodoc(cur)
    last = cb[-2:]
    if len(last) != 2 or not isinstance(last[0], ast.If):
        raise TranslationError('curry: tail')
    expect_same(last[0].test, 'py3')
    expect_same(last[0].body[0], 'return functools.wraps(fnc)(inner)')
    return ''.join(out)


