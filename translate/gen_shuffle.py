"""operations.py (shuffle, random_sample, shuffle_horiz), _row.py (Row.__iter__/__setitem__), _index.py (the copy
constructor): guards and decisions of the column variants of C11 -> Gen/KShuffle.v; loop skeletons pinned."""
import ast
from py2coq import TranslationError, Env, tr_typed, find_function, body_nodoc, expect_same
from kernels_common import HEADER, load

FILE = 'KShuffle.v'


def _if(st, what):
    if not isinstance(st, ast.If):
        raise TranslationError('%s: expected an if, found `%s`' % (what, ast.unparse(st)))
    return st


def _assert_test(st, what):
    if not isinstance(st, ast.Assert) or st.msg is not None:
        raise TranslationError('%s: expected a bare assert, found `%s`' % (what, ast.unparse(st)))
    return st.test


def gen(repo):
    out = [HEADER % 'datamatrix/operations.py (shuffle, random_sample, shuffle_horiz), _row.py, _index.py',
           'From Coq Require Import ZArith Bool.\nOpen Scope Z_scope.\n\n']
    omod = load(repo, 'datamatrix/operations.py')
    rmod = load(repo, 'datamatrix/_datamatrix/_row.py')
    imod = load(repo, 'datamatrix/_datamatrix/_index.py')

    # ---- shuffle ---------------------------------------------------------------------------------
    body = body_nodoc(find_function(omod, 'shuffle'))
    if len(body) != 6:
        raise TranslationError('shuffle: %d statements, expected 6' % len(body))
    expect_same(body[0], '_rowid = Index(obj._rowid)')
    expect_same(body[1], 'random.shuffle(_rowid)')
    br = _if(body[2], 'shuffle')
    if br.orelse or len(br.body) != 1:
        raise TranslationError('shuffle: the DataMatrix branch changed')
    env = Env([('isinstance(obj, DataMatrix)', 'is_dm', 'bool')])
    out.append('(* shuffle: the rows of a DataMatrix are fetched by _selectrowid when this holds, else the column branch *)\n'
               'Definition k_shuffle_is_table (is_dm : bool) : bool := %s.\n' % tr_typed(br.test, env, 'bool'))
    expect_same(br.body[0], 'return obj._selectrowid(_rowid)')
    # column branch: the cells are fetched BY ID in the shuffled order, then the column is re-labelled with the
    # row ids of its source (position-aligned with the DataMatrix)
    expect_same(body[3], 'col = obj._getrowidkey(_rowid)')
    expect_same(body[4], 'col._rowid = obj._rowid')
    expect_same(body[5], 'return col')

    # ---- random_sample ---------------------------------------------------------------------------
    body = body_nodoc(find_function(omod, 'random_sample'))
    if len(body) != 4:
        raise TranslationError('random_sample: %d statements, expected 4' % len(body))
    expect_same(body[0], '_rowid = Index(obj._rowid)')
    expect_same(body[1], '_rowid = Index(random.sample(list(_rowid), k))')
    br = _if(body[2], 'random_sample')
    if br.orelse or len(br.body) != 1:
        raise TranslationError('random_sample: the DataMatrix branch changed')
    out.append('Definition k_sample_is_table (is_dm : bool) : bool := %s.\n' % tr_typed(br.test, env, 'bool'))
    expect_same(br.body[0], 'return obj._selectrowid(_rowid)')
    expect_same(body[3], 'return obj._getrowidkey(_rowid)')

    # ---- shuffle_horiz ---------------------------------------------------------------------------
    body = body_nodoc(find_function(omod, 'shuffle_horiz'))
    if len(body) != 8:
        raise TranslationError('shuffle_horiz: %d statements, expected 8' % len(body))
    ex = _if(body[0], 'shuffle_horiz')
    if ex.orelse or len(ex.body) != 1:
        raise TranslationError('shuffle_horiz: the single-DataMatrix branch changed')
    env = Env([('len(obj)', 'n', 'Z'), ('isinstance(obj[0], DataMatrix)', 'first_is_dm', 'bool')])
    out.append('(* shuffle_horiz: a single DataMatrix argument stands for all its columns *)\n'
               'Definition k_horiz_expand (n : Z) (first_is_dm : bool) : bool := %s.\n' % tr_typed(ex.test, env, 'bool'))
    expect_same(ex.body[0], 'obj = [column for colname, column in obj[0].columns]')
    tr_ = body[1]
    if not isinstance(tr_, ast.Try) or tr_.orelse or tr_.finalbody or len(tr_.handlers) != 1 or len(tr_.body) != 4:
        raise TranslationError('shuffle_horiz: the argument check changed')
    h = tr_.handlers[0]
    if h.type is None or ast.unparse(h.type) != 'AssertionError' or len(h.body) != 1 \
            or not isinstance(h.body[0], ast.Raise) or ast.unparse(h.body[0].exc.func) != 'ValueError':
        raise TranslationError('shuffle_horiz: a failed argument check must raise ValueError')
    env = Env([('len(obj)', 'n', 'Z')])
    out.append('(* shuffle_horiz: the three assertions of the argument check, in their order (ValueError when one fails) *)\n'
               'Definition k_horiz_nonempty (n : Z) : bool := %s.\n'
               % tr_typed(_assert_test(tr_.body[0], 'shuffle_horiz'), env, 'bool'))
    l1 = tr_.body[1]
    if not (isinstance(l1, ast.For) and ast.unparse(l1.target) == 'column' and ast.unparse(l1.iter) == 'obj'
            and len(l1.body) == 1 and not l1.orelse):
        raise TranslationError('shuffle_horiz: first assertion loop')
    env = Env([('isinstance(column, BaseColumn)', 'is_col', 'bool')])
    out.append('Definition k_horiz_is_column (is_col : bool) : bool := %s.\n'
               % tr_typed(_assert_test(l1.body[0], 'shuffle_horiz'), env, 'bool'))
    expect_same(tr_.body[2], 'dm = obj[0]._datamatrix')
    l2 = tr_.body[3]
    if not (isinstance(l2, ast.For) and ast.unparse(l2.target) == 'column' and ast.unparse(l2.iter) == 'obj'
            and len(l2.body) == 1 and not l2.orelse):
        raise TranslationError('shuffle_horiz: second assertion loop')
    # DataMatrix.__eq__ compares the family (_id)
    env = Env([('dm == column._datamatrix', 'same_family', 'bool')])
    out.append('Definition k_horiz_same_dm (same_family : bool) : bool := %s.\n'
               % tr_typed(_assert_test(l2.body[0], 'shuffle_horiz'), env, 'bool'))
    # the work: a copy, the chosen columns of a copy, per row a shuffle of copied values written back by column
    # position, the shuffled columns re-attached to the copy (pinned skeleton)
    expect_same(body[2], 'dm = dm[:]')
    expect_same(body[3], 'dm_shuffle = keep_only(dm, *obj)')
    expect_same(body[4], "for row in dm_shuffle:\n"
                         "    values = [val.copy() if hasattr(val, u'copy') else val for colname, val in row]\n"
                         "    random.shuffle(values)\n"
                         "    for i, val in enumerate(values):\n"
                         "        row[i] = val")
    expect_same(body[5], 'for colname, column in dm_shuffle.columns:\n'
                         '    dm._cols[colname] = column\n'
                         '    column._datamatrix = dm')
    expect_same(body[6], 'dm._mutate()')
    expect_same(body[7], 'return dm')

    # ---- Row: a row is read and written through the (sorted) column names of its DataMatrix -------------
    body = body_nodoc(find_function(rmod, 'Row.__iter__'))
    if len(body) != 1:
        raise TranslationError('Row.__iter__ changed')
    expect_same(body[0], 'for col in self._datamatrix.column_names:\n    yield (col, self[col])')
    body = body_nodoc(find_function(rmod, 'Row.__getitem__'))
    expect_same(body[-1], 'return self._datamatrix[key][self._index]')
    body = body_nodoc(find_function(rmod, 'Row.__setitem__'))
    if len(body) != 2:
        raise TranslationError('Row.__setitem__: %d statements, expected 2' % len(body))
    t = _if(body[0], 'Row.__setitem__')
    env = Env([('isinstance(key, int)', 'is_int', 'bool')])
    out.append('(* Row.__setitem__: an integer key is a position in column_names *)\n'
               'Definition k_row_key_is_position (is_int : bool) : bool := %s.\n' % tr_typed(t.test, env, 'bool'))
    expect_same(t.body[0], 'key = self._datamatrix.column_names[key]')
    expect_same(body[1], 'self._datamatrix[key][self._index] = value')

    # ---- Index(Index): the copy constructor hands over both caches (Index.__setitem__, pinned in KCore, drops them) ----
    body = body_nodoc(find_function(imod, 'Index.__init__'))
    chain = _if(body[0], 'Index.__init__')
    found = None
    node = chain
    while isinstance(node, ast.If):
        if ast.unparse(node.test) == 'isinstance(start, Index)':
            found = node
        node = node.orelse[0] if len(node.orelse) == 1 else None
    if found is None:
        raise TranslationError('Index.__init__: no branch for an Index argument')
    got = sorted(ast.unparse(s) for s in found.body)
    want = sorted(['self._a = start._a[:]', 'self._length = start._length', 'self._max = start._max',
                   'self._metaindex = start._metaindex'])
    if got != want:
        raise TranslationError('Index.__init__: the copy branch changed: %r' % (got,))
    return ''.join(out)
