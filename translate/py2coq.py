"""Fail-closed translation of small pure Python fragments (ast) to Gallina text.

Nothing here guesses: every construct outside the grammar raises
TranslationError, and the caller treats that like a broken proof.

An *environment* maps Python sub-expressions (given as source text, compared
by AST dump) to (coq_term, type).  Types: 'Z', 'bool', 'str', 'key' (opaque).
"""
import ast


class TranslationError(Exception):
    pass


def dump(node):
    return ast.dump(node, annotate_fields=False, include_attributes=False)


def parse_expr(src):
    return ast.parse(src, mode='eval').body


def parse_stmt(src):
    body = ast.parse(src).body
    if len(body) != 1:
        raise TranslationError('expected one statement: %r' % src)
    return body[0]


def find_function(tree, qualname):
    """qualname like 'Class.method', 'function' or 'outer.inner'."""
    node = tree
    for part in qualname.split('.'):
        found = None
        for child in ast.iter_child_nodes(node):
            if isinstance(child, (ast.FunctionDef, ast.ClassDef)) and child.name == part:
                if found is not None:
                    raise TranslationError('ambiguous %s' % qualname)
                found = child
        if found is None:
            # search one level deeper in if/try blocks at module level
            for child in ast.walk(node):
                if isinstance(child, (ast.FunctionDef, ast.ClassDef)) and child.name == part and child is not node:
                    if found is not None and found is not child:
                        raise TranslationError('ambiguous %s' % qualname)
                    found = child
        if found is None:
            raise TranslationError('no definition %s' % qualname)
        node = found
    return node


def body_nodoc(fn):
    body = list(fn.body)
    if body and isinstance(body[0], ast.Expr) and isinstance(getattr(body[0], 'value', None), ast.Constant) \
            and isinstance(body[0].value.value, str):
        body = body[1:]
    return body


def expect_same(node, src, what=''):
    """Pin: node must be exactly the statement/expression `src`."""
    try:
        ref = parse_stmt(src)
        if isinstance(ref, ast.Expr) and not isinstance(node, ast.Expr):
            ref = ref.value
    except SyntaxError as e:
        raise TranslationError(str(e))
    if dump(node) != dump(ref):
        raise TranslationError('pinned fragment changed%s: expected `%s`, found `%s`' % (
            (' (' + what + ')') if what else '', src, ast.unparse(node)))


class Env:
    def __init__(self, bindings):
        # bindings: list of (python_source, coq_term, type)
        self.table = {}
        for src, term, ty in bindings:
            self.table[dump(parse_expr(src))] = (term, ty)

    def lookup(self, node):
        return self.table.get(dump(node))


CMP_Z = {ast.Eq: 'Z.eqb', ast.NotEq: None, ast.Lt: 'Z.ltb', ast.LtE: 'Z.leb',
         ast.Gt: 'Z.gtb', ast.GtE: 'Z.geb'}
CMP_STR = {ast.Eq: 'str_eqb', ast.Lt: 'str_ltb', ast.LtE: 'str_leb',
           ast.Gt: 'str_gtb', ast.GtE: 'str_geb'}


def tr(node, env, want=None):
    """Translate expression -> (coq_text, type)."""
    hit = env.lookup(node)
    if hit is not None:
        term, ty = hit
        if want and ty != want:
            raise TranslationError('type mismatch for %s: %s vs %s' % (ast.unparse(node), ty, want))
        return term, ty
    if isinstance(node, ast.Constant):
        v = node.value
        if v is True:
            return 'true', 'bool'
        if v is False:
            return 'false', 'bool'
        if isinstance(v, int):
            return '(%d)%%Z' % v, 'Z'
        if isinstance(v, float):
            # only dyadic constants with tiny denominators are admitted
            num, den = v.as_integer_ratio()
            if den in (1, 2, 4, 8):
                return '(Qmake (%d) %d)' % (num, den), 'Q'
        raise TranslationError('constant %r' % (v,))
    if isinstance(node, ast.BoolOp):
        parts = [tr(v, env, 'bool')[0] for v in node.values]
        op = ' && ' if isinstance(node.op, ast.And) else ' || '
        return '(' + op.join(parts) + ')', 'bool'
    if isinstance(node, ast.UnaryOp):
        if isinstance(node.op, ast.Not):
            return '(negb %s)' % tr(node.operand, env, 'bool')[0], 'bool'
        if isinstance(node.op, ast.USub):
            return '(Z.opp %s)' % tr(node.operand, env, 'Z')[0], 'Z'
        raise TranslationError('unary %s' % ast.unparse(node))
    if isinstance(node, ast.Compare):
        if len(node.ops) != 1:
            # a < b < c  ==>  conjunction
            parts = []
            left = node.left
            for op, right in zip(node.ops, node.comparators):
                parts.append(tr(ast.Compare(left, [op], [right]), env, 'bool')[0])
                left = right
            return '(' + ' && '.join(parts) + ')', 'bool'
        op = node.ops[0]
        l, lt = tr(node.left, env)
        r, rt = tr(node.comparators[0], env)
        if lt != rt:
            raise TranslationError('comparison of %s and %s in %s' % (lt, rt, ast.unparse(node)))
        if lt == 'Z':
            if isinstance(op, ast.NotEq):
                return '(negb (Z.eqb %s %s))' % (l, r), 'bool'
            f = CMP_Z.get(type(op))
        elif lt == 'str':
            if isinstance(op, ast.NotEq):
                return '(negb (str_eqb %s %s))' % (l, r), 'bool'
            f = CMP_STR.get(type(op))
        elif lt == 'bool' and isinstance(op, (ast.Eq, ast.Is)):
            f = 'Bool.eqb'
        else:
            f = None
        if f is None:
            raise TranslationError('comparison %s' % ast.unparse(node))
        return '(%s %s %s)' % (f, l, r), 'bool'
    if isinstance(node, ast.BinOp):
        l, lt = tr(node.left, env)
        r, rt = tr(node.right, env)
        if lt == rt == 'Z':
            ops = {ast.Add: 'Z.add', ast.Sub: 'Z.sub', ast.Mult: 'Z.mul',
                   ast.FloorDiv: 'Z.div', ast.Mod: 'Z.modulo'}
            f = ops.get(type(node.op))
            if f is None:
                raise TranslationError('Z operator %s' % ast.unparse(node))
            return '(%s %s %s)' % (f, l, r), 'Z'
        if {lt, rt} <= {'Q', 'Z'}:
            ops = {ast.Add: 'Qplus', ast.Sub: 'Qminus', ast.Mult: 'Qmult', ast.Div: 'Qdiv'}
            f = ops.get(type(node.op))
            if f is None:
                raise TranslationError('Q operator %s' % ast.unparse(node))
            lq = l if lt == 'Q' else '(inject_Z %s)' % l
            rq = r if rt == 'Q' else '(inject_Z %s)' % r
            return '(%s %s %s)' % (f, lq, rq), 'Q'
        raise TranslationError('binop types %s %s in %s' % (lt, rt, ast.unparse(node)))
    if isinstance(node, ast.Call):
        # int(a / b) on integers: truncation of the true quotient; for
        # 0 <= a < 2^52, 0 < b this equals floor division (stated bound).
        if isinstance(node.func, ast.Name) and node.func.id == 'int' and len(node.args) == 1 \
                and not node.keywords and isinstance(node.args[0], ast.BinOp) \
                and isinstance(node.args[0].op, ast.Div):
            a, at = tr(node.args[0].left, env, 'Z')
            b, bt = tr(node.args[0].right, env, 'Z')
            return '(Z.quot %s %s)' % (a, b), 'Z'
        if isinstance(node.func, ast.Name) and node.func.id in ('max', 'min') and len(node.args) == 2 \
                and not node.keywords:
            a, _ = tr(node.args[0], env, 'Z')
            b, _ = tr(node.args[1], env, 'Z')
            return '(Z.%s %s %s)' % (node.func.id, a, b), 'Z'
        raise TranslationError('call %s' % ast.unparse(node))
    if isinstance(node, ast.IfExp):
        c, _ = tr(node.test, env, 'bool')
        a, at = tr(node.body, env)
        b, bt = tr(node.orelse, env)
        if at != bt:
            raise TranslationError('if-expression branches %s/%s' % (at, bt))
        return '(if %s then %s else %s)' % (c, a, b), at
    raise TranslationError('unsupported expression: %s' % ast.unparse(node))


def tr_typed(node, env, ty):
    text, t = tr(node, env)
    if t != ty:
        raise TranslationError('expected %s, got %s for %s' % (ty, t, ast.unparse(node)))
    return text
