"""_functional/_memoize.py: the decisions of memoize -> Gen/KMemo.v

Regenerated (translated from the ast, so that an edit changes the Coq term):
  k_memkey          the conditional expression choosing the explicit or the argument-derived key
  k_lazy_test       the test guarding lazy evaluation (and its position after the cached return)
  k_lazy_obj        the dispatch chain of _lazy_evaluation_obj as a decision over the answers to its four tests
                    (callable, dict, Sequence, basestring) -> call it / rebuild as dict / rebuild as list / pass on;
                    any further test on a path (e.g. "only when a direct member is callable") is outside the grammar
  k_read_cache      the whole branch structure of _read_cache as a decision over four booleans
                    (clear pending, persistent, file exists, key in memory) -> which store answers and
                    which deletions/flag resets happen on that path
  k_write_cache     the branch structure of _write_cache (persistent, file exists) -> what is written
  k_evict_test      the while-test of the eviction loop
  k_pop_last        the `last=` flag of OrderedDict.popitem in the loop body
Pinned with expect_same (any change = translation failure, handled like a broken proof): the effect
statements on each path (del, os.remove, open/pickle.load, the OrderedDict store), cache_size, clear(),
the initial state in __init__/_init_cache, the order lookup -> cached return -> lazy evaluation -> body -> store,
the list comprehension of _lazy_evaluation_args and the dict comprehension of _lazy_evaluation_kwargs (every member, through
_lazy_evaluation_obj).
Key derivation (_memkey / _serialize_obj / _serialize_args / _serialize_kwargs):
  k_serialize_obj   the dispatch chain of _serialize_obj as a decision over the answers to its six tests
                    (callable, hasattr __name__, dict, Sequence, basestring, DataMatrix) -> which branch
                    produces the serialisation (string constants are carried into the term)
  k_kwsort_key      the `key=` lambda of sorted(...) in _serialize_kwargs
  k_memkey_parts    the elements (and their order) of the list whose repr() is hashed by _memkey
Pinned: the list comprehension of _serialize_args, the dict comprehension of _serialize_kwargs around the
lambda (sorted over kwargs.items(), no reverse=, values through _serialize_obj), `import json_tricks`, the
calls json_tricks.dumps(obj) / cnv.to_json(obj) (their results are modelled by explicit printers in
Model/MemoKey.v), hashlib.md5(repr(...).encode('utf-8')).hexdigest() (md5 is a Section hypothesis of the
theorems, repr a printer of the model), the imports that give Sequence, DataMatrix, cnv, basestring their meaning.
"""
import ast
from py2coq import TranslationError, Env, tr, tr_typed, find_function, body_nodoc, expect_same, dump, parse_stmt
from kernels_common import HEADER, load

FILE = 'KMemo.v'
REL = 'datamatrix/_functional/_memoize.py'

PRELUDE = '''From Coq Require Import ZArith List Bool String.
Import ListNotations.
Open Scope Z_scope.

Inductive src := SDisk | SMem.
(* decision of _read_cache on one path: who answers (None = miss), flag reset, deletions *)
Record rdec := { r_hit : option src; r_reset : bool; r_delmem : bool; r_deldisk : bool }.
(* decision of _write_cache: file written, OrderedDict store, eviction loop entered *)
Record wdec := { w_disk : bool; w_mem : bool; w_evict : bool }.
(* which branch of _serialize_obj produces the serialisation of an object *)
Inductive sbranch := BName | BLit (s : string) | BKwargs | BArgs | BToJson | BDumps.
(* which branch of _lazy_evaluation_obj produces the evaluated argument: obj(), the dict rebuilt member by member, the
   list rebuilt member by member, obj itself *)
Inductive lbranch := LCall | LKwargs | LArgs | LSelf.

'''


def same(node, src):
    try:
        ref = parse_stmt(src)
    except SyntaxError:
        return False
    if isinstance(ref, ast.Expr) and not isinstance(node, ast.Expr):
        ref = ref.value
    return dump(node) == dump(ref)


def is_debug_print(st):
    return isinstance(st, ast.If) and same(st.test, 'self._debug') and not st.orelse and len(st.body) == 1 \
        and isinstance(st.body[0], ast.Expr) and isinstance(st.body[0].value, ast.Call) \
        and isinstance(st.body[0].value.func, ast.Name) and st.body[0].value.func.id == 'print'


# ---------------------------------------------------------------- _read_cache
READ_ENV = Env([
    ('self._ignore_cache_once', 'ignore', 'bool'),
    ('self._persistent', 'persistent', 'bool'),
    ('os.path.exists(cache_path)', 'on_disk', 'bool'),
    ('memkey in self._cache', 'in_mem', 'bool'),
])

UPGRADE_TEST = "obj.__class__.__name__ == u'DataMatrix' and (not hasattr(obj._rowid, '_a'))"


def read_block(stmts, eff):
    """eff: dict reset/delmem/deldisk/loaded.  Returns a Coq term of type rdec."""
    if not stmts:
        raise TranslationError('_read_cache: a path falls off the end without return')
    st, rest = stmts[0], stmts[1:]
    if isinstance(st, ast.Return):
        if same(st, 'return False, None'):
            hit = 'None'
        elif same(st, 'return True, obj'):
            if eff.get('loaded') != 'disk':
                raise TranslationError('_read_cache: `return True, obj` without the pickle.load from the cache file')
            hit = '(Some SDisk)'
        elif same(st, 'return True, pickle.loads(self._cache[memkey])'):
            hit = '(Some SMem)'
        else:
            raise TranslationError('_read_cache: unexpected return `%s`' % ast.unparse(st))
        return '{| r_hit := %s; r_reset := %s; r_delmem := %s; r_deldisk := %s |}' % (
            hit, 'true' if eff.get('reset') else 'false', 'true' if eff.get('delmem') else 'false',
            'true' if eff.get('deldisk') else 'false')
    if isinstance(st, ast.Assign) and len(st.targets) == 1 and ast.unparse(st.targets[0]) == 'self._latest_source' \
            and isinstance(st.value, ast.Constant) and isinstance(st.value.value, str):
        return read_block(rest, eff)                       # debug information only
    if same(st, 'self._ignore_cache_once = False'):
        return read_block(rest, dict(eff, reset=True))
    if same(st, 'if memkey in self._cache:\n    del self._cache[memkey]'):
        return read_block(rest, dict(eff, delmem=True))
    if same(st, 'if os.path.exists(cache_path):\n    os.remove(cache_path)'):
        return read_block(rest, dict(eff, deldisk=True))
    if same(st, 'self._uncompress_cache(cache_path)'):
        return read_block(rest, eff)                       # .tar.xz archives: outside the model (assumption)
    if same(st, "with open(cache_path, u'rb') as fd:\n    obj = pickle.load(fd)"):
        return read_block(rest, dict(eff, loaded='disk'))
    if isinstance(st, ast.If) and ast.unparse(st.test) == ast.unparse(ast.parse(UPGRADE_TEST, mode='eval').body) \
            and not st.orelse:
        return read_block(rest, eff)                       # old-style pickles: outside the model
    if isinstance(st, ast.If):
        test = tr_typed(st.test, READ_ENV, 'bool')
        a = read_block(list(st.body) + rest, dict(eff))
        b = read_block(list(st.orelse) + rest, dict(eff))
        return '(if %s\n   then %s\n   else %s)' % (test, a, b)
    raise TranslationError('_read_cache: statement outside the grammar: `%s`' % ast.unparse(st).split('\n')[0])


# --------------------------------------------------------------- _write_cache
WRITE_ENV = Env([
    ('self._persistent', 'persistent', 'bool'),
    ('os.path.exists(cache_path)', 'on_disk', 'bool'),
])
SIZE_ENV = Env([('self.cache_size', 'cache_size', 'Z'), ('self._max_size', 'max_size', 'Z')])


def write_block(stmts, eff, kern):
    if not stmts:
        raise TranslationError('_write_cache: a path falls off the end without return')
    st, rest = stmts[0], stmts[1:]
    if isinstance(st, ast.Return):
        expect_same(st, 'return (retval, memkey, self._latest_source) if self._debug else retval')
        return '{| w_disk := %s; w_mem := %s; w_evict := %s |}' % tuple(
            'true' if eff.get(k) else 'false' for k in ('disk', 'mem', 'evict'))
    if same(st, 'cache_path = os.path.join(self._folder, memkey)'):
        return write_block(rest, eff, kern)
    if same(st, "with open(cache_path, u'wb') as fd:\n    pickle.dump(retval, fd)"):
        return write_block(rest, dict(eff, disk=True), kern)
    if same(st, 'self._cache[memkey] = pickle.dumps(retval)'):
        return write_block(rest, dict(eff, mem=True), kern)
    if isinstance(st, ast.While):
        if st.orelse or not eff.get('mem'):
            raise TranslationError('_write_cache: eviction loop in an unexpected place')
        kern['test'] = tr_typed(st.test, SIZE_ENV, 'bool')
        body = [s for s in st.body if not is_debug_print(s)]
        if len(body) != 1 or not isinstance(body[0], ast.Expr) or not isinstance(body[0].value, ast.Call):
            raise TranslationError('_write_cache: eviction loop body')
        call = body[0].value
        if not same(call.func, 'self._cache.popitem') or call.args:
            raise TranslationError('_write_cache: eviction loop must call self._cache.popitem')
        last = 'true'                                      # OrderedDict.popitem default: last=True
        for kw in call.keywords:
            if kw.arg != 'last' or not isinstance(kw.value, ast.Constant) or not isinstance(kw.value.value, bool):
                raise TranslationError('_write_cache: popitem keyword')
            last = 'true' if kw.value.value else 'false'
        kern['last'] = last
        return write_block(rest, dict(eff, evict=True), kern)
    if same(st, "if not self._cache:\n    warnings.warn('Return value exceeds max_size')"):
        return write_block(rest, eff, kern)
    if isinstance(st, ast.If):
        test = tr_typed(st.test, WRITE_ENV, 'bool')
        a = write_block(list(st.body) + rest, dict(eff), kern)
        b = write_block(list(st.orelse) + rest, dict(eff), kern)
        return '(if %s\n   then %s\n   else %s)' % (test, a, b)
    raise TranslationError('_write_cache: statement outside the grammar: `%s`' % ast.unparse(st).split('\n')[0])



# ------------------------------------------------------------ lazy evaluation
LAZY_ENV = Env([
    ('callable(obj)', 'is_callable', 'bool'),
    ('isinstance(obj, dict)', 'is_dict', 'bool'),
    ('isinstance(obj, Sequence)', 'is_seq', 'bool'),
    ('isinstance(obj, basestring)', 'is_str', 'bool'),
])
LAZY_RET = Env([
    ('obj()', 'LCall', 'lbranch'),
    ('self._lazy_evaluation_kwargs(obj)', 'LKwargs', 'lbranch'),
    ('self._lazy_evaluation_args(obj)', 'LArgs', 'lbranch'),
    ('obj', 'LSelf', 'lbranch'),
])


def lazy_block(stmts):
    if not stmts:
        raise TranslationError('_lazy_evaluation_obj: a path falls off the end without return')
    st, rest = stmts[0], stmts[1:]
    if isinstance(st, ast.Return):
        hit = LAZY_RET.lookup(st.value) if st.value is not None else None
        if hit is None:
            raise TranslationError('_lazy_evaluation_obj: unexpected return `%s`' % ast.unparse(st))
        return hit[0]
    if isinstance(st, ast.If):
        test = tr_typed(st.test, LAZY_ENV, 'bool')
        a = lazy_block(list(st.body) + rest)
        b = lazy_block(list(st.orelse) + rest)
        return '(if %s\n   then %s\n   else %s)' % (test, a, b)
    raise TranslationError('_lazy_evaluation_obj: statement outside the grammar: `%s`' % ast.unparse(st).split('\n')[0])


def gen_lazy(tree, out):
    fn = find_function(tree, 'memoize._lazy_evaluation_obj')
    if [a.arg for a in fn.args.args] != ['self', 'obj'] or fn.args.vararg or fn.args.kwarg or fn.decorator_list:
        raise TranslationError('_lazy_evaluation_obj: signature')
    out.append('(* _lazy_evaluation_obj: the dispatch chain *)\n'
               'Definition k_lazy_obj (is_callable is_dict is_seq is_str : bool) : lbranch :=\n  %s.\n\n'
               % lazy_block(body_nodoc(fn)))
    fn = find_function(tree, 'memoize._lazy_evaluation_args')
    if [a.arg for a in fn.args.args] != ['self', 'args'] or fn.args.vararg or fn.args.kwarg or fn.decorator_list:
        raise TranslationError('_lazy_evaluation_args: signature')
    b = body_nodoc(fn)
    if len(b) != 1:
        raise TranslationError('_lazy_evaluation_args: unexpected statements')
    expect_same(b[0], 'return [self._lazy_evaluation_obj(arg) for arg in args]')
    fn = find_function(tree, 'memoize._lazy_evaluation_kwargs')
    if [a.arg for a in fn.args.args] != ['self', 'kwargs'] or fn.args.vararg or fn.args.kwarg or fn.decorator_list:
        raise TranslationError('_lazy_evaluation_kwargs: signature')
    b = body_nodoc(fn)
    if len(b) != 1:
        raise TranslationError('_lazy_evaluation_kwargs: unexpected statements')
    expect_same(b[0], 'return {key: self._lazy_evaluation_obj(val) for key, val in kwargs.items()}')


# ------------------------------------------------------------ key derivation
SER_ENV = Env([
    ('isinstance(obj, CallableValue)', 'is_cval', 'bool'),
    ('callable(obj)', 'is_callable', 'bool'),
    ("hasattr(obj, '__name__')", 'has_name', 'bool'),
    ('isinstance(obj, dict)', 'is_dict', 'bool'),
    ('isinstance(obj, Sequence)', 'is_seq', 'bool'),
    ('isinstance(obj, basestring)', 'is_str', 'bool'),
    ('isinstance(obj, DataMatrix)', 'is_dm', 'bool'),
])
SER_RET = Env([
    ('obj.__name__', 'BName', 'sbranch'),
    ('self._serialize_kwargs(obj)', 'BKwargs', 'sbranch'),
    ('self._serialize_args(obj)', 'BArgs', 'sbranch'),
    ('cnv.to_json(obj)', 'BToJson', 'sbranch'),
    ('json_tricks.dumps(obj)', 'BDumps', 'sbranch'),
])


def coq_string(s):
    if not all(0x20 <= ord(c) <= 0x7e for c in s):
        raise TranslationError('string constant outside printable ASCII: %r' % (s,))
    return '"' + s.replace('"', '""') + '"%string'


def ser_ret(node):
    if isinstance(node, ast.Constant) and isinstance(node.value, str):
        return '(BLit %s)' % coq_string(node.value)
    if isinstance(node, ast.IfExp):
        return '(if %s then %s else %s)' % (tr_typed(node.test, SER_ENV, 'bool'), ser_ret(node.body), ser_ret(node.orelse))
    hit = SER_RET.lookup(node)
    if hit is None:
        raise TranslationError('_serialize_obj: unexpected return value `%s`' % ast.unparse(node))
    return hit[0]


def ser_block(stmts):
    if not stmts:
        raise TranslationError('_serialize_obj: a path falls off the end without return')
    st, rest = stmts[0], stmts[1:]
    if isinstance(st, ast.Import):
        expect_same(st, 'import json_tricks')
        return ser_block(rest)
    if isinstance(st, ast.Return):
        if st.value is None:
            raise TranslationError('_serialize_obj: bare return')
        return ser_ret(st.value)
    if isinstance(st, ast.If):
        test = tr_typed(st.test, SER_ENV, 'bool')
        a = ser_block(list(st.body) + rest)
        b = ser_block(list(st.orelse) + rest)
        return '(if %s\n   then %s\n   else %s)' % (test, a, b)
    raise TranslationError('_serialize_obj: statement outside the grammar: `%s`' % ast.unparse(st).split('\n')[0])


def lam_expr(node, var):
    """body of the sort-key lambda: repr(e) | kv[0] | kv[1]"""
    if isinstance(node, ast.Call) and isinstance(node.func, ast.Name) and node.func.id == 'repr' \
            and len(node.args) == 1 and not node.keywords:
        return '(repr %s)' % lam_expr(node.args[0], var)
    if isinstance(node, ast.Subscript) and isinstance(node.value, ast.Name) and node.value.id == var \
            and isinstance(node.slice, ast.Constant) and node.slice.value in (0, 1) \
            and not isinstance(node.slice.value, bool):
        return '(%s kv)' % ('fst' if node.slice.value == 0 else 'snd')
    raise TranslationError('_serialize_kwargs: sort key outside the grammar: `%s`' % ast.unparse(node))


def gen_key(tree, out):
    # what the names used by the dispatch chain mean
    mod_src = [ast.unparse(s) for s in tree.body]
    for need in ('from datamatrix.py3compat import *', 'from datamatrix import DataMatrix, convert as cnv',
                 'from datamatrix._datamatrix._callable_values import CallableValue',
                 'try:\n    from collections.abc import Sequence\nexcept ImportError:\n    from collections import Sequence',
                 'import hashlib'):
        if need not in mod_src:
            raise TranslationError('_memoize.py: missing module-level `%s`' % need.split('\n')[0])
    for s in tree.body:
        for t in (s.targets if isinstance(s, ast.Assign) else []):
            if isinstance(t, ast.Name) and t.id in ('Sequence', 'DataMatrix', 'cnv', 'basestring', 'hashlib', 'repr', 'CallableValue',
                                                      'callable', 'isinstance', 'hasattr', 'sorted'):
                raise TranslationError('_memoize.py: module-level rebinding of %s' % t.id)

    fn = find_function(tree, 'memoize._serialize_obj')
    if [a.arg for a in fn.args.args] != ['self', 'obj'] or fn.args.vararg or fn.args.kwarg or fn.decorator_list:
        raise TranslationError('_serialize_obj: signature')
    out.append('(* _serialize_obj: the dispatch chain *)\n'
               'Definition k_serialize_obj (is_cval is_callable has_name is_dict is_seq is_str is_dm : bool) : sbranch :=\n  %s.\n\n'
               % ser_block(body_nodoc(fn)))

    fn = find_function(tree, 'memoize._serialize_args')
    if [a.arg for a in fn.args.args] != ['self', 'args'] or fn.args.vararg or fn.args.kwarg or fn.decorator_list:
        raise TranslationError('_serialize_args: signature')
    b = body_nodoc(fn)
    if len(b) != 1:
        raise TranslationError('_serialize_args: unexpected statements')
    expect_same(b[0], 'return [self._serialize_obj(arg) for arg in args]')

    fn = find_function(tree, 'memoize._serialize_kwargs')
    if [a.arg for a in fn.args.args] != ['self', 'kwargs'] or fn.args.vararg or fn.args.kwarg or fn.decorator_list:
        raise TranslationError('_serialize_kwargs: signature')
    b = body_nodoc(fn)
    if len(b) != 1 or not isinstance(b[0], ast.Return) or not isinstance(b[0].value, ast.DictComp):
        raise TranslationError('_serialize_kwargs: expected one dict comprehension')
    dc = b[0].value
    if len(dc.generators) != 1:
        raise TranslationError('_serialize_kwargs: generators')
    g = dc.generators[0]
    if g.ifs or g.is_async or ast.unparse(g.target) not in ('key, val', '(key, val)') or not same(dc.key, 'key') \
            or not same(dc.value, 'self._serialize_obj(val)'):
        raise TranslationError('_serialize_kwargs: comprehension is not {key: self._serialize_obj(val) for key, val in ...}')
    it = g.iter
    if not (isinstance(it, ast.Call) and same(it.func, 'sorted') and len(it.args) == 1 and same(it.args[0], 'kwargs.items()')
            and len(it.keywords) == 1 and it.keywords[0].arg == 'key' and isinstance(it.keywords[0].value, ast.Lambda)):
        raise TranslationError('_serialize_kwargs: expected sorted(kwargs.items(), key=lambda ...)')
    lam = it.keywords[0].value
    la = lam.args
    if len(la.args) != 1 or la.vararg or la.kwarg or la.kwonlyargs or la.defaults or la.posonlyargs:
        raise TranslationError('_serialize_kwargs: lambda signature')
    out.append('(* key=lambda ... of sorted(kwargs.items(), ...) in _serialize_kwargs *)\n'
               'Definition k_kwsort_key {Kt Vt T : Type} (repr : Kt -> T) (kv : Kt * Vt) : T :=\n  %s.\n\n'
               % lam_expr(lam.body, la.args[0].arg))

    fn = find_function(tree, 'memoize._memkey')
    if [a.arg for a in fn.args.args] != ['self'] or fn.args.vararg is None or fn.args.vararg.arg != 'args' \
            or fn.args.kwarg is None or fn.args.kwarg.arg != 'kwargs' or fn.decorator_list:
        raise TranslationError('_memkey: signature')
    b = body_nodoc(fn)
    if len(b) != 1 or not isinstance(b[0], ast.Return):
        raise TranslationError('_memkey: unexpected statements')
    v = b[0].value
    # hashlib.md5(repr(<list>).encode(u'utf-8')).hexdigest()
    try:
        lst = v.func.value.args[0].func.value.args[0]
    except (AttributeError, IndexError):
        raise TranslationError('_memkey: expected hashlib.md5(repr([...]).encode(...)).hexdigest()')
    if not isinstance(lst, ast.List):
        raise TranslationError('_memkey: the hashed text is not the repr of a list display')
    skeleton = ast.parse("hashlib.md5(repr(PARTS).encode(u'utf-8')).hexdigest()", mode='eval').body
    probe = ast.parse(ast.unparse(v), mode='eval').body
    probe.func.value.args[0].func.value.args[0] = ast.Name('PARTS', ast.Load())
    if dump(probe) != dump(skeleton):
        raise TranslationError("_memkey: expected hashlib.md5(repr([...]).encode(u'utf-8')).hexdigest(), found `%s`"
                               % ast.unparse(v))
    penv = Env([('self._fnc.__name__', 'name', 'part'), ('self._serialize_args(args)', 'sargs', 'part'),
                ('self._serialize_kwargs(kwargs)', 'skwargs', 'part')])
    parts = []
    for e in lst.elts:
        hit = penv.lookup(e)
        if hit is None:
            raise TranslationError('_memkey: unexpected element `%s` in the hashed list' % ast.unparse(e))
        parts.append(hit[0])
    out.append('(* the list whose repr() is hashed by _memkey *)\n'
               'Definition k_memkey_parts {T : Type} (name sargs skwargs : T) : list T :=\n  [%s].\n' % '; '.join(parts))


def gen(repo):
    tree = load(repo, REL)
    out = [HEADER % REL, PRELUDE]

    # ---- state: __init__, _init_cache, clear, cache_size ----
    init = find_function(tree, 'memoize.__init__')
    src_init = [ast.unparse(s) for s in body_nodoc(init)]
    for need in ('self._key = key', 'self._persistent = persistent', 'self._lazy = lazy', 'self._max_size = max_size',
                 'self._ignore_cache_once = False', 'self._folder = self.folder if folder is None else folder',
                 'self._init_cache()', 'self._fnc = fnc'):
        if need not in src_init:
            raise TranslationError('memoize.__init__: missing `%s`' % need)
    ic = body_nodoc(find_function(tree, 'memoize._init_cache'))
    if not ic:
        raise TranslationError('_init_cache: empty')
    expect_same(ic[0], 'self._cache = OrderedDict()')
    if len(ic) > 2:
        raise TranslationError('_init_cache: unexpected statements')
    if len(ic) == 2:
        expect_same(ic[1], 'if self._persistent and (not os.path.exists(self._folder)):\n    os.mkdir(self._folder)')
    cl = body_nodoc(find_function(tree, 'memoize.clear'))
    if len(cl) != 1:
        raise TranslationError('clear: unexpected statements')
    expect_same(cl[0], 'self._ignore_cache_once = True')
    cs = body_nodoc(find_function(tree, 'memoize.cache_size'))
    if len(cs) != 1:
        raise TranslationError('cache_size: unexpected statements')
    expect_same(cs[0], 'return sum((sys.getsizeof(obj) for obj in self._cache.values()))')
    dispatch = body_nodoc(find_function(tree, 'memoize.__call__'))
    if len(dispatch) != 1:
        raise TranslationError('__call__: unexpected statements')
    expect_same(dispatch[0], 'return self._call_with_arguments if self._fnc is None else self._call_without_arguments')

    # ---- _call_without_arguments ----
    fn = find_function(tree, 'memoize._call_without_arguments')
    if [a.arg for a in fn.args.args] != ['self'] or fn.args.vararg is None or fn.args.vararg.arg != 'args' \
            or fn.args.kwarg is None or fn.args.kwarg.arg != 'kwargs':
        raise TranslationError('_call_without_arguments: signature')
    body = [s for s in body_nodoc(fn) if not is_debug_print(s)]
    if len(body) != 5:
        raise TranslationError('_call_without_arguments: expected 5 statements, found %d' % len(body))
    s0, s1, s2, s3, s4 = body
    if not (isinstance(s0, ast.Assign) and len(s0.targets) == 1 and isinstance(s0.targets[0], ast.Name) and s0.targets[0].id == 'memkey'):
        raise TranslationError('_call_without_arguments: memkey assignment')
    kenv = Env([('self._key is None', 'key_is_none', 'bool'),
                ('self._memkey(*args, **kwargs)', 'derived', 'key'),
                ('self._key', 'explicit', 'key')])
    memkey, ty = tr(s0.value, kenv)
    if ty != 'key':
        raise TranslationError('_call_without_arguments: memkey is not a key')
    out.append('(* memkey = ... in _call_without_arguments *)\n'
               'Definition k_memkey {K : Type} (key_is_none : bool) (derived explicit : K) : K :=\n  %s.\n\n' % memkey)
    expect_same(s1, 'is_cached, retval = self._read_cache(memkey)')
    if not (isinstance(s2, ast.If) and same(s2.test, 'is_cached') and not s2.orelse):
        raise TranslationError('_call_without_arguments: cached return')
    s2b = [s for s in s2.body if not is_debug_print(s)]
    if len(s2b) != 1:
        raise TranslationError('_call_without_arguments: cached return body')
    expect_same(s2b[0], 'return (retval, memkey, self._latest_source) if self._debug else retval')
    if not (isinstance(s3, ast.If) and not s3.orelse and len(s3.body) == 2):
        raise TranslationError('_call_without_arguments: lazy evaluation block')
    lazy = tr_typed(s3.test, Env([('self._lazy', 'lazy', 'bool')]), 'bool')
    expect_same(s3.body[0], 'args = self._lazy_evaluation_args(args)')
    expect_same(s3.body[1], 'kwargs = self._lazy_evaluation_kwargs(kwargs)')
    expect_same(s4, 'return self._write_cache(memkey, self._fnc(*args, **kwargs))')
    out.append('(* evaluate callable arguments? (tested after the cached return, before the body runs) *)\n'
               'Definition k_lazy_test (lazy : bool) : bool := %s.\n\n' % lazy)
    gen_lazy(tree, out)

    # ---- _read_cache ----
    fn = find_function(tree, 'memoize._read_cache')
    if [a.arg for a in fn.args.args] != ['self', 'memkey']:
        raise TranslationError('_read_cache: signature')
    body = body_nodoc(fn)
    expect_same(body[0], 'cache_path = os.path.join(self._folder, memkey)')
    rd = read_block(body[1:], {})
    out.append('(* _read_cache *)\nDefinition k_read_cache (ignore persistent on_disk in_mem : bool) : rdec :=\n  %s.\n\n' % rd)

    # ---- _write_cache ----
    fn = find_function(tree, 'memoize._write_cache')
    if [a.arg for a in fn.args.args] != ['self', 'memkey', 'retval']:
        raise TranslationError('_write_cache: signature')
    kern = {}
    wr = write_block(body_nodoc(fn), {}, kern)
    if 'test' not in kern:
        raise TranslationError('_write_cache: no eviction loop found')
    out.append('(* _write_cache *)\nDefinition k_write_cache (persistent on_disk : bool) : wdec :=\n  %s.\n\n' % wr)
    out.append('(* while <test>: in the eviction loop *)\n'
               'Definition k_evict_test (cache_size max_size : Z) : bool := %s.\n\n' % kern['test'])
    out.append('(* self._cache.popitem(last=...) *)\nDefinition k_pop_last : bool := %s.\n\n' % kern['last'])
    gen_key(tree, out)
    return ''.join(out)
