"""_basecolumn.py / _numericcolumn.py / _datamatrix.py: the write-path skeletons of C05 -> Gen/KC05Paths.v

Translated (regenerated on every run):
  * the guard of the unchecked fast path of BaseColumn._setslicekey      -> k_setslice_fast
  * the scalar-broadcast test of BaseColumn._tosequence                    -> k_base_toseq_scalar
  * the dispatch chain of NumericColumn._tosequence (four exits)          -> k_numeric_toseq_branch
  * the by-reference (alias) test of DataMatrix._set_col for a column value -> k_setcol_by_reference
Pinned (compared by AST with the expected source; generation is refused if they changed):
  * the statements around those tests, IntColumn._tosequence, IntColumn._setslicekey, BaseColumn._setintkey,
    BaseColumn._setsequencekey, both _setdatamatrixkey, the exits of the column branch of DataMatrix._set_col;
  * every assignment to `_typechecking` in datamatrix/_datamatrix/*.py (True in BaseColumn.__init__, False twice in
    DataMatrix.__lshift__, True in the loop that ends __lshift__), and __lshift__ has no exit before that loop.
"""
import ast
import os
from py2coq import TranslationError, find_function, body_nodoc, expect_same
from pystmt import Ctx, block, expr
from kernels_common import HEADER, load

FILE = 'KC05Paths.v'

ISIN = {
    'basestring': 'is_basestring', 'BASESTRING_OR_NUMBER': 'is_basestring_or_Number', 'NUMBER': 'is_Number',
    '(int, float)': 'is_int_or_float', 'int': 'is_int', 'float': 'is_float',
}

BRANCH = {'checktype': 0, 'direct': 1, 'array': 2, 'super': 3}


def params(fn, expected):
    names = [a.arg for a in fn.args.args]
    if names != expected or fn.args.vararg or fn.args.kwarg or fn.args.kwonlyargs:
        raise TranslationError('%s: signature %s, expected %s' % (fn.name, names, expected))


def pin_body(stmts, sources, what):
    if len(stmts) != len(sources):
        raise TranslationError('%s: %d statements, expected %d' % (what, len(stmts), len(sources)))
    for st, src in zip(stmts, sources):
        expect_same(st, src, what)


def pin_function(tree, qualname, args, source):
    fn = find_function(tree, qualname)
    params(fn, args)
    ref = ast.parse(source).body
    body = body_nodoc(fn)
    if len(body) != len(ref) or any(ast.dump(a) != ast.dump(b) for a, b in zip(body, ref)):
        raise TranslationError('pinned function %s changed' % qualname)


def ret(n):
    return ast.Return(value=ast.Constant(value=n))


def typechecking_assignments(repo):
    """every statement that assigns the attribute `_typechecking`, as (file, enclosing function, source text)"""
    found = []
    d = os.path.join(repo, 'datamatrix', '_datamatrix')
    for fn in sorted(os.listdir(d)):
        if not fn.endswith('.py'):
            continue
        tree = load(repo, os.path.join('datamatrix', '_datamatrix', fn))

        def visit(node, owner):
            for ch in ast.iter_child_nodes(node):
                o = owner
                if isinstance(ch, (ast.FunctionDef, ast.AsyncFunctionDef, ast.Lambda)):
                    o = getattr(ch, 'name', '<lambda>')
                targets = []
                if isinstance(ch, ast.Assign):
                    targets = ch.targets
                elif isinstance(ch, (ast.AugAssign, ast.AnnAssign)):
                    targets = [ch.target]
                elif isinstance(ch, ast.Delete):
                    targets = ch.targets
                for t in targets:
                    for sub in ast.walk(t):
                        if isinstance(sub, ast.Attribute) and sub.attr == '_typechecking':
                            found.append((fn, o, ast.unparse(ch)))
                if isinstance(ch, ast.Call):
                    f = ch.func
                    name = f.id if isinstance(f, ast.Name) else (f.attr if isinstance(f, ast.Attribute) else '')
                    if name in ('setattr', '__setattr__', 'delattr') and any(
                            isinstance(a, ast.Constant) and a.value == '_typechecking' for a in ch.args):
                        found.append((fn, o, ast.unparse(ch)))
                visit(ch, o)
        visit(tree, '<module>')
    return found


def gen(repo):
    out = [HEADER % 'datamatrix/_datamatrix/_basecolumn.py, _numericcolumn.py, _datamatrix.py (write-path skeletons)',
           'From Coq Require Import ZArith List Bool String.\nFrom DM Require Import Base.PyVal.\n'
           'Import ListNotations.\nOpen Scope Z_scope.\n\n']
    base = load(repo, 'datamatrix/_datamatrix/_basecolumn.py')
    num = load(repo, 'datamatrix/_datamatrix/_numericcolumn.py')
    dmt = load(repo, 'datamatrix/_datamatrix/_datamatrix.py')
    src = ast.unparse(base)
    if 'BASESTRING_OR_NUMBER = (NUMBER, basestring)' not in src or 'NUMBER = numbers.Number' not in src:
        raise TranslationError('_basecolumn: NUMBER / BASESTRING_OR_NUMBER definitions changed')

    # ---- BaseColumn._setslicekey: guard translated, the rest pinned
    fn = find_function(base, 'BaseColumn._setslicekey')
    params(fn, ['self', 'key', 'value'])
    body = body_nodoc(fn)
    if len(body) != 3 or not isinstance(body[0], ast.If) or body[0].orelse:
        raise TranslationError('BaseColumn._setslicekey: shape')
    pin_body(body[0].body, ['self._seq[key] = value._seq', 'return'], 'BaseColumn._setslicekey fast path')
    pin_body(body[1:], ['length = len(self._seq[key])', 'self._seq[key] = self._tosequence(value, length)'],
             'BaseColumn._setslicekey checked path')
    cx = Ctx({}, {'self._typechecking': ('typechecking', 'bool'),
                  'type(value) == type(self)': ('same_type', 'bool')}, {})
    t, k = expr(body[0].test, cx)
    if k != 'bool':
        raise TranslationError('BaseColumn._setslicekey: guard of kind %s' % k)
    out.append('(* BaseColumn._setslicekey: true = the raw storage of the value is copied without _checktype *)\n'
               'Definition k_setslice_fast (typechecking same_type : bool) : bool :=\n  %s.\n\n' % t)

    # ---- BaseColumn._tosequence: scalar test translated, the rest pinned
    fn = find_function(base, 'BaseColumn._tosequence')
    params(fn, ['self', 'value', 'length'])
    body = body_nodoc(fn)
    if len(body) != 6 or not isinstance(body[1], ast.If) or body[1].orelse:
        raise TranslationError('BaseColumn._tosequence: shape')
    expect_same(body[0], 'if length is None:\n    length = len(self._datamatrix)', 'BaseColumn._tosequence')
    pin_body(body[1].body, ['return [self._checktype(value)] * length'], 'BaseColumn._tosequence scalar branch')
    pin_body(body[2:], [
        "try:\n    iter(value)\nexcept TypeError:\n    raise TypeError('Cannot convert to sequence: %s' % value)",
        'seq = [self._checktype(cell) for cell in itertools.islice(value, 0, length + 1)]',
        "if len(seq) != length:\n    raise ValueError('Sequence length does not match DataMatrix')",
        'return seq'], 'BaseColumn._tosequence element-wise branch')
    cx = Ctx(ISIN, {}, {})
    cx.locals = {'value'}
    t, k = expr(body[1].test, cx)
    if k != 'bool':
        raise TranslationError('BaseColumn._tosequence: test of kind %s' % k)
    out.append('(* BaseColumn._tosequence: true = [self._checktype(value)] * length, false = _checktype per element *)\n'
               'Definition k_base_toseq_scalar (value : pyv) : bool :=\n  %s.\n\n' % t)

    # ---- NumericColumn._tosequence: the dispatch chain; exits pinned and replaced by tags
    fn = find_function(num, 'NumericColumn._tosequence')
    params(fn, ['self', 'value', 'length'])
    body = body_nodoc(fn)
    if len(body) != 5 or any(not isinstance(s, ast.If) or s.orelse for s in body[1:4]):
        raise TranslationError('NumericColumn._tosequence: shape')
    expect_same(body[0], 'if length is None:\n    length = len(self._datamatrix)', 'NumericColumn._tosequence')
    pin_body(body[1].body, ['a = np.empty(length, dtype=self.dtype)', 'a[:] = self._checktype(value)', 'return a'],
             'NumericColumn._tosequence checktype exit')
    pin_body(body[2].body, ['a = np.empty(length, dtype=self.dtype)', 'a[:] = value', 'return a'],
             'NumericColumn._tosequence direct exit')
    pin_body(body[3].body, ['return value.array'], 'NumericColumn._tosequence array exit')
    expect_same(body[4], 'return super(NumericColumn, self)._tosequence(value, length)',
                'NumericColumn._tosequence super exit')
    synthetic = [
        ast.If(test=body[1].test, body=[ret(BRANCH['checktype'])], orelse=[]),
        ast.If(test=body[2].test, body=[ret(BRANCH['direct'])], orelse=[]),
        ast.If(test=body[3].test, body=[ret(BRANCH['array'])], orelse=[]),
        ret(BRANCH['super'])]
    cx = Ctx(ISIN, {'isinstance(value, NumericColumn)': ('is_numcol', 'bool'),
                    'len(value) == length': ('same_len', 'bool')}, {})
    cx.locals = {'value'}
    out.append('(* NumericColumn._tosequence: which exit is taken. 0: a[:] = self._checktype(value); 1: a[:] = value;\n'
               '   2: value.array; 3: BaseColumn._tosequence.  `value` is the classified scalar (POther for a column object),\n'
               '   is_numcol / same_len describe a column object *)\n'
               'Definition k_numeric_toseq_branch (is_numcol same_len : bool) (value : pyv) : res pyv :=\n  %s.\n\n'
               % block(synthetic, cx))

    # ---- pinned skeletons
    pin_function(num, 'IntColumn._tosequence', ['self', 'value', 'length'], '''
if length is None:
    length = len(self._datamatrix)
if not isinstance(value, basestring):
    try:
        value = list(value)
    except:
        pass
    else:
        return super(NumericColumn, self)._tosequence(value, length)
value = self._checktype(value)
return super(NumericColumn, self)._tosequence(value, length)
''')
    pin_function(num, 'IntColumn._setslicekey', ['self', 'key', 'value'], '''
try:
    super(NumericColumn, self)._setslicekey(key, value)
except OverflowError:
    self.dtype = np.int64
    seq = self._seq
    self._init_seq()
    self._seq[:] = seq
    warnings.warn(u'Changing dtype to int64')
    super(NumericColumn, self)._setslicekey(key, value)
''')
    pin_function(base, 'BaseColumn._setintkey', ['self', 'key', 'value'],
                 'self._seq[key] = self._checktype(value)')
    pin_function(base, 'BaseColumn._setsequencekey', ['self', 'key', 'val'], '''
for _key, _val in zip(key, self._tosequence(val, len(key))):
    if _key < 0 or _key >= len(self):
        raise Exception('Outside of range')
    self._seq[_key] = _val
''')
    pin_function(base, 'BaseColumn._setdatamatrixkey', ['self', 'key', 'val'], '''
if key != self._datamatrix:
    raise ValueError('Cannot slice column with a different DataMatrix')
self[[self._rowid.index(_rowid) for _rowid in key._rowid]] = val
''')
    pin_function(num, 'NumericColumn._setdatamatrixkey', ['self', 'key', 'val'], '''
if key != self._datamatrix:
    raise ValueError('Cannot slice column with a different DataMatrix')
orig_indices = self._rowid_argsort()
sorted_rowid = self._rowid[orig_indices]
matching_indices = np.searchsorted(sorted_rowid, key._rowid)
for i, _rowid in zip(matching_indices, key._rowid):
    if i >= len(sorted_rowid) or sorted_rowid[i] != _rowid:
        raise KeyError(_rowid)
self[orig_indices[matching_indices]] = val
''')
    # NumericColumn / FloatColumn do not override the cell / slice / index-list setters
    for cls, allowed in (('NumericColumn', {'_setdatamatrixkey'}), ('FloatColumn', set()),
                         ('IntColumn', {'_setslicekey'}), ('MixedColumn', set())):
        tree = num if cls != 'MixedColumn' else load(repo, 'datamatrix/_datamatrix/_mixedcolumn.py')
        c = find_function(tree, cls)
        for ch in c.body:
            if isinstance(ch, ast.FunctionDef) and ch.name in (
                    '_setintkey', '_setslicekey', '_setsequencekey', '_setdatamatrixkey', '__setitem__') \
                    and ch.name not in allowed:
                raise TranslationError('%s overrides %s' % (cls, ch.name))

    # DataMatrix._set_col: a column object as value
    fn = find_function(dmt, 'DataMatrix._set_col')
    params(fn, ['self', 'name', 'value'])
    body = body_nodoc(fn)
    cols = [s for s in body if isinstance(s, ast.If) and ast.unparse(s.test) == 'isinstance(value, BaseColumn)']
    if len(cols) != 1:
        raise TranslationError('DataMatrix._set_col: column branch')
    cb = cols[0].body
    if len(cb) != 3 or not isinstance(cb[0], ast.If) or cb[0].orelse:
        raise TranslationError('DataMatrix._set_col: shape of the column branch')
    # the by-reference (deliberate alias) test is translated; what the two exits do is pinned
    pin_body(cb[0].body, ['self._cols[name] = value', 'return'], 'DataMatrix._set_col by-reference exit')
    pin_body(cb[1:], [
        "if len(value) != len(self):\n    raise ValueError(u'Column should have the same length as the DataMatrix')",
        'self._cols[name] = value._empty_col(datamatrix=self)'], 'DataMatrix._set_col copying exit')
    cx = Ctx({}, {'value._datamatrix is self': ('same_owner', 'bool'),
                  'any((value is col for col in self._cols.values()))': ('is_own_column', 'bool'),
                  'len(value) == len(self)': ('same_len', 'bool'),
                  'all((i == j for i, j in zip(value._rowid, self._rowid)))': ('same_ids', 'bool')}, {})
    t, k = expr(cb[0].test, cx)
    if k != 'bool':
        raise TranslationError('DataMatrix._set_col: by-reference test of kind %s' % k)
    out.append('(* DataMatrix._set_col, value a column object: true = inserted by reference under the new name (alias),\n'
               '   false = a fresh column of the value\'s type is created and filled by [:] = value (type-checked) *)\n'
               'Definition k_setcol_by_reference (same_owner is_own_column same_len same_ids : bool) : bool :=\n  %s.\n\n' % t)
    i = body.index(cols[0])
    pin_body(body[i + 1:], [
        "if not isinstance(name, str):\n    raise TypeError(u'Column names should be str, not %s' % type(name))",
        'if name not in self:\n    self._cols[name] = self._default_col_type(self)',
        'self._cols[name][:] = value', 'self._mutate()'], 'DataMatrix._set_col tail')

    # ---- _typechecking is switched off only inside __lshift__, which always switches it on again
    got = typechecking_assignments(repo)
    want = [('_basecolumn.py', '__init__', 'self._typechecking = True'),
            ('_datamatrix.py', '__lshift__', 'dm[name]._typechecking = False'),
            ('_datamatrix.py', '__lshift__', 'dm[name]._typechecking = False'),
            ('_datamatrix.py', '__lshift__', 'col._typechecking = True')]
    if sorted(got) != sorted(want):
        raise TranslationError('assignments to _typechecking changed: %s' % (sorted(got),))
    fn = find_function(dmt, 'DataMatrix.__lshift__')
    body = body_nodoc(fn)
    if len(body) < 2:
        raise TranslationError('DataMatrix.__lshift__: shape')
    expect_same(body[-1], 'return dm', 'DataMatrix.__lshift__ exit')
    expect_same(body[-2], 'for colname, col in dm.columns:\n    col._typechecking = True',
                'DataMatrix.__lshift__ re-enables type checking')
    for st in body[:-1]:
        for sub in ast.walk(st):
            if isinstance(sub, (ast.Return, ast.Yield, ast.YieldFrom)):
                raise TranslationError('DataMatrix.__lshift__: exit before type checking is re-enabled: `%s`'
                                       % ast.unparse(sub))
    out.append('(* pinned: _typechecking is False only between the two loops of DataMatrix.__lshift__ and its last loop;\n'
               '   every column of every table a caller can hold has _typechecking = True *)\n'
               'Definition k_typechecking_after_public_op : bool := true.\n')

    # ---- read paths: a cell is handed out only by _getintkey (plain list element for a MixedColumn, wrapped in the
    #      Python type `dtype` for a NumericColumn); Row access and Row iteration go through column[index]
    row = load(repo, 'datamatrix/_datamatrix/_row.py')
    pin_function(base, 'BaseColumn._getintkey', ['self', 'key'], 'return self._seq[key]')
    pin_function(num, 'NumericColumn._getintkey', ['self', 'key'], 'return self.dtype(self._seq[key])')
    pin_function(row, 'Row.__getitem__', ['self', 'key'], '''
if isinstance(key, int):
    key = self._datamatrix.column_names[key]
return self._datamatrix[key][self._index]
''')
    pin_function(row, 'Row.__getattr__', ['self', 'key'], 'return self.__getitem__(key)')
    pin_function(row, 'Row.__iter__', ['self'], '''
for col in self._datamatrix.column_names:
    yield (col, self[col])
''')
    pin_function(dmt, 'DataMatrix.__iter__', ['self'], '''
for i in self.rows:
    yield self[i]
''')
    mixed = load(repo, 'datamatrix/_datamatrix/_mixedcolumn.py')
    dtypes = {'NumericColumn': 'dtype = float', 'IntColumn': 'dtype = int'}
    for cls, tree, allowed in (('BaseColumn', base, {'_getintkey', '__getitem__'}),
                               ('NumericColumn', num, {'_getintkey'}), ('FloatColumn', num, set()),
                               ('IntColumn', num, set()), ('MixedColumn', mixed, set())):
        c = find_function(tree, cls)
        found = [ast.unparse(ch) for ch in c.body if isinstance(ch, (ast.Assign, ast.AnnAssign, ast.AugAssign))
                 and any(isinstance(t, ast.Name) and t.id == 'dtype' for t in ast.walk(ch))]
        if found != ([dtypes[cls]] if cls in dtypes else []):
            raise TranslationError('%s: class attribute dtype: %s' % (cls, found))
        for ch in c.body:
            if isinstance(ch, ast.FunctionDef) and ch.name in (
                    '_getintkey', '__getitem__', '__iter__', '__next__', '__getattribute__') and ch.name not in allowed:
                raise TranslationError('%s defines %s' % (cls, ch.name))
    c = find_function(row, 'Row')
    for ch in c.body:
        if isinstance(ch, ast.FunctionDef) and ch.name in ('__getattribute__', '__next__', 'keys'):
            raise TranslationError('Row defines %s' % ch.name)
    out.append('\n(* pinned: a cell is handed out by BaseColumn._getintkey (the list element) or NumericColumn._getintkey\n'
               '   (self.dtype(element), dtype = float / int); Row[name], Row.name and iteration over a Row go through\n'
               '   column[index]; no column class defines __iter__ *)\n'
               'Definition k_read_paths_through_getintkey : bool := true.\n')

    # ---- CSV reading: the reader is configured by delimiter and quotechar only (no skipinitialspace, no strict / escapechar /
    #      quoting options), and the cells go to _fromdict unchanged
    txt = load(repo, 'datamatrix/io/_text.py')
    fn = find_function(txt, 'readtxt')
    calls = [c for c in ast.walk(fn) if isinstance(c, ast.Call) and ast.unparse(c.func) == 'csv.reader']
    if len(calls) != 1:
        raise TranslationError('readtxt: %d calls of csv.reader' % len(calls))
    expect_same(calls[0], 'csv.reader(csvfile, delimiter=delimiter, quotechar=quotechar)', 'readtxt reader')
    body = body_nodoc(fn)
    if len(body) != 4 or not isinstance(body[1], ast.With):
        raise TranslationError('readtxt: shape')
    expect_same(body[0], 'd = collections.OrderedDict()', 'readtxt')
    expect_same(body[1].body[-1], '''
for row in reader:
    all_columns = list(d.keys())
    for column, val in zip(d.keys(), row):
        all_columns.remove(column)
        d[column].append(val)
    for column in all_columns:
        warn(u'Some rows miss column %s' % column)
        d[column].append(u'')
''', 'readtxt row loop')
    pin_body(body[2:], ['dm = DataMatrix(default_col_type=default_col_type)._fromdict(d)', 'return dm'], 'readtxt tail')
    out.append('\n(* pinned: io.readtxt hands every cell of csv.reader(csvfile, delimiter=, quotechar=) unchanged to _fromdict *)\n'
               'Definition k_readtxt_cells_verbatim : bool := true.\n')
    return ''.join(out)
