"""Regenerate coq/theories/Gen/K*.v from /repo's current working tree.

Usage: kernels.py <repo> <outdir>  -> prints one line per kernel file:
    OK <file>     |    FAIL <file> <reason>
A failed kernel file is replaced by a stub that does not compile, so that no
theorem can be re-checked against stale definitions.
"""
import ast
import os
import sys

sys.path.insert(0, os.path.dirname(os.path.abspath(__file__)))
from py2coq import TranslationError  # noqa: E402
import importlib  # noqa: E402


def kernel_modules():
    here = os.path.dirname(os.path.abspath(__file__))
    mods = []
    for fn in sorted(os.listdir(here)):
        if fn.startswith('gen_') and fn.endswith('.py'):
            mods.append(importlib.import_module(fn[:-3]))
    return mods


def generate_all(repo, outdir):
    os.makedirs(outdir, exist_ok=True)
    results = {}
    for mod in kernel_modules():
        fname, gen = mod.FILE, mod.gen
        path = os.path.join(outdir, fname)
        try:
            text = gen(repo)
            status = ('OK', '')
        except (TranslationError, SyntaxError, OSError, IndexError, AttributeError, KeyError, TypeError, ValueError) as e:
            text = '(* TRANSLATION FAILED: %s *)\nTranslation_failed.\n' % str(e).replace('*)', '* )')
            status = ('FAIL', str(e))
        old = None
        if os.path.exists(path):
            with open(path, encoding='utf-8') as f:
                old = f.read()
        if old != text:
            with open(path, 'w', encoding='utf-8') as f:
                f.write(text)
        results[fname] = status
    return results


if __name__ == '__main__':
    res = generate_all(sys.argv[1], sys.argv[2])
    bad = 0
    for k, (st, why) in res.items():
        print(st, k, why)
        bad += st != 'OK'
    sys.exit(1 if bad else 0)
