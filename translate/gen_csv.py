"""io/_text.py (readtxt, writetxt) and py3compat.py (safe_decode / safe_str) -> Gen/KCsv.v

Translated (the Coq term follows the source): safe_decode's decision chain, the
is_2d guard of writetxt and DataMatrix.is_2d itself (the loop over the columns
that tests hasattr(col, 'depth')), the BOM constant and the BOM-stripping rule of the
header, the dialect arguments of csv.reader / csv.writer (delimiter, quotechar,
lineterminator), the fill value of missing cells.
Pinned (must be literally what the model in Model/Csv.v was written against;
any edit is a TranslationError = a broken proof): the file modes, the row
zipping loop, the writerow calls, the _fromdict hand-over, DataMatrix.column_names
and Row.__iter__ (what the header and the cells of a record are enumerated by).
"""
import ast
from py2coq import TranslationError, find_function, body_nodoc, expect_same, dump, parse_expr
import pystmt
from pystmt import Ctx, block
from kernels_common import HEADER, load

FILE = 'KCsv.v'

ISIN = {'str': 'is_basestring', 'bytes': 'is_bytes', 'numbers.Integral': 'is_Integral', 'Exception': 'is_Exception'}
CALLS = {'int': ('b_int', 'res pyv'), 'float': ('b_float', 'res pyv'), 'str': ('b_str shf', 'pyv')}


def coq_bytes(s):
    return '(sb [%s])' % ';'.join('%d%%nat' % c for c in s.encode('utf-8'))


def coq_ascii(s, what):
    b = s.encode('utf-8')
    if len(b) != 1:
        raise TranslationError('%s: expected a one-byte character, found %r' % (what, s))
    return '(ascii_of_nat %d)' % b[0]


def eq_monadic(node, cx):
    """`a == b` where both sides may raise -> term of type res bool"""
    if not (isinstance(node, ast.Compare) and len(node.ops) == 1 and isinstance(node.ops[0], ast.Eq)):
        raise TranslationError('assert test %s' % ast.unparse(node))
    lt, lk = pystmt.lift(*pystmt.expr(node.left, cx))
    rt, rk = pystmt.lift(*pystmt.expr(node.comparators[0], cx))
    if lk != 'res pyv' or rk != 'res pyv':
        raise TranslationError('assert operands %s' % ast.unparse(node))
    return '(bind %s (fun a_ => bind %s (fun b_ => Ok (py_eq a_ b_))))' % (lt, rt)


def gen_safe_decode(tree):
    fn = find_function(tree, 'safe_decode')
    names = [a.arg for a in fn.args.args]
    if names != ['s', 'enc', 'errors'] or fn.args.vararg or fn.args.kwarg or fn.args.kwonlyargs:
        raise TranslationError('safe_decode: signature %s' % names)
    body = body_nodoc(fn)
    cx = Ctx(ISIN, {'s.decode(enc, errors)': ('(b_safe_decode s)', 'pyv')}, CALLS)
    cx.locals = {'s'}
    # split the body at the try statement
    tries = [i for i, st in enumerate(body) if isinstance(st, ast.Try)]
    if len(tries) != 1:
        raise TranslationError('safe_decode: expected exactly one top-level try')
    k = tries[0]
    head, tr, rest = body[:k], body[k], body[k + 1:]
    # the tail: `if isinstance(s, Exception): try: return safe_decode(bytes(s), ...) except: pass` is dead
    # (cells are never exceptions) but must still be that guarded call; then `return str(s)`
    pruned = []
    for st in rest:
        if isinstance(st, ast.If) and ast.unparse(st.test) == 'isinstance(s, Exception)':
            if st.orelse or len(st.body) != 1 or not isinstance(st.body[0], ast.Try):
                raise TranslationError('safe_decode: Exception branch shape')
            t2 = st.body[0]
            if len(t2.body) != 1 or len(t2.handlers) != 1 or t2.handlers[0].type is not None \
                    or not pystmt.is_pass(t2.handlers[0].body) or t2.orelse or t2.finalbody:
                raise TranslationError('safe_decode: Exception branch try shape')
            expect_same(t2.body[0], 'return safe_decode(bytes(s), enc=enc, errors=errors)')
            continue
        pruned.append(st)
    # try: assert(A == B); return R  except: <handler statements>
    if tr.orelse or tr.finalbody or len(tr.handlers) != 1 or tr.handlers[0].type is not None \
            or tr.handlers[0].name is not None:
        raise TranslationError('safe_decode: try shape')
    if len(tr.body) != 2 or not isinstance(tr.body[0], ast.Assert) or tr.body[0].msg is not None \
            or not isinstance(tr.body[1], ast.Return):
        raise TranslationError('safe_decode: try body is not `assert ...; return ...`')
    test = eq_monadic(tr.body[0].test, cx)
    r1, k1 = pystmt.lift(*pystmt.expr(tr.body[1].value, cx))
    if k1 != 'res pyv':
        raise TranslationError('safe_decode: return kind')
    saved = set(cx.locals)
    handler = block(list(tr.handlers[0].body) + pruned, cx, tail='(Ok PNone)')
    cx.locals = saved
    t3 = '(try_bind (bind %s (fun c_ => if c_ then %s else Raise OtherError)) None (fun r_ => Ok r_) %s)' % (
        test, r1, handler)
    return 'Definition k_safe_decode (shf : fl -> string) (s : pyv) : res pyv :=\n  %s.\n\n' % block(head, cx, tail=t3)


def kw_map(call, allowed, what):
    out = {}
    for kw in call.keywords:
        if kw.arg is None or kw.arg not in allowed:
            raise TranslationError('%s: unexpected keyword %s' % (what, kw.arg))
        out[kw.arg] = kw.value
    return out


def char_arg(node, default, what):
    """delimiter= / quotechar= argument as a function of the caller's (delimiter, quotechar)"""
    if node is None:
        return coq_ascii(default, what)
    if isinstance(node, ast.Name) and node.id in ('delimiter', 'quotechar'):
        return node.id
    if isinstance(node, ast.Constant) and isinstance(node.value, str):
        return coq_ascii(node.value, what)
    raise TranslationError('%s: %s' % (what, ast.unparse(node)))


def find_call(nodes, callee):
    hits = []
    for n in nodes:
        for c in ast.walk(n):
            if isinstance(c, ast.Call) and ast.unparse(c.func) == callee:
                hits.append(c)
    if len(hits) != 1:
        raise TranslationError('expected exactly one call of %s, found %d' % (callee, len(hits)))
    return hits[0]


def gen_text(tree, out):
    # BOM constant
    bom = None
    for st in tree.body:
        if isinstance(st, ast.Assign) and len(st.targets) == 1 and isinstance(st.targets[0], ast.Name) \
                and st.targets[0].id == 'BOM':
            if bom is not None or not (isinstance(st.value, ast.Constant) and isinstance(st.value.value, str)):
                raise TranslationError('BOM definition')
            bom = st.value.value
    if bom is None:
        raise TranslationError('no BOM constant')
    out.append('Definition k_bom : string := %s.\n' % coq_bytes(bom))

    # ---------------- readtxt ----------------
    fn = find_function(tree, 'readtxt')
    names = [a.arg for a in fn.args.args]
    if names != ['path', 'delimiter', 'quotechar', 'default_col_type']:
        raise TranslationError('readtxt: signature %s' % names)
    defaults = [ast.unparse(d) for d in fn.args.defaults]
    if defaults != ["','", '\'"\'', 'MixedColumn']:
        raise TranslationError('readtxt: defaults %s' % defaults)
    body = body_nodoc(fn)
    if len(body) != 4:
        raise TranslationError('readtxt: statement count %d' % len(body))
    expect_same(body[0], 'd = collections.OrderedDict()')
    w = body[1]
    if not isinstance(w, ast.With) or len(w.items) != 1:
        raise TranslationError('readtxt: with')
    expect_same(w.items[0].context_expr, "safe_open(path, u'r' if py3 else u'Ur')", 'text mode, universal newlines')
    if ast.unparse(w.items[0].optional_vars) != 'csvfile':
        raise TranslationError('readtxt: with target')
    if len(w.body) != 3:
        raise TranslationError('readtxt: with body')
    asg = w.body[0]
    if not (isinstance(asg, ast.Assign) and ast.unparse(asg.targets[0]) == 'reader' and isinstance(asg.value, ast.Call)
            and ast.unparse(asg.value.func) == 'csv.reader'):
        raise TranslationError('readtxt: reader construction')
    call = asg.value
    if [ast.unparse(a) for a in call.args] != ['csvfile']:
        raise TranslationError('readtxt: csv.reader positional arguments')
    kws = kw_map(call, {'delimiter', 'quotechar'}, 'csv.reader')
    out.append('Definition k_reader_delimiter (delimiter quotechar : ascii) : ascii := %s.\n'
               % char_arg(kws.get('delimiter'), ',', 'reader delimiter'))
    out.append('Definition k_reader_quotechar (delimiter quotechar : ascii) : ascii := %s.\n'
               % char_arg(kws.get('quotechar'), '"', 'reader quotechar'))
    # header loop
    h = w.body[1]
    if not isinstance(h, ast.For) or h.orelse or ast.unparse(h.target) != 'column' \
            or ast.unparse(h.iter) != 'next(reader)' or len(h.body) != 3:
        raise TranslationError('readtxt: header loop')
    expect_same(h.body[0], 'column = safe_decode(column)')
    cond = h.body[1]
    if not isinstance(cond, ast.If) or cond.orelse or len(cond.body) != 1:
        raise TranslationError('readtxt: BOM test')
    expect_same(cond.test, 'column.startswith(BOM)')
    strip = cond.body[0]
    if not (isinstance(strip, ast.Assign) and ast.unparse(strip.targets[0]) == 'column'
            and isinstance(strip.value, ast.Subscript) and ast.unparse(strip.value.value) == 'column'
            and isinstance(strip.value.slice, ast.Slice) and strip.value.slice.upper is None
            and strip.value.slice.step is None and isinstance(strip.value.slice.lower, ast.Constant)
            and isinstance(strip.value.slice.lower.value, int) and strip.value.slice.lower.value >= 0):
        raise TranslationError('readtxt: BOM strip %s' % ast.unparse(strip))
    out.append('Definition k_header_name (column : string) : string :=\n'
               '  if String.prefix k_bom column then drop_cp %d%%nat column else column.\n'
               % strip.value.slice.lower.value)
    expect_same(h.body[2], 'd[column] = []')
    # row loop
    r = w.body[2]
    if not isinstance(r, ast.For) or r.orelse or ast.unparse(r.target) != 'row' or ast.unparse(r.iter) != 'reader' \
            or len(r.body) != 3:
        raise TranslationError('readtxt: row loop')
    expect_same(r.body[0], 'all_columns = list(d.keys())')
    z = r.body[1]
    if not isinstance(z, ast.For) or z.orelse or len(z.body) != 2:
        raise TranslationError('readtxt: zip loop')
    if ast.unparse(z.target) != '(column, val)':
        raise TranslationError('readtxt: zip target')
    expect_same(z.iter, 'zip(d.keys(), row)')
    expect_same(z.body[0], 'all_columns.remove(column)')
    expect_same(z.body[1], 'd[column].append(val)')
    m = r.body[2]
    if not isinstance(m, ast.For) or m.orelse or ast.unparse(m.target) != 'column' \
            or ast.unparse(m.iter) != 'all_columns' or len(m.body) != 2:
        raise TranslationError('readtxt: missing-cell loop')
    if not (isinstance(m.body[0], ast.Expr) and isinstance(m.body[0].value, ast.Call)
            and ast.unparse(m.body[0].value.func) == 'warn'):
        raise TranslationError('readtxt: missing-cell warning')
    app = m.body[1]
    if not (isinstance(app, ast.Expr) and isinstance(app.value, ast.Call)
            and ast.unparse(app.value.func) == 'd[column].append' and len(app.value.args) == 1
            and not app.value.keywords and isinstance(app.value.args[0], ast.Constant)
            and isinstance(app.value.args[0].value, str)):
        raise TranslationError('readtxt: missing-cell fill %s' % ast.unparse(app))
    out.append('Definition k_missing : string := %s.\n' % coq_bytes(app.value.args[0].value))
    expect_same(body[2], 'dm = DataMatrix(default_col_type=default_col_type)._fromdict(d)')
    expect_same(body[3], 'return dm')

    # ---------------- writetxt ----------------
    fn = find_function(tree, 'writetxt')
    names = [a.arg for a in fn.args.args]
    if names != ['dm', 'path', 'delimiter', 'quotechar']:
        raise TranslationError('writetxt: signature %s' % names)
    defaults = [ast.unparse(d) for d in fn.args.defaults]
    if defaults != ["','", '\'"\'']:
        raise TranslationError('writetxt: defaults %s' % defaults)
    body = body_nodoc(fn)
    if len(body) != 3:
        raise TranslationError('writetxt: statement count %d' % len(body))
    cx = Ctx({}, {'dm.is_2d': ('is_2d', 'bool')}, {})
    out.append('Definition k_write_guard (is_2d : bool) : res pyv :=\n  %s.\n' % block([body[0]], cx))
    t = body[1]
    if not (isinstance(t, ast.Try) and len(t.body) == 1 and len(t.handlers) == 1 and pystmt.is_pass(t.handlers[0].body)
            and not t.orelse and not t.finalbody):
        raise TranslationError('writetxt: makedirs try')
    expect_same(t.body[0], 'os.makedirs(os.path.dirname(path))')
    w = body[2]
    if not isinstance(w, ast.With) or len(w.items) != 1 or len(w.body) != 3:
        raise TranslationError('writetxt: with')
    expect_same(w.items[0].context_expr, "safe_open(path, 'w')", 'text mode')
    if ast.unparse(w.items[0].optional_vars) != 'csvfile':
        raise TranslationError('writetxt: with target')
    asg = w.body[0]
    if not (isinstance(asg, ast.Assign) and ast.unparse(asg.targets[0]) == 'writer' and isinstance(asg.value, ast.Call)
            and ast.unparse(asg.value.func) == 'csv.writer'):
        raise TranslationError('writetxt: writer construction')
    call = asg.value
    if [ast.unparse(a) for a in call.args] != ['csvfile']:
        raise TranslationError('writetxt: csv.writer positional arguments')
    kws = kw_map(call, {'delimiter', 'quotechar', 'lineterminator'}, 'csv.writer')
    out.append('Definition k_writer_delimiter (delimiter quotechar : ascii) : ascii := %s.\n'
               % char_arg(kws.get('delimiter'), ',', 'writer delimiter'))
    out.append('Definition k_writer_quotechar (delimiter quotechar : ascii) : ascii := %s.\n'
               % char_arg(kws.get('quotechar'), '"', 'writer quotechar'))
    lt = kws.get('lineterminator')
    if lt is None:
        ltv = '\r\n'
    elif isinstance(lt, ast.Constant) and isinstance(lt.value, str):
        ltv = lt.value
    else:
        raise TranslationError('writetxt: lineterminator %s' % ast.unparse(lt))
    out.append('Definition k_lineterminator : string := %s.\n' % coq_bytes(ltv))
    # header and rows: which function renders a cell
    hw = w.body[1]
    if not (isinstance(hw, ast.Expr) and isinstance(hw.value, ast.Call) and ast.unparse(hw.value.func) == 'writer.writerow'
            and len(hw.value.args) == 1 and isinstance(hw.value.args[0], ast.ListComp)):
        raise TranslationError('writetxt: header row')
    lc = hw.value.args[0]
    if len(lc.generators) != 1 or lc.generators[0].ifs or ast.unparse(lc.generators[0].target) != 'colname' \
            or ast.unparse(lc.generators[0].iter) != 'dm.column_names':
        raise TranslationError('writetxt: header comprehension')
    rw = w.body[2]
    if not isinstance(rw, ast.For) or rw.orelse or ast.unparse(rw.target) != 'row' or ast.unparse(rw.iter) != 'dm' \
            or len(rw.body) != 1:
        raise TranslationError('writetxt: row loop')
    cw = rw.body[0]
    if not (isinstance(cw, ast.Expr) and isinstance(cw.value, ast.Call) and ast.unparse(cw.value.func) == 'writer.writerow'
            and len(cw.value.args) == 1 and isinstance(cw.value.args[0], ast.ListComp)):
        raise TranslationError('writetxt: cell row')
    lc2 = cw.value.args[0]
    if len(lc2.generators) != 1 or lc2.generators[0].ifs or ast.unparse(lc2.generators[0].target) != '(colname, value)' \
            or ast.unparse(lc2.generators[0].iter) != 'row':
        raise TranslationError('writetxt: cell comprehension')
    fns = {'safe_str': 'k_safe_decode', 'safe_decode': 'k_safe_decode'}
    for elt, var in ((lc.elt, 'colname'), (lc2.elt, 'value')):
        if not (isinstance(elt, ast.Call) and isinstance(elt.func, ast.Name) and elt.func.id in fns
                and len(elt.args) == 1 and not elt.keywords and ast.unparse(elt.args[0]) == var):
            raise TranslationError('writetxt: cell rendering %s' % ast.unparse(elt))
    out.append('Definition k_cell_str (shf : fl -> string) (v : pyv) : res pyv := %s shf v.\n' % fns[lc2.elt.func.id])


def bool_const(node, what):
    if isinstance(node, ast.Constant) and node.value is True:
        return 'true'
    if isinstance(node, ast.Constant) and node.value is False:
        return 'false'
    raise TranslationError('%s: expected True / False, found %s' % (what, ast.unparse(node)))


def gen_is_2d(dmod, out):
    """DataMatrix.is_2d (what writetxt's guard reads) -> k_is_2d over the column objects of the table.
    Grammar: `for name, col in self.columns: if hasattr(col, 'depth'): return <bool>` followed by `return <bool>`;
    a column object is seen as `colobj` (Base/CsvPy.v): the value of its depth attribute if it has one.
    Pinned: DataMatrix.columns enumerates every entry of self._cols."""
    fn = find_function(dmod, 'DataMatrix.is_2d')
    if [ast.unparse(d) for d in fn.decorator_list] != ['property'] or [a.arg for a in fn.args.args] != ['self']:
        raise TranslationError('is_2d: not a plain property')
    body = body_nodoc(fn)
    if len(body) != 2 or not isinstance(body[0], ast.For) or not isinstance(body[1], ast.Return):
        raise TranslationError('is_2d: expected a for loop followed by a return')
    loop = body[0]
    if loop.orelse or ast.unparse(loop.target) != '(name, col)' or ast.unparse(loop.iter) != 'self.columns' \
            or len(loop.body) != 1:
        raise TranslationError('is_2d: loop shape')
    cond = loop.body[0]
    if not isinstance(cond, ast.If) or cond.orelse or len(cond.body) != 1 or not isinstance(cond.body[0], ast.Return):
        raise TranslationError('is_2d: loop body')
    t = cond.test
    if not (isinstance(t, ast.Call) and isinstance(t.func, ast.Name) and t.func.id == 'hasattr' and not t.keywords
            and len(t.args) == 2 and ast.unparse(t.args[0]) == 'col' and isinstance(t.args[1], ast.Constant)
            and t.args[1].value == 'depth'):
        raise TranslationError('is_2d: test %s' % ast.unparse(t))
    inside = bool_const(cond.body[0].value, 'is_2d: return inside the loop')
    after = bool_const(body[1].value, 'is_2d: final return')
    out.append('Definition k_is_2d (columns : list (string * colobj)) : bool :=\n'
               '  (fix loop_ (l_ : list (string * colobj)) : bool :=\n'
               '     match l_ with\n'
               '     | [] => %s\n'
               '     | (name, col) :: r_ => if (col_hasattr_depth col) then %s else loop_ r_\n'
               '     end) columns.\n' % (after, inside))
    cols = find_function(dmod, 'DataMatrix.columns')
    cb = body_nodoc(cols)
    if [ast.unparse(d) for d in cols.decorator_list] != ['property'] or len(cb) != 1:
        raise TranslationError('DataMatrix.columns: shape')
    expect_same(cb[0], 'return self._to_list(self._cols.items(), key=lambda col: col[0])', 'every column is enumerated')


def pin_names(repo, dmod):
    """What writetxt writes is enumerated by DataMatrix.column_names (the header) and by Row.__iter__ (the cells of a
    record, which asks column_names again): both must list every entry of self._cols as it is NOW, in the same order.
    Pinned (a remembered list would be a different statement)."""
    fn = find_function(dmod, 'DataMatrix.column_names')
    body = body_nodoc(fn)
    if [ast.unparse(d) for d in fn.decorator_list] != ['property'] or len(body) != 1:
        raise TranslationError('DataMatrix.column_names: shape')
    expect_same(body[0], 'return self._to_list(self._cols.keys())', 'the current names, every one of them')
    row = load(repo, 'datamatrix/_datamatrix/_row.py')
    it = find_function(row, 'Row.__iter__')
    ib = body_nodoc(it)
    if len(ib) != 1:
        raise TranslationError('Row.__iter__: shape')
    expect_same(ib[0], 'for col in self._datamatrix.column_names:\n    yield col, self[col]',
                'one cell per current column name, in the order of the header')


def gen(repo):
    compat = load(repo, 'datamatrix/py3compat.py')
    text = load(repo, 'datamatrix/io/_text.py')
    out = [HEADER % 'datamatrix/py3compat.py, datamatrix/io/_text.py',
           'From Coq Require Import ZArith List Bool String Ascii.\n'
           'From DM Require Import Base.PyVal Base.CsvPy.\nImport ListNotations.\nOpen Scope Z_scope.\n\n']
    # py3: safe_str is safe_decode
    found = False
    for st in compat.body:
        if isinstance(st, ast.If) and ast.unparse(st.test) == 'py3':
            for s2 in st.body:
                if isinstance(s2, ast.Assign) and ast.unparse(s2.targets[0]) == 'safe_str':
                    expect_same(s2, 'safe_str = safe_decode')
                    found = True
    if not found:
        raise TranslationError('py3compat: safe_str binding not found')
    out.append(gen_safe_decode(compat))
    gen_text(text, out)
    # DataMatrix._fromdict: pinned (the model stores every registered column completely, cell by cell, in a
    # new column of the default type)
    dmod = load(repo, 'datamatrix/_datamatrix/_datamatrix.py')
    fd = find_function(dmod, 'DataMatrix._fromdict')
    fb = body_nodoc(fd)
    if [a.arg for a in fd.args.args] != ['self', 'd'] or len(fb) != 2:
        raise TranslationError('_fromdict: shape')
    loop = fb[0]
    if not isinstance(loop, ast.For) or loop.orelse or ast.unparse(loop.target) != '(name, col)' \
            or ast.unparse(loop.iter) != 'd.items()' or len(loop.body) != 3:
        raise TranslationError('_fromdict: loop')
    expect_same(loop.body[0], 'if len(col) > len(self):\n    self.length = len(col)')
    expect_same(loop.body[1], 'self[name] = self._default_col_type')
    expect_same(loop.body[2], 'self[name][:len(col)] = col')
    expect_same(fb[1], 'return self')
    gen_is_2d(dmod, out)
    pin_names(repo, dmod)
    return ''.join(out)
