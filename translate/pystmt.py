"""Fail-closed translation of small Python function bodies over the classified
object universe `pyv` (DM.Base.PyVal) into Gallina terms in the exception
monad `res`.  Supported: if/elif/else, return, single-statement try/except,
assignment of a call result, raise E(...), warn(...) (ignored), and
expressions built from isinstance, is None, ==, and/or/not, int(), float(),
math.isnan/isinf, calls to other translated kernels, named constants.
"""
import ast
from py2coq import TranslationError, dump, parse_expr

EXN = {'ValueError', 'TypeError', 'OverflowError', 'IndexError', 'KeyError', 'AttributeError',
       'ZeroDivisionError'}


class Ctx:
    def __init__(self, isinstance_table, names, calls, raising_calls=(), ignore_calls=('warn', 'warnings.warn')):
        # isinstance_table: {type source text: coq predicate}
        self.isin = {dump(parse_expr(k)): v for k, v in isinstance_table.items()}
        # names: {python expr source: (coq term, kind)}; kind in pyv|bool
        self.names = {dump(parse_expr(k)): v for k, v in names.items()}
        # calls: {callee source: (coq function, kind of result)}, applied to translated positional args
        self.calls = {dump(parse_expr(k)): v for k, v in calls.items()}
        self.ignore = {dump(parse_expr(k)) for k in ignore_calls}
        self.locals = set()


def lift(text, kind):
    if kind in ('pyv', 'bool'):
        return '(Ok %s)' % text, 'res ' + kind
    return text, kind


def expr(node, cx):
    """-> (text, kind) with kind in pyv | bool | res pyv | res bool"""
    d = dump(node)
    if d in cx.names:
        return cx.names[d]
    if isinstance(node, ast.Name):
        if node.id in cx.locals:
            return node.id, 'pyv'
        raise TranslationError('unknown name %s' % node.id)
    if isinstance(node, ast.Constant):
        if node.value is None:
            return 'PNone', 'pyv'
        if node.value is True or node.value is False:
            return ('true' if node.value else 'false'), 'bool'
        if isinstance(node.value, int):
            return '(PInt (%d))' % node.value, 'pyv'
        raise TranslationError('constant %r' % (node.value,))
    if isinstance(node, ast.Call):
        fd = dump(node.func)
        if isinstance(node.func, ast.Name) and node.func.id == 'isinstance' and len(node.args) == 2:
            x, k = expr(node.args[0], cx)
            if k != 'pyv':
                raise TranslationError('isinstance on non-value')
            td = dump(node.args[1])
            if td not in cx.isin:
                raise TranslationError('isinstance type %s' % ast.unparse(node.args[1]))
            return '(%s %s)' % (cx.isin[td], x), 'bool'
        if fd in cx.calls and not node.keywords:
            fn, kind = cx.calls[fd]
            args = [expr(a, cx) for a in node.args]
            if all(k == 'pyv' for _t, k in args):
                return '(%s %s)' % (fn, ' '.join(t for t, _k in args)), kind
            # one monadic argument: bind it
            if len(args) == 1 and args[0][1] == 'res pyv':
                inner = args[0][0]
                if kind.startswith('res'):
                    return '(bind %s %s)' % (inner, fn), kind
                return '(bind %s (fun x_ => Ok (%s x_)))' % (inner, fn), 'res ' + kind
            raise TranslationError('call arguments of %s' % ast.unparse(node))
        raise TranslationError('call %s' % ast.unparse(node))
    if isinstance(node, ast.Compare) and len(node.ops) == 1:
        op = node.ops[0]
        lt, lk = expr(node.left, cx)
        rt, rk = expr(node.comparators[0], cx)
        if isinstance(op, (ast.Is, ast.IsNot)) and isinstance(node.comparators[0], ast.Constant) \
                and node.comparators[0].value is None:
            if lk != 'pyv':
                raise TranslationError('is None on non-value')
            t = '(is_None %s)' % lt
            return (t if isinstance(op, ast.Is) else '(negb %s)' % t), 'bool'
        if isinstance(op, (ast.Eq, ast.NotEq)):
            if lk == 'pyv' and rk == 'pyv':
                t = '(py_eq %s %s)' % (lt, rt)
                return (t if isinstance(op, ast.Eq) else '(negb %s)' % t), 'bool'
            if lk == 'res pyv' and rk == 'pyv':
                t = '(bind %s (fun x_ => Ok (%spy_eq x_ %s%s)))' % (
                    lt, '' if isinstance(op, ast.Eq) else 'negb (', rt, '' if isinstance(op, ast.Eq) else ')')
                return t, 'res bool'
        raise TranslationError('comparison %s' % ast.unparse(node))
    if isinstance(node, ast.UnaryOp) and isinstance(node.op, ast.Not):
        t, k = expr(node.operand, cx)
        if k == 'bool':
            return '(negb %s)' % t, 'bool'
        if k == 'res bool':
            return '(bind %s (fun b_ => Ok (negb b_)))' % t, 'res bool'
        raise TranslationError('not on %s' % k)
    if isinstance(node, ast.BoolOp):
        parts = [expr(v, cx) for v in node.values]
        if any(k not in ('bool', 'res bool') for _t, k in parts):
            raise TranslationError('boolean operator on non-bool: %s' % ast.unparse(node))
        if all(k == 'bool' for _t, k in parts):
            op = ' && ' if isinstance(node.op, ast.And) else ' || '
            return '(' + op.join(t for t, _k in parts) + ')', 'bool'
        # short-circuit in the monad
        acc, _ = lift(*parts[-1])
        for t, k in reversed(parts[:-1]):
            tm, _ = lift(t, k)
            if isinstance(node.op, ast.And):
                acc = '(bind %s (fun b_ => if b_ then %s else Ok false))' % (tm, acc)
            else:
                acc = '(bind %s (fun b_ => if b_ then Ok true else %s))' % (tm, acc)
        return acc, 'res bool'
    raise TranslationError('unsupported expression %s' % ast.unparse(node))


def exn_list(h):
    """except clause -> Coq `option (list exn)` (None = bare except)"""
    if h.type is None:
        return 'None'
    names = []
    t = h.type
    elts = t.elts if isinstance(t, ast.Tuple) else [t]
    for e in elts:
        if not isinstance(e, ast.Name) or e.id not in EXN:
            raise TranslationError('except clause %s' % ast.unparse(t))
        names.append(e.id)
    return '(Some [%s])' % '; '.join(names)


def is_pass(stmts):
    return all(isinstance(s, ast.Pass) for s in stmts)


def block(stmts, cx, tail='(Ok PNone)'):
    """Translate a statement list to a term of type res pyv; `tail` is what
    falling off the end means."""
    if not stmts:
        return tail
    s, rest = stmts[0], stmts[1:]
    if isinstance(s, ast.Expr) and isinstance(s.value, ast.Constant) and isinstance(s.value.value, str):
        return block(rest, cx, tail)
    if isinstance(s, ast.Pass):
        return block(rest, cx, tail)
    if isinstance(s, ast.Expr) and isinstance(s.value, ast.Call) and dump(s.value.func) in cx.ignore:
        return block(rest, cx, tail)
    if isinstance(s, ast.Return):
        if s.value is None:
            return '(Ok PNone)'
        t, k = expr(s.value, cx)
        if k in ('pyv', 'bool'):
            return '(Ok %s)' % t
        if k in ('res pyv', 'res bool'):
            return t
        raise TranslationError('return of %s' % k)
    if isinstance(s, ast.Raise):
        e = s.exc
        name = e.func.id if isinstance(e, ast.Call) and isinstance(e.func, ast.Name) else \
            (e.id if isinstance(e, ast.Name) else None)
        if name == 'Exception':
            return '(Raise PlainException)'
        if name not in EXN:
            raise TranslationError('raise %s' % ast.unparse(s))
        return '(Raise %s)' % name
    if isinstance(s, ast.If):
        c, k = expr(s.test, cx)
        saved = set(cx.locals)
        a = block(list(s.body) + rest, cx, tail)
        cx.locals = set(saved)
        b = block(list(s.orelse) + rest, cx, tail)
        cx.locals = saved
        if k == 'bool':
            return '(if %s then %s else %s)' % (c, a, b)
        if k == 'res bool':
            return '(bind %s (fun c_ => if c_ then %s else %s))' % (c, a, b)
        raise TranslationError('condition of kind %s' % k)
    if isinstance(s, ast.Assign) and len(s.targets) == 1 and isinstance(s.targets[0], ast.Name):
        x = s.targets[0].id
        t, k = expr(s.value, cx)
        cx.locals.add(x)
        r = block(rest, cx, tail)
        if k == 'pyv':
            return '(let %s := %s in %s)' % (x, t, r)
        if k == 'res pyv':
            return '(bind %s (fun %s => %s))' % (t, x, r)
        raise TranslationError('assignment of %s' % k)
    if isinstance(s, ast.Try):
        if s.orelse or s.finalbody or len(s.handlers) != 1 or len(s.body) != 1:
            raise TranslationError('try statement shape')
        h = s.handlers[0]
        if h.name is not None:
            raise TranslationError('except ... as name')
        es = exn_list(h)
        b0 = s.body[0]
        saved = set(cx.locals)
        handler = block(list(h.body) + rest, cx, tail)
        cx.locals = set(saved)
        if isinstance(b0, ast.Return):
            t, k = lift(*expr(b0.value, cx))
            if k != 'res pyv':
                raise TranslationError('try-return kind')
            return '(try_bind %s %s (fun r_ => Ok r_) %s)' % (t, es, handler)
        if isinstance(b0, ast.Assign) and len(b0.targets) == 1 and isinstance(b0.targets[0], ast.Name):
            x = b0.targets[0].id
            t, k = lift(*expr(b0.value, cx))
            if k != 'res pyv':
                raise TranslationError('try-assign kind')
            cx.locals.add(x)
            cont = block(rest, cx, tail)
            cx.locals = saved
            return '(try_bind %s %s (fun %s => %s) %s)' % (t, es, x, cont, handler)
        raise TranslationError('try body %s' % ast.unparse(b0))
    raise TranslationError('unsupported statement %s' % ast.unparse(s)[:80])
