"""operations.split / operations.group and the comparison + unique code they rest on -> Gen/KSplitGroup.v

Decision and arithmetic fragments are translated (py2coq.tr over a typed environment); the loop / call skeleton
around them is pinned statement by statement (expect_same), so that any edit of these functions either regenerates
a different kernel (and the characterising lemmas in Proofs/SplitGroupFacts.v decide) or fails closed."""
import ast
from py2coq import TranslationError, Env, tr, tr_typed, find_function, body_nodoc, expect_same
from kernels_common import HEADER, load

FILE = 'KSplitGroup.v'


def strip_docstrings(fn):
    return body_nodoc(fn)


def same_target(node, text):
    """assignment / loop targets carry a Store context: compare their source text"""
    if ast.unparse(node) != ast.unparse(ast.parse(text, mode='eval').body):
        raise TranslationError('pinned target changed: expected `%s`, found `%s`' % (text, ast.unparse(node)))


def gen(repo):
    out = [HEADER % 'datamatrix/operations.py, _datamatrix/_basecolumn.py, _datamatrix/_numericcolumn.py',
           'From Coq Require Import ZArith List Bool.\nImport ListNotations.\nOpen Scope Z_scope.\n\n']
    opsm = load(repo, 'datamatrix/operations.py')
    base = load(repo, 'datamatrix/_datamatrix/_basecolumn.py')
    num = load(repo, 'datamatrix/_datamatrix/_numericcolumn.py')

    # ------------------------------------------------------------------ operations.split
    fn = find_function(opsm, 'split')
    if [a.arg for a in fn.args.args] != ['col'] or fn.args.vararg is None or fn.args.vararg.arg != 'values' \
            or fn.args.kwarg or fn.args.kwonlyargs:
        raise TranslationError('split: signature is not (col, *values)')
    body = strip_docstrings(fn)
    if len(body) != 3:
        raise TranslationError('split: expected 3 statements, found %d' % len(body))
    multi, assign, loop = body
    # (1) several columns
    if not isinstance(multi, ast.If) or multi.orelse or len(multi.body) != 3:
        raise TranslationError('split: multi-column branch changed shape')
    env = Env([('values', 'has_values', 'bool'),
               ('any((isinstance(value, BaseColumn) for value in values))', 'any_col', 'bool'),
               ('all((isinstance(value, BaseColumn) for value in values))', 'all_col', 'bool')])
    t_multi = tr_typed(multi.test, env, 'bool')
    guard = multi.body[0]
    if not isinstance(guard, ast.If) or guard.orelse or len(guard.body) != 1 or not isinstance(guard.body[0], ast.Raise):
        raise TranslationError('split: guard of the multi-column branch changed')
    t_bad = tr_typed(guard.test, env, 'bool')
    exc = guard.body[0].exc
    if not (isinstance(exc, ast.Call) and isinstance(exc.func, ast.Name) and exc.func.id == 'ValueError'):
        raise TranslationError('split: the guard no longer raises ValueError')
    expect_same(multi.body[1],
                'for val1, dm in split(col):\n'
                '    for val_sdm in split(*[dm[col.name] for col in values]):\n'
                '        yield (val1, *val_sdm[:-1], val_sdm[-1])', 'split: recursion on the column list')
    expect_same(multi.body[2], 'return')
    out.append('(* split: take the several-columns branch? / does it raise ValueError? *)\n'
               'Definition k_split_multi (has_values any_col : bool) : bool := %s.\n'
               'Definition k_split_bad (all_col : bool) : bool := %s.\n' % (t_multi, t_bad))
    # (2) _values = values if values else col.unique
    if not (isinstance(assign, ast.Assign) and len(assign.targets) == 1 and isinstance(assign.targets[0], ast.Name)
            and assign.targets[0].id == '_values' and isinstance(assign.value, ast.IfExp)):
        raise TranslationError('split: `_values = ... if ... else ...` changed')
    t_test = tr_typed(assign.value.test, Env([('values', 'has_values', 'bool')]), 'bool')
    envv = Env([('values', 'given', 'key'), ('col.unique', 'uniq', 'key')])
    a, _ = tr(assign.value.body, envv)
    b, _ = tr(assign.value.orelse, envv)
    out.append('Definition k_split_values {A : Type} (has_values : bool) (given uniq : A) : A := '
               'if %s then %s else %s.\n' % (t_test, a, b))
    # (3) the loop
    if not (isinstance(loop, ast.For) and not loop.orelse and len(loop.body) == 3):
        raise TranslationError('split: loop changed shape')
    same_target(loop.target, 'val')
    expect_same(loop.iter, '_values')
    expect_same(loop.body[0], 'dm = col == val', 'split: the part is the selection col == val')
    w = loop.body[1]
    if not (isinstance(w, ast.If) and not w.orelse and len(w.body) == 1 and isinstance(w.body[0], ast.Expr)
            and isinstance(w.body[0].value, ast.Call) and ast.unparse(w.body[0].value.func) == 'warn'):
        raise TranslationError('split: the empty-part statement is no longer only a warning')
    y = loop.body[2]
    if not (isinstance(y, ast.If) and len(y.body) == 1 and len(y.orelse) == 1):
        raise TranslationError('split: yield statement changed')
    t_bare = tr_typed(y.test, Env([('values', 'has_values', 'bool')]), 'bool')
    expect_same(y.body[0], 'yield dm')
    expect_same(y.orelse[0], 'yield (val, dm)')
    out.append('(* yield the bare DataMatrix (true) or the pair (val, dm) (false) *)\n'
               'Definition k_split_yield_bare (has_values : bool) : bool := %s.\n\n' % t_bare)

    # ------------------------------------------------------------------ BaseColumn._compare and friends
    fn = find_function(base, 'BaseColumn._compare')
    body = strip_docstrings(fn)
    # if-return chain; for a scalar reference every test but the NaN test is false
    env = Env([('isinstance(other, float)', 'is_float', 'bool'), ('math.isnan(other)', 'is_nan', 'bool'),
               ('isinstance(other, type)', 'false', 'bool'), ('isinstance(other, set)', 'false', 'bool'),
               ('isinstance(other, types.FunctionType)', 'false', 'bool'),
               ('self._issequence(other)', 'false', 'bool')])
    routes = {'self._compare_nan(other, op)': '1%nat', 'self._compare_type(other, op)': '2%nat',
              'self._compare_set(other, op)': '3%nat', 'self._compare_function(other, op)': '4%nat',
              'self._compare_sequence(other, op)': '5%nat', 'self._compare_value(other, op)': '0%nat'}
    term = None
    chain = []
    for st in body:
        if isinstance(st, ast.If) and not st.orelse and len(st.body) == 1 and isinstance(st.body[0], ast.Return):
            r = ast.unparse(st.body[0].value)
            if r not in routes:
                raise TranslationError('_compare: unknown route %s' % r)
            chain.append((tr_typed(st.test, env, 'bool'), routes[r]))
        elif isinstance(st, ast.Return) and st is body[-1]:
            r = ast.unparse(st.value)
            if r not in routes:
                raise TranslationError('_compare: unknown route %s' % r)
            term = routes[r]
        else:
            raise TranslationError('_compare: not an if/return chain')
    if term is None:
        raise TranslationError('_compare: no final return')
    for t, r in reversed(chain):
        term = '(if %s then %s else %s)' % (t, r, term)
    out.append('(* BaseColumn._compare for a scalar reference: 0 = _compare_value, 1 = _compare_nan, 2.. = other routes *)\n'
               'Definition k_compare_route (is_float is_nan : bool) : nat := %s.\n' % term)

    # BaseColumn._compare_value: keep the row id when op(val, other) is true; an exception counts as false
    fn = find_function(base, 'BaseColumn._compare_value')
    body = strip_docstrings(fn)
    if len(body) != 3:
        raise TranslationError('BaseColumn._compare_value: statement count')
    expect_same(body[0], '_rowid = Index(0)')
    expect_same(body[1],
                'for rowid, val in zip(self._rowid, self._seq):\n'
                '    try:\n'
                '        if op(val, other):\n'
                '            _rowid.append(rowid)\n'
                '    except:\n'
                '        pass', 'BaseColumn._compare_value loop')
    expect_same(body[2], 'return self._datamatrix._selectrowid(_rowid)')
    # BaseColumn._compare_nan, == branch
    fn = find_function(base, 'BaseColumn._compare_nan')
    body = strip_docstrings(fn)
    if len(body) != 3 or not isinstance(body[1], ast.If):
        raise TranslationError('_compare_nan: shape')
    expect_same(body[0], '_rowid = Index(0)')
    expect_same(body[1].test, 'op is operator.eq')
    eqb = body[1].body
    if len(eqb) != 1 or not isinstance(eqb[0], ast.For):
        raise TranslationError('_compare_nan: == branch')
    same_target(eqb[0].target, '(rowid, val)')
    expect_same(eqb[0].iter, 'zip(self._rowid, self._seq)')
    inner = eqb[0].body
    if len(inner) != 1 or not isinstance(inner[0], ast.If) or inner[0].orelse:
        raise TranslationError('_compare_nan: loop body')
    expect_same(inner[0].body[0], '_rowid.append(rowid)')
    t_keep = tr_typed(inner[0].test, Env([('isinstance(val, float)', 'is_float', 'bool'),
                                          ('math.isnan(val)', 'is_nan', 'bool')]), 'bool')
    expect_same(body[2], 'return self._datamatrix._selectrowid(_rowid)')
    out.append('(* _compare_nan with ==: keep the row? *)\n'
               'Definition k_cmpnan_keep (is_float is_nan : bool) : bool := %s.\n' % t_keep)

    # NumericColumn._compare_value: the mask b, per cell, for op = ==
    fn = find_function(num, 'NumericColumn._compare_value')
    body = strip_docstrings(fn)
    if len(body) != 4:
        raise TranslationError('NumericColumn._compare_value: statement count')
    expect_same(body[0], '_other = self._checktype(other)')
    expect_same(body[2], 'i = np.where(b)[0]')
    expect_same(body[3], 'return self._datamatrix._selectrowid(Index(self._rowid[i]))')
    cenv = Env([('np.isnan(self._seq)', 'cell_nan', 'bool'), ('self._seq == _other', 'cell_eq', 'bool'),
                ('op(self._seq, _other)', 'cell_eq', 'bool')])

    def eq_branch(stmts, what):
        """the expression assigned to b when op is operator.eq"""
        if len(stmts) == 1 and isinstance(stmts[0], ast.Assign):
            same_target(stmts[0].targets[0], 'b')
            return tr_typed(stmts[0].value, cenv, 'bool')
        if len(stmts) == 1 and isinstance(stmts[0], ast.If):
            expect_same(stmts[0].test, 'op is operator.eq', what)
            inner = stmts[0].body
            if len(inner) != 1 or not isinstance(inner[0], ast.Assign):
                raise TranslationError(what + ': == branch')
            same_target(inner[0].targets[0], 'b')
            return tr_typed(inner[0].value, cenv, 'bool')
        raise TranslationError(what + ': unexpected statements')

    top = body[1]
    if not isinstance(top, ast.If) or len(top.orelse) != 1 or not isinstance(top.orelse[0], ast.If):
        raise TranslationError('NumericColumn._compare_value: nan/inf/else chain')
    expect_same(top.test, 'math.isnan(_other)')
    mid = top.orelse[0]
    expect_same(mid.test, 'math.isinf(_other)')
    b_nan = eq_branch(top.body, 'nan branch')
    b_inf = eq_branch(mid.body, 'inf branch')
    b_else = eq_branch(mid.orelse, 'else branch')
    out.append('(* NumericColumn._compare_value with ==: is the cell selected? *)\n'
               'Definition k_num_eq_cell (other_nan other_inf cell_nan cell_eq : bool) : bool :=\n'
               '  if other_nan then %s else if other_inf then %s else %s.\n' % (b_nan, b_inf, b_else))
    # IntColumn.__eq__: a reference that is not an int selects nothing
    fn = find_function(num, 'IntColumn.__eq__')
    body = strip_docstrings(fn)
    if len(body) != 3 or not isinstance(body[2], ast.Try):
        raise TranslationError('IntColumn.__eq__: shape')
    expect_same(body[2].body[0], 'return super(IntColumn, self).__eq__(other)')
    h = body[2].handlers
    if len(h) != 1 or ast.unparse(h[0].type) != 'TypeError':
        raise TranslationError('IntColumn.__eq__: handler')
    expect_same(h[0].body[0], 'return self._compare_value(0, lambda x, y: np.zeros(len(self._datamatrix)))')
    # selection by row id (Model.SplitGroup.m_selectrowid / m_getrowidkey): the whole bodies are pinned, every part of
    # split and every group of group is fetched through them
    dmm = load(repo, 'datamatrix/_datamatrix/_datamatrix.py')

    def pin_body(mod, qual, want):
        b = strip_docstrings(find_function(mod, qual))
        if len(b) != len(want):
            raise TranslationError('%s: %d statements, expected %d' % (qual, len(b), len(want)))
        for st_, src in zip(b, want):
            expect_same(st_, src, qual)

    pin_body(dmm, 'DataMatrix._selectrowid',
             ['dm = DataMatrix(len(_rowid))', "object.__setattr__(dm, u'_rowid', _rowid)",
              "object.__setattr__(dm, u'_id', self._id)",
              'for name, col in self._cols.items():\n'
              '    dm._cols[name] = self._cols[name]._getrowidkey(_rowid)\n'
              '    dm._cols[name]._datamatrix = dm',
              'return dm'])
    pin_body(base, 'BaseColumn._getrowidkey',
             ['col = self._empty_col()', 'col._rowid = key',
              'col._seq = [self._seq[self._rowid.index(_rowid)] for _rowid in key]', 'return col'])
    pin_body(num, 'NumericColumn._getrowidkey',
             ['col = self._empty_col()', 'orig_indices = self._rowid_argsort()',
              'matching_indices = np.searchsorted(self._rowid[orig_indices], key)',
              'selected_indices = orig_indices[matching_indices]',
              'col._rowid = self._rowid[selected_indices]', 'col._seq = self._seq[selected_indices]', 'return col'])
    # what the selections and the by-name lookups (`dm[col.name]` in split, `bynames` in group) rely on, computed from
    # the CURRENT state on every call: the name of a column = the names under which the table holds this object now;
    # the argsort of a numeric column = the argsort of its current row ids (the remembered one is used only while the
    # bytes of the row ids are the same).  Whole bodies pinned: the model has no cache to go stale.
    pin_body(base, 'BaseColumn.name',
             ['l = [name for name, col in self._datamatrix.columns if col is self]',
              'if not l:\n    return None', 'if len(l) == 1:\n    return l[0]', 'return l'])
    pin_body(num, 'NumericColumn._rowid_argsort',
             ['try:\n    rowid_hash = self._rowid.tobytes()\nexcept AttributeError:\n'
              '    rowid_hash = self._rowid.tostring()',
              'if rowid_hash == self._rowid_argsort_cache[0]:\n    return self._rowid_argsort_cache[1]',
              'self._rowid_argsort_cache = (rowid_hash, self._rowid.argsort())',
              'return self._rowid_argsort_cache[1]'])
    # the unique properties
    fn = find_function(base, 'BaseColumn.unique')
    expect_same(strip_docstrings(fn)[0], 'return list(safe_sorted(set(self._seq)))', 'BaseColumn.unique')
    fn = find_function(num, 'NumericColumn.unique')
    expect_same(strip_docstrings(fn)[0], 'return np.unique(self._seq)', 'NumericColumn.unique')
    out.append('\n')

    # ------------------------------------------------------------------ operations.group
    fn = find_function(opsm, 'group')
    if [a.arg for a in fn.args.args] != ['dm', 'by']:
        raise TranslationError('group: signature')
    body = strip_docstrings(fn)
    if len(body) != 14:
        raise TranslationError('group: expected 14 statements, found %d' % len(body))
    expect_same(body[0], 'bycols = []')
    expect_same(body[1], 'bynames = []')
    byif = body[2]
    if not isinstance(byif, ast.If) or byif.orelse or len(byif.body) != 2:
        raise TranslationError('group: by-handling changed')
    expect_same(byif.test, 'by is not None')
    expect_same(byif.body[0], 'if isinstance(by, BaseColumn):\n    bynames = [by.name]\n    by = [by]')
    floop = byif.body[1]
    if not isinstance(floop, ast.For) or len(floop.body) != 3:
        raise TranslationError('group: loop over by-columns changed')
    same_target(floop.target, 'col')
    expect_same(floop.iter, 'by')
    g = floop.body[0]
    if not (isinstance(g, ast.If) and not g.orelse and len(g.body) == 1 and isinstance(g.body[0], ast.Raise)
            and ast.unparse(g.body[0].exc.func) == 'ValueError'):
        raise TranslationError('group: foreign by-column guard changed')
    t_foreign = tr_typed(g.test, Env([('col._datamatrix is not dm', '(negb same_dm)', 'bool')]), 'bool')
    ap = floop.body[1]
    if not (isinstance(ap, ast.Expr) and isinstance(ap.value, ast.Call) and ast.unparse(ap.value.func) == 'bycols.append'
            and len(ap.value.args) == 1 and isinstance(ap.value.args[0], ast.ListComp)):
        raise TranslationError('group: bycols.append([...]) changed')
    lc = ap.value.args[0]
    if len(lc.generators) != 1 or lc.generators[0].ifs or ast.unparse(lc.generators[0].target) != 'val' \
            or ast.unparse(lc.generators[0].iter) != 'col':
        raise TranslationError('group: key-cell comprehension changed')
    kenv = Env([('val != val', 'ne_self', 'bool'), ("u'nan'", 'nan_text', 'key'), ('val', 'val', 'key')])
    t_cell, _ = tr(lc.elt, kenv)
    expect_same(floop.body[2], 'bynames += [col.name]')
    out.append('(* group: by-column of another DataMatrix -> ValueError; the key cell of a by-value *)\n'
               'Definition k_group_foreign (same_dm : bool) : bool := %s.\n'
               'Definition k_group_keycell {A : Type} (ne_self : bool) (nan_text val : A) : A := %s.\n' % (t_foreign, t_cell))
    expect_same(body[3], 'keyids = {}')
    expect_same(body[4], 'bycol_hashed = IntColumn(datamatrix=dm)')
    # numbering of the keys
    asg = body[5]
    if not (isinstance(asg, ast.Assign) and ast.unparse(asg.targets[0]) == 'bycol_hashed[:]'
            and isinstance(asg.value, ast.ListComp) and len(asg.value.generators) == 1):
        raise TranslationError('group: key numbering changed')
    gen0 = asg.value.generators[0]
    same_target(gen0.target, 'key')
    expect_same(gen0.iter, 'zip(*bycols) if bycols else [()] * len(dm)')
    if gen0.ifs:
        raise TranslationError('group: key numbering has a filter')
    elt = asg.value.elt
    if not (isinstance(elt, ast.Call) and ast.unparse(elt.func) == 'keyids.setdefault' and len(elt.args) == 2
            and ast.unparse(elt.args[0]) == 'key'):
        raise TranslationError('group: keyids.setdefault(key, ...) changed')
    t_newid = tr_typed(elt.args[1], Env([('len(keyids)', 'nkeys', 'Z')]), 'Z')
    out.append('(* the number a new key gets *)\nDefinition k_group_newid (nkeys : Z) : Z := %s.\n' % t_newid)
    expect_same(body[6], 'keys = bycol_hashed.unique')
    expect_same(body[7], 'groupcols = [(name, col) for name, col in dm.columns if name not in bynames]')
    expect_same(body[8], 'nogroupcols = [(name, col) for name, col in dm.columns if name in bynames]')
    expect_same(body[9], 'cm = DataMatrix(length=len(keys))')
    expect_same(body[10],
                'for name, col in groupcols:\n'
                '    if isinstance(col, _SeriesColumn):\n'
                "        warn(u'Failed to create series for SeriesColumn s%s' % name)\n"
                '        continue\n'
                '    cm[name] = SeriesColumn(depth=0)')
    expect_same(body[11], 'for name, col in nogroupcols:\n    cm[name] = col.__class__')
    main = body[-2]
    if not isinstance(main, ast.For):
        raise TranslationError('group: main loop')
    same_target(main.target, '(i, key)')
    expect_same(main.iter, 'enumerate(keys)')
    if len(main.body) != 3:
        raise TranslationError('group: main loop body')
    expect_same(main.body[0], 'dm_ = bycol_hashed == int(key)')
    gl = main.body[1]
    if not isinstance(gl, ast.For) or len(gl.body) != 3:
        raise TranslationError('group: loop over grouped columns')
    same_target(gl.target, '(name, col)')
    expect_same(gl.iter, 'groupcols')
    expect_same(gl.body[0], 'if isinstance(col, _SeriesColumn):\n    continue')
    grow = gl.body[1]
    if not isinstance(grow, ast.If) or grow.orelse or len(grow.body) != 3:
        raise TranslationError('group: depth growth changed')
    denv = Env([('cm[name].depth', 'depth', 'Z'), ('len(dm_[name])', 'n', 'Z')])
    t_grow = tr_typed(grow.test, denv, 'bool')
    expect_same(grow.body[0], 'cm[name].defaultnan = True')
    nd = grow.body[1]
    if not (isinstance(nd, ast.Assign) and ast.unparse(nd.targets[0]) == 'cm[name].depth'):
        raise TranslationError('group: new depth')
    t_depth = tr_typed(nd.value, denv, 'Z')
    expect_same(grow.body[2], 'cm[name].defaultnan = False')
    tr_ = gl.body[2]
    if not isinstance(tr_, ast.Try) or len(tr_.body) != 1 or not isinstance(tr_.body[0], ast.Assign):
        raise TranslationError('group: series assignment')
    tgt = tr_.body[0].targets[0]
    expect_same(tr_.body[0].value, 'dm_[name]')
    if not (isinstance(tgt, ast.Subscript) and ast.unparse(tgt.value) == 'cm[name]' and isinstance(tgt.slice, ast.Tuple)
            and len(tgt.slice.elts) == 2 and ast.unparse(tgt.slice.elts[0]) == 'i'
            and isinstance(tgt.slice.elts[1], ast.Slice) and tgt.slice.elts[1].lower is None
            and tgt.slice.elts[1].step is None):
        raise TranslationError('group: series assignment target')
    t_fill = tr_typed(tgt.slice.elts[1].upper, denv, 'Z')
    out.append('(* series depth: grow? / new depth / number of leading cells written for a group of n rows *)\n'
               'Definition k_group_grow (depth n : Z) : bool := %s.\n'
               'Definition k_group_newdepth (depth n : Z) : Z := %s.\n'
               'Definition k_group_fill (depth n : Z) : Z := %s.\n' % (t_grow, t_depth, t_fill))
    bl = main.body[2]
    if not isinstance(bl, ast.For) or len(bl.body) != 1 or not isinstance(bl.body[0], ast.Assign):
        raise TranslationError('group: by-cell loop')
    expect_same(bl.iter, 'nogroupcols')
    same_target(bl.body[0].targets[0], 'cm[name][i]')
    v = bl.body[0].value
    if not (isinstance(v, ast.Subscript) and ast.unparse(v.value) == 'dm_[name]'):
        raise TranslationError('group: by-cell value')
    t_first = tr_typed(v.slice, Env([]), 'Z')
    out.append('(* the row of the group whose by-value is kept *)\nDefinition k_group_bycell_row : Z := %s.\n' % t_first)
    expect_same(body[-1], 'return cm')
    return ''.join(out)
