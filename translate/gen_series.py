"""series.py / _seriescolumn.py: index arithmetic and decisions of the series functions -> Gen/KSeries.v

What is translated (py2coq.tr, integers and booleans only): slice bounds, depth arithmetic, run-length tests.
What is pinned (expect_same): the statements that connect those fragments (loop headers, the fill values, the
calls that hand a row to a per-row helper).  Anything else raises TranslationError (fail closed)."""
import ast
from py2coq import TranslationError, Env, tr_typed, find_function, body_nodoc
from kernels_common import HEADER, load

FILE = 'KSeries.v'


def expect_same(node, src, what=''):
    """Pin: node must be exactly the statement/expression `src` (compared after ast.unparse, so that
    assignment targets and expressions are treated alike)."""
    try:
        ref = ast.parse(src).body
    except SyntaxError as e:
        raise TranslationError(str(e))
    if len(ref) != 1:
        raise TranslationError('pin is not one statement: %r' % src)
    ref = ref[0]
    if isinstance(ref, ast.Expr) and not isinstance(node, ast.Expr):
        ref = ref.value
    if node is None or ast.unparse(node) != ast.unparse(ref):
        raise TranslationError('pinned fragment changed%s: expected `%s`, found `%s`' % (
            (' (' + what + ')') if what else '', src, ast.unparse(node) if node is not None else None))


def _only(nodes, what):
    nodes = list(nodes)
    if len(nodes) != 1:
        raise TranslationError('%s: expected exactly one match, found %d' % (what, len(nodes)))
    return nodes[0]


def _slice2(sub, what):
    """`x[a, lo:hi]` -> (lo, hi) nodes (None when omitted)."""
    if not isinstance(sub, ast.Subscript) or not isinstance(sub.slice, ast.Tuple) or len(sub.slice.elts) != 2:
        raise TranslationError('%s: expected a two-dimensional subscript' % what)
    s = sub.slice.elts[1]
    if not isinstance(s, ast.Slice) or s.step is not None:
        raise TranslationError('%s: expected a plain slice on the depth axis' % what)
    return sub.slice.elts[0], s.lower, s.upper


def _slice1(sub, what):
    if not isinstance(sub, ast.Subscript) or not isinstance(sub.slice, ast.Slice) or sub.slice.step is not None:
        raise TranslationError('%s: expected a plain slice' % what)
    return sub.slice.lower, sub.slice.upper


def _z(node, env, what):
    if node is None:
        raise TranslationError('%s: missing slice bound' % what)
    return tr_typed(node, env, 'Z')


def _strip_int(node, what):
    if isinstance(node, ast.Call) and isinstance(node.func, ast.Name) and node.func.id == 'int' \
            and len(node.args) == 1 and not node.keywords:
        return node.args[0]
    raise TranslationError('%s: expected int(...)' % what)


def gen(repo):
    rel = 'datamatrix/series.py'
    tree = load(repo, rel)
    col = load(repo, 'datamatrix/_datamatrix/_seriescolumn.py')
    out = [HEADER % (rel + ', datamatrix/_datamatrix/_seriescolumn.py'),
           'From Coq Require Import ZArith List Bool.\nOpen Scope Z_scope.\n\n']

    def emit(name, params, ty, body, comment=None):
        if comment:
            out.append('(* %s *)\n' % comment.replace('*)', '* )').replace('(*', '( *'))
        out.append('Definition %s %s: %s := %s.\n' % (name, ''.join('(%s : Z) ' % p for p in params), ty, body))

    # ------------------------------------------------------------------ endlock
    fn = find_function(tree, 'endlock')
    body = body_nodoc(fn)
    expect_same(body[0], 'endlock_series = _SeriesColumn(series._datamatrix, series.depth)')
    expect_same(body[1], 'endlock_series[:] = np.nan')
    expect_same(body[2], 'src = series._seq')
    expect_same(body[3], 'dst = endlock_series._seq')
    loop = body[4]
    if not isinstance(loop, ast.For) or len(body) != 6:
        raise TranslationError('endlock: statement structure changed')
    expect_same(loop.target, 'rownr, row')
    expect_same(loop.iter, 'enumerate(src)')
    expect_same(body[5], 'return endlock_series')
    lb = loop.body
    if len(lb) != 3 or not isinstance(lb[0], ast.If) or not isinstance(lb[2], ast.For):
        raise TranslationError('endlock: row loop changed')
    expect_same(lb[0].test, 'np.all(np.isnan(row))')
    expect_same(lb[0].body[0], 'continue')
    expect_same(lb[1], 'nancols = np.where(np.isnan(row))[0]')
    inner = lb[2]
    expect_same(inner.target, 'nancol')
    expect_same(inner.iter, 'nancols')
    if len(inner.body) != 3 or not isinstance(inner.body[0], ast.If) or len(inner.orelse) != 1:
        raise TranslationError('endlock: nancol loop changed')
    expect_same(inner.orelse[0], 'dst[rownr] = row')
    expect_same(inner.body[0].body[0], 'continue')
    expect_same(inner.body[2], 'break')
    env = Env([('nancol', 'nancol', 'Z')])
    # test: np.any(~np.isnan(row[LO:]))
    t = inner.body[0].test
    ref = ast.parse('np.any(~np.isnan(row[0:]))', mode='eval').body
    try:
        sl = t.args[0].operand.args[0]
        lo, hi = _slice1(sl, 'endlock tail test')
        expect_same(sl.value, 'row')
        sl.slice.lower = ast.Constant(0)
        if ast.dump(t) != ast.dump(ref) or hi is not None:
            raise TranslationError('endlock: tail test changed')
    except (AttributeError, IndexError):
        raise TranslationError('endlock: tail test changed')
    emit('k_el_tail_lo', ['nancol'], 'Z', _z(lo, env, 'endlock tail'), 'endlock: row[LO:] must hold no valid sample')
    asg = inner.body[1]
    if not isinstance(asg, ast.Assign) or len(asg.targets) != 1:
        raise TranslationError('endlock: move statement changed')
    r0, dlo, dhi = _slice2(asg.targets[0], 'endlock destination')
    expect_same(asg.targets[0].value, 'dst')
    expect_same(r0, 'rownr')
    slo, shi = _slice1(asg.value, 'endlock source')
    expect_same(asg.value.value, 'row')
    if dhi is not None or slo is not None:
        raise TranslationError('endlock: expected dst[rownr, LO:] = row[:HI]')
    emit('k_el_dst_lo', ['nancol'], 'Z', _z(dlo, env, 'endlock dst'), 'endlock: dst[rownr, LO:] = row[:HI]')
    emit('k_el_src_hi', ['nancol'], 'Z', _z(shi, env, 'endlock src'))

    # ------------------------------------------------------------------ lock
    fn = find_function(tree, 'lock')
    body = body_nodoc(fn)
    tail = body[-5:]
    if len(body) != 7 or not isinstance(tail[0], ast.Try) or not isinstance(tail[3], ast.For):
        raise TranslationError('lock: statement structure changed')
    expect_same(tail[0].body[0], 'zero_point = int(max(lock))')
    comp = tail[1]
    if not (isinstance(comp, ast.Assign) and isinstance(comp.value, ast.ListComp) and len(comp.value.generators) == 1):
        raise TranslationError('lock: lpad comprehension changed')
    expect_same(comp.targets[0], 'lpad')
    expect_same(comp.value.generators[0].target, 'l')
    expect_same(comp.value.generators[0].iter, 'lock')
    if comp.value.generators[0].ifs:
        raise TranslationError('lock: lpad comprehension is filtered')
    env = Env([('zero_point', 'zero_point', 'Z'), ('l', 'l', 'Z')])
    emit('k_lock_lpad', ['zero_point', 'l'], 'Z', _z(_strip_int(comp.value.elt, 'lock lpad'), env, 'lock lpad'),
         'lock: left padding of a row (lock values are integers)')
    mk = tail[2]
    if not (isinstance(mk, ast.Assign) and isinstance(mk.value, ast.Call) and len(mk.value.args) == 2
            and not mk.value.keywords):
        raise TranslationError('lock: constructor call changed')
    expect_same(mk.targets[0], 'lock_series')
    expect_same(mk.value.func, '_SeriesColumn')
    expect_same(mk.value.args[0], 'series.dm')
    env = Env([('series.depth', 'depth', 'Z'), ('max(lpad)', 'maxlpad', 'Z')])
    emit('k_lock_depth', ['depth', 'maxlpad'], 'Z', _z(mk.value.args[1], env, 'lock depth'), 'lock: depth of the result')
    loop = tail[3]
    expect_same(loop.target, 'lpad, lock_row, orig_row')
    expect_same(loop.iter, 'zip(lpad, lock_series, series)')
    asg = _only(loop.body, 'lock loop body')
    if not isinstance(asg, ast.Assign):
        raise TranslationError('lock: loop body changed')
    expect_same(asg.value, 'orig_row')
    expect_same(asg.targets[0].value, 'lock_row')
    lo, hi = _slice1(asg.targets[0], 'lock slice')
    env = Env([('series.depth', 'depth', 'Z'), ('lpad', 'lpad', 'Z')])
    emit('k_lock_lo', ['lpad', 'depth'], 'Z', _z(lo, env, 'lock lo'), 'lock: lock_row[LO:HI] = orig_row')
    emit('k_lock_hi', ['lpad', 'depth'], 'Z', _z(hi, env, 'lock hi'))
    expect_same(tail[4], 'return lock_series, zero_point')

    # ------------------------------------------------------------------ threshold
    fn = find_function(tree, 'threshold')
    body = body_nodoc(fn)
    if len(body) != 4 or not isinstance(body[2], ast.For):
        raise TranslationError('threshold: statement structure changed')
    expect_same(body[0], 'threshold_series = _SeriesColumn(series._datamatrix, series.depth)')
    init = body[1]
    expect_same(init.targets[0], 'threshold_series[:]')
    expect_same(body[3], 'return threshold_series')
    loop = body[2]
    expect_same(loop.target, 'i, trace')
    expect_same(loop.iter, 'enumerate(series)')
    if len(loop.body) != 3 or not isinstance(loop.body[1], ast.For) or not isinstance(loop.body[2], ast.If):
        raise TranslationError('threshold: row loop changed')
    st0 = loop.body[0]
    expect_same(st0.targets[0], 'nhit')
    env0 = Env([])
    emit('k_thr_init', [], 'Z', tr_typed(st0.value, env0, 'Z'), 'threshold: run length at the start of a row')
    emit('k_thr_bg', [], 'Z', tr_typed(init.value, env0, 'Z'), 'threshold: background value')
    sm = loop.body[1]
    expect_same(sm.target, 'j, val')
    expect_same(sm.iter, 'enumerate(trace)')
    if len(sm.body) != 4 or sm.orelse:
        raise TranslationError('threshold: sample loop changed')
    expect_same(sm.body[0], 'hit = fnc(val)')
    ifhit = sm.body[1]
    if not isinstance(ifhit, ast.If) or ifhit.orelse or len(ifhit.body) != 2:
        raise TranslationError('threshold: hit branch changed')
    expect_same(ifhit.test, 'hit')
    expect_same(ifhit.body[1], 'continue')
    acc = ifhit.body[0]
    if not (isinstance(acc, ast.AugAssign) and isinstance(acc.target, ast.Name) and acc.target.id == 'nhit'):
        raise TranslationError('threshold: run counter changed')
    env = Env([('nhit', 'nhit', 'Z'), ('min_length', 'min_length', 'Z'), ('j', 'j', 'Z')])
    emit('k_thr_inc', ['nhit'], 'Z', tr_typed(ast.BinOp(ast.Name('nhit', ast.Load()), acc.op, acc.value), env, 'Z'),
         'threshold: a hit extends the run')

    def fill(ifst, tag):
        if not isinstance(ifst, ast.If) or ifst.orelse or len(ifst.body) != 1 or not isinstance(ifst.body[0], ast.Assign):
            raise TranslationError('threshold: %s fill changed' % tag)
        a = ifst.body[0]
        r0, lo, hi = _slice2(a.targets[0], 'threshold %s fill' % tag)
        expect_same(a.targets[0].value, 'threshold_series')
        expect_same(r0, 'i')
        return (tr_typed(ifst.test, env, 'bool'), _z(lo, env, tag), _z(hi, env, tag), tr_typed(a.value, env0, 'Z'))
    t1, lo1, hi1, v1 = fill(sm.body[2], 'inner')
    emit('k_thr_test', ['nhit', 'min_length'], 'bool', t1, 'threshold: a miss at index j closes a run of nhit samples')
    emit('k_thr_lo', ['j', 'nhit'], 'Z', lo1)
    emit('k_thr_hi', ['j', 'nhit'], 'Z', hi1)
    emit('k_thr_mark', [], 'Z', v1)
    rs = sm.body[3]
    expect_same(rs.targets[0], 'nhit')
    emit('k_thr_reset', [], 'Z', tr_typed(rs.value, env0, 'Z'))
    t2, lo2, hi2, v2 = fill(loop.body[2], 'end')
    emit('k_thr_end_test', ['nhit', 'min_length'], 'bool', t2, 'threshold: the row ends (j = last index) inside a run')
    emit('k_thr_end_lo', ['j', 'nhit'], 'Z', lo2)
    emit('k_thr_end_hi', ['j', 'nhit'], 'Z', hi2)
    emit('k_thr_end_mark', [], 'Z', v2)

    # ------------------------------------------------------------------ _downsample
    fn = find_function(tree, '_downsample')
    body = body_nodoc(fn)
    if len(body) != 2:
        raise TranslationError('_downsample: statement structure changed')
    a0 = body[0]
    expect_same(a0.targets[0], 'a')
    lo, hi = _slice1(a0.value, '_downsample trim')
    expect_same(a0.value.value, 'a')
    if lo is not None:
        raise TranslationError('_downsample: expected a[:N]')
    env = Env([('by', 'by_', 'Z'), ('a.shape[0]', 'n', 'Z')])
    emit('k_ds_keep', ['by_', 'n'], 'Z', _z(hi, env, '_downsample'), '_downsample: samples kept before reshape(-1, by)')
    expect_same(body[1], 'return fnc(a.reshape(-1, by), axis=1)')
    fn = find_function(tree, 'downsample')
    expect_same(body_nodoc(fn)[-1], 'return _map(series, _downsample, by=by, fnc=fnc)')

    # ------------------------------------------------------------------ concatenate
    fn = find_function(tree, 'concatenate')
    body = body_nodoc(fn)[-4:]
    mk = body[0]
    expect_same(mk, 'newseries = _SeriesColumn(series[0]._datamatrix, depth=sum(s.depth for s in series))')
    st = body[1]
    expect_same(st.targets[0], 'i')
    emit('k_cat_start', [], 'Z', tr_typed(st.value, Env([]), 'Z'), 'concatenate: first offset')
    loop = body[2]
    if not isinstance(loop, ast.For) or len(loop.body) != 2:
        raise TranslationError('concatenate: loop changed')
    expect_same(loop.target, 's')
    expect_same(loop.iter, 'series')
    asg = loop.body[0]
    expect_same(asg.value, 's')
    expect_same(asg.targets[0].value, 'newseries')
    r0, lo, hi = _slice2(asg.targets[0], 'concatenate slice')
    if not (isinstance(r0, ast.Slice) and r0.lower is None and r0.upper is None and r0.step is None):
        raise TranslationError('concatenate: expected newseries[:, LO:HI]')
    env = Env([('i', 'i', 'Z'), ('s.depth', 'sdepth', 'Z')])
    emit('k_cat_lo', ['i', 'sdepth'], 'Z', _z(lo, env, 'concatenate lo'), 'concatenate: newseries[:, LO:HI] = s')
    emit('k_cat_hi', ['i', 'sdepth'], 'Z', _z(hi, env, 'concatenate hi'))
    acc = loop.body[1]
    if not (isinstance(acc, ast.AugAssign) and isinstance(acc.target, ast.Name) and acc.target.id == 'i'):
        raise TranslationError('concatenate: offset update changed')
    emit('k_cat_next', ['i', 'sdepth'], 'Z',
         tr_typed(ast.BinOp(ast.Name('i', ast.Load()), acc.op, acc.value), env, 'Z'))
    expect_same(body[3], 'return newseries')

    # ------------------------------------------------------------------ normalize_time
    fn = find_function(tree, 'normalize_time')
    body = body_nodoc(fn)
    mk = [s for s in body if isinstance(s, ast.Assign) and ast.unparse(s.targets[0]) == 'series']
    mk = _only(mk, 'normalize_time constructor')
    if not (isinstance(mk.value, ast.Call) and len(mk.value.args) == 1 and len(mk.value.keywords) == 1
            and mk.value.keywords[0].arg == 'depth'):
        raise TranslationError('normalize_time: constructor call changed')
    expect_same(mk.value.func, '_SeriesColumn')
    expect_same(mk.value.args[0], 'dataseries.dm')
    env = Env([('int(max(timeseries.max))', 'maxt', 'Z')])
    emit('k_nt_depth', ['maxt'], 'Z', _z(mk.value.keywords[0].value, env, 'normalize_time depth'),
         'normalize_time: depth of the result (maxt = largest timestamp)')
    neg = [s for s in body if isinstance(s, ast.If) and 'positive' in ast.unparse(s)]
    expect_same(_only(neg, 'normalize_time sign check').test, 'max(timeseries.max) < 0 or min(timeseries.min) < 0')
    loop = _only([s for s in body if isinstance(s, ast.For)], 'normalize_time loop')
    lb = loop.body
    if len(lb) != 7:
        raise TranslationError('normalize_time: row loop changed')
    expect_same(lb[0], 'needle = timeseries._seq[row]')
    expect_same(lb[1], 'values = dataseries._seq[row]')
    expect_same(lb[2].test, 'len(needle) and np.isnan(needle)[-1]')
    expect_same(lb[2].body[0], 'needle = needle[:-1]')
    expect_same(lb[2].body[1], 'values = values[:-1]')
    expect_same(lb[3].test, 'np.any(np.isnan(needle))')
    expect_same(lb[4].test, 'not np.all(np.diff(needle) > 0)')
    expect_same(lb[5], 'indices = np.searchsorted(haystack, needle)')
    expect_same(lb[6], 'series._seq[row, indices] = values')

    # ------------------------------------------------------------------ window / baseline / fft / z / interpolate / _map
    fn = find_function(tree, 'window')
    body = body_nodoc(fn)
    expect_same(body[0].test, 'end is None')
    expect_same(body[0].body[0], 'end = series.depth')
    expect_same(body[1], 'return series[:, start:end]')
    fn = find_function(tree, 'baseline')
    body = body_nodoc(fn)[-4:]
    expect_same(body[0], 'baseline = reduce_(window(baseline, start=bl_start, end=bl_end), operation=reduce_fnc)')
    expect_same(body[1].test, "method == 'divisive'")
    expect_same(body[1].body[0], 'return series / baseline')
    expect_same(body[2].test, "method == 'subtractive'")
    expect_same(body[2].body[0], 'return series - baseline')
    fn = find_function(tree, 'fft')
    body = body_nodoc(fn)
    expect_same(body[0], 'newseries = _SeriesColumn(series._datamatrix, depth=series.depth)')
    expect_same(body[1], 'newseries[:] = np.fft.fft(series, axis=1)')
    expect_same(body[2].test, 'truncate')
    asg = body[2].body[0]
    expect_same(asg.targets[0], 'newseries.depth')
    emit('k_fft_depth', ['depth'], 'Z', tr_typed(asg.value, Env([('newseries.depth', 'depth', 'Z')]), 'Z'),
         'fft(truncate=True): new depth')
    expect_same(body_nodoc(find_function(tree, '_z'))[0], 'return (a - np.nanmean(a)) / np.nanstd(a)')
    expect_same(body_nodoc(find_function(tree, 'z'))[-1], 'return _map(series, _z)')
    expect_same(body_nodoc(find_function(tree, 'interpolate'))[-1], 'return ops.map_(_interpolate, series)')
    body = body_nodoc(find_function(tree, '_interpolate'))
    if len(body) != 7:
        raise TranslationError('_interpolate: statement structure changed')
    expect_same(body[0], 'y = np.copy(y)')
    expect_same(body[1], 'xnan = np.isnan(y)')
    env = Env([('np.sum(xnan)', 'nnan', 'Z'), ('len(y)', 'n', 'Z')])
    emit('k_ip_allnan', ['nnan', 'n'], 'bool', tr_typed(body[2].test, env, 'bool'), '_interpolate: nothing to anchor on')
    expect_same(body[2].body[-1], 'return y')
    expect_same(body[3], 'inan = np.where(xnan)')
    expect_same(body[4], 'x = np.arange(len(y))')
    expect_same(body[5], 'y[inan] = np.interp(x=inan, xp=x[~xnan], fp=y[~xnan])')
    expect_same(body[6], 'return y')
    body = body_nodoc(find_function(tree, '_map'))
    expect_same(body[0], 'f = lambda a: fnc_(a, **kwdict)')
    expect_same(body[1].test, 'isinstance(series, _SeriesColumn)')
    expect_same(body[1].body[0], 'return fnc.map_(f, series)')
    fn = find_function(tree, 'reduce')
    body = body_nodoc(fn)
    expect_same(body[-3], 'col = FloatColumn(series._datamatrix)')
    expect_same(body[-1], 'return col')

    # ------------------------------------------------------------------ _SeriesColumn._map, depth setter, slicing
    fn = find_function(col, '_SeriesColumn._map')
    body = body_nodoc(fn)
    if len(body) != 2 or not isinstance(body[0], ast.For) or len(body[0].body) != 3:
        raise TranslationError('_SeriesColumn._map: structure changed')
    expect_same(body[0].target, 'i, cell')
    expect_same(body[0].iter, 'enumerate(self)')
    expect_same(body[0].body[0], 'a = fnc(cell)')
    expect_same(body[0].body[1].test, 'not i')
    expect_same(body[0].body[1].body[0], 'newcol = _SeriesColumn(self.dm, depth=len(a))')
    expect_same(body[0].body[2], 'newcol[i] = a')
    expect_same(body[1], 'return newcol')
    cls = find_function(col, '_SeriesColumn')
    setter = None
    for ch in cls.body:
        if isinstance(ch, ast.FunctionDef) and ch.name == 'depth' and any(
                ast.unparse(d) == 'depth.setter' for d in ch.decorator_list):
            setter = ch
    if setter is None:
        raise TranslationError('_SeriesColumn.depth setter not found')
    body = body_nodoc(setter)
    if len(body) != 4 or not isinstance(body[0], ast.If) or not isinstance(body[1], ast.If):
        raise TranslationError('depth setter: structure changed')
    env = Env([('depth', 'depth', 'Z'), ('self._depth', 'old', 'Z')])
    emit('k_depth_same', ['depth', 'old'], 'bool', tr_typed(body[0].test, env, 'bool'), 'depth setter: nothing to do')
    expect_same(body[0].body[0], 'return')
    emit('k_depth_grow', ['depth', 'old'], 'bool', tr_typed(body[1].test, env, 'bool'), 'depth setter: pad')
    gb = body[1].body
    expect_same(gb[0], 'seq = np.zeros((len(self), depth), dtype=self.dtype)')
    expect_same(gb[1].test, 'self.defaultnan')
    expect_same(gb[1].body[0], 'seq[:] = np.nan')
    expect_same(gb[2], 'seq[:, :self._depth] = self._seq')
    expect_same(body[3], 'self._seq = self._seq[:, :depth]')

    # ------------------------------------------------------------------ state that outlives a call
    # "output row i is computed from input row i alone" also means: not from what was called before.  The only state
    # series.py keeps between calls is the lazily imported, memoised scipy.signal.butter inside _butter(); its cache
    # key is made of ALL arguments of the call (fnc.memoize, property C20).  Everything below is pinned so that a new
    # cache -- a module-level container, a function attribute, a mutable default argument, a decorator, another
    # memoize / global -- or a different set of key arguments refuses to generate.
    _pin_module_state(tree, 'series.py', funcs_only=True,
                      assigns=['butter = None', 'sosfilt = None', 'reduce_ = reduce'])
    _pin_module_state(col, '_seriescolumn.py', funcs_only=False, assigns=[])
    cls = find_function(col, '_SeriesColumn')
    for ch in cls.body:
        if isinstance(ch, ast.FunctionDef):
            continue
        if isinstance(ch, ast.Expr) and isinstance(ch.value, ast.Constant) and isinstance(ch.value.value, str):
            continue
        expect_same(ch, 'dtype = float', '_SeriesColumn class-level state')
    body = body_nodoc(find_function(tree, '_butter'))
    if len(body) != 4:
        raise TranslationError('_butter: statement structure changed')
    expect_same(body[0], 'global butter, sosfilt')
    expect_same(body[1], 'if butter is None:\n    from scipy.signal import butter, sosfilt\n    butter = fnc.memoize(butter)',
                '_butter: lazy import and memoisation of scipy.signal.butter')
    expect_same(body[2], "sos = butter(order, freq_range, btype=btype, fs=sampling_freq, output='sos')",
                '_butter: every parameter of the filter is an argument of the memoised call (= part of the cache key)')
    expect_same(body[3], 'return sosfilt(sos, signal)')
    if ast.unparse(find_function(tree, '_butter').args) != 'signal, freq_range, order, btype, sampling_freq':
        raise TranslationError('_butter: signature changed')
    for name, first, btype in (('filter_bandpass', 'freq_range', 'bandpass'), ('filter_highpass', 'freq_min', 'highpass'),
                               ('filter_lowpass', 'freq_max', 'lowpass')):
        fn = find_function(tree, name)
        body = body_nodoc(fn)
        if len(body) != 1:
            raise TranslationError('%s: statement structure changed' % name)
        if ast.unparse(fn.args) != 'series, %s, order=2, sampling_freq=None' % first:
            raise TranslationError('%s: signature changed: %s' % (name, ast.unparse(fn.args)))
        expect_same(body[0], "return _map(series, _butter, freq_range=%s, order=order, btype='%s', "
                             "sampling_freq=sampling_freq)" % (first, btype), name)
    body = body_nodoc(find_function(tree, 'smooth'))
    expect_same(body[-1], 'return _map(series, _smooth, winlen=winlen, wintype=wintype)')
    body = body_nodoc(find_function(tree, '_map'))
    if len(body) != 5:
        raise TranslationError('series._map: statement structure changed')
    fmod = load(repo, 'datamatrix/functional.py')
    body = body_nodoc(find_function(fmod, 'map_'))
    expect_same(body[0], "if not callable(fnc):\n    raise TypeError('fnc should be callable')")
    expect_same(body[1], 'if isinstance(obj, BaseColumn):\n    return obj._map(fnc)')
    return ''.join(out)


def _pin_module_state(tree, what, funcs_only, assigns):
    """The module keeps no state between calls except the listed assignments: module level = docstring, imports
    (possibly inside try/except ImportError), undecorated functions (classes unless funcs_only) and exactly the
    assignments `assigns`; exactly one use of memoize and one `global` statement are allowed in series.py (inside
    _butter, pinned there), none elsewhere; no default argument is a mutable object or the result of a call; only
    property / setter decorators on methods."""
    seen = []
    for node in tree.body:
        if isinstance(node, ast.Expr) and isinstance(node.value, ast.Constant) and isinstance(node.value.value, str):
            continue
        if isinstance(node, (ast.Import, ast.ImportFrom)):
            continue
        if isinstance(node, ast.Try) and all(isinstance(x, (ast.Import, ast.ImportFrom)) for x in node.body) and all(
                all(isinstance(x, (ast.Import, ast.ImportFrom)) or ast.unparse(x) == 'np = None' for x in h.body)
                for h in node.handlers) \
                and not node.orelse and not node.finalbody:
            continue
        if isinstance(node, ast.FunctionDef):
            continue
        if isinstance(node, ast.ClassDef) and not funcs_only:
            continue
        if isinstance(node, ast.Assign):
            seen.append(ast.unparse(node))
            continue
        raise TranslationError('%s: unexpected module-level statement `%s`' % (what, ast.unparse(node)[:80]))
    if sorted(seen) != sorted(ast.unparse(ast.parse(a).body[0]) for a in assigns):
        raise TranslationError('%s: module-level assignments changed (state that outlives a call?): %r' % (what, seen))
    n_memo = n_global = 0
    for node in ast.walk(tree):
        if (isinstance(node, ast.Attribute) and 'memoize' in node.attr) or (
                isinstance(node, ast.Name) and 'memoize' in node.id) or (
                isinstance(node, ast.alias) and 'memoize' in node.name):
            n_memo += 1
        if isinstance(node, (ast.Global, ast.Nonlocal)):
            n_global += 1
        if isinstance(node, (ast.FunctionDef, ast.Lambda)):
            a = node.args
            for dflt in list(a.defaults) + [x for x in a.kw_defaults if x is not None]:
                if not isinstance(dflt, (ast.Constant, ast.Name)) and not (
                        isinstance(dflt, ast.UnaryOp) and isinstance(dflt.operand, ast.Constant)):
                    raise TranslationError('%s: default argument `%s` of %s is not a constant or a name' % (
                        what, ast.unparse(dflt), getattr(node, 'name', 'lambda')))
        if isinstance(node, ast.FunctionDef):
            for dec in node.decorator_list:
                if ast.unparse(dec) not in ('property', 'depth.setter'):
                    raise TranslationError('%s: decorator `%s` on %s' % (what, ast.unparse(dec), node.name))
        if isinstance(node, ast.ClassDef) and node.decorator_list:
            raise TranslationError('%s: decorated class %s' % (what, node.name))
    allowed = (1, 1) if funcs_only else (0, 0)
    if (n_memo, n_global) != allowed:
        raise TranslationError('%s: %d uses of memoize and %d global/nonlocal statements (expected %d and %d)' % (
            (what, n_memo, n_global) + allowed))
