"""_datamatrix.py / _index.py / _basecolumn.py: integer and decision kernels of the DataMatrix core -> Gen/KCore.v"""
import ast
from py2coq import TranslationError, Env, tr_typed, find_function, body_nodoc, expect_same
from kernels_common import HEADER, load

FILE = 'KCore.v'


def the_if(stmts, k, what):
    if k >= len(stmts) or not isinstance(stmts[k], ast.If):
        raise TranslationError('%s: statement %d is not an if' % (what, k))
    return stmts[k]


def gen(repo):
    out = [HEADER % 'datamatrix/_datamatrix/_datamatrix.py, _index.py, _basecolumn.py',
           'From Coq Require Import ZArith Bool.\nOpen Scope Z_scope.\n\n']
    dmod = load(repo, 'datamatrix/_datamatrix/_datamatrix.py')
    imod = load(repo, 'datamatrix/_datamatrix/_index.py')
    bmod = load(repo, 'datamatrix/_datamatrix/_basecolumn.py')

    # ---- DataMatrix._setlength -------------------------------------------------------
    fn = find_function(dmod, 'DataMatrix._setlength')
    body = body_nodoc(fn)
    top = the_if(body, 0, '_setlength')
    env = Env([('value', 'value', 'Z'), ('len(self)', 'len', 'Z')])
    out.append('Definition k_setlength_shrinks (value len : Z) : bool := %s.\n' % tr_typed(top.test, env, 'bool'))
    # shrink branch: pinned skeleton
    expect_same(top.body[0], "object.__setattr__(self, u'_rowid', self._rowid[:value])")
    loop = top.body[1]
    if not isinstance(loop, ast.For):
        raise TranslationError('_setlength: shrink loop')
    expect_same(loop.body[0], 'self._cols[name] = self._cols[name][:value]')
    expect_same(loop.body[-1], 'self._cols[name]._datamatrix = self')
    # grow branch
    g = top.orelse
    if len(g) != 4:
        raise TranslationError('_setlength: grow branch has %d statements' % len(g))
    a0 = g[0]
    if not (isinstance(a0, ast.Assign) and ast.unparse(a0.targets[0]) == 'startid'):
        raise TranslationError('_setlength: startid assignment')
    env = Env([('not len(self)', '(Z.eqb len 0)', 'bool'), ('self._rowid.max', 'rowid_max', 'Z')])
    out.append('Definition k_startid (len rowid_max : Z) : Z := %s.\n' % tr_typed(a0.value, env, 'Z'))
    a1 = g[1]
    # rowid = Index([i+startid for i in range(value-len(self))])
    try:
        comp = a1.value.args[0]
        assert isinstance(comp, ast.ListComp) and len(comp.generators) == 1
        gen0 = comp.generators[0]
        assert ast.unparse(gen0.target) == 'i' and not gen0.ifs
        assert isinstance(gen0.iter, ast.Call) and ast.unparse(gen0.iter.func) == 'range' and len(gen0.iter.args) == 1
        assert ast.unparse(a1.value.func) == 'Index' and ast.unparse(a1.targets[0]) == 'rowid'
    except (AssertionError, AttributeError, IndexError):
        raise TranslationError('_setlength: fresh id comprehension changed: %s' % ast.unparse(a1))
    env = Env([('i', 'i', 'Z'), ('startid', 'startid', 'Z')])
    out.append('Definition k_fresh_id (i startid : Z) : Z := %s.\n' % tr_typed(comp.elt, env, 'Z'))
    env = Env([('value', 'value', 'Z'), ('len(self)', 'len', 'Z')])
    out.append('Definition k_fresh_count (value len : Z) : Z := %s.\n' % tr_typed(gen0.iter.args[0], env, 'Z'))
    expect_same(g[2], "object.__setattr__(self, u'_rowid', self._rowid.copy()+rowid)")
    if not isinstance(g[3], ast.For):
        raise TranslationError('_setlength: grow loop')
    expect_same(g[3].iter, '{id(col): col for col in self._cols.values()}.values()')
    expect_same(g[3].body[0], 'col._addrowid(rowid)')

    # ---- DataMatrix._getrow ------------------------------------------------------------
    fn = find_function(dmod, 'DataMatrix._getrow')
    body = body_nodoc(fn)
    t = the_if(body, 0, '_getrow')
    env = Env([('key', 'key', 'Z'), ('len(self)', 'len', 'Z')])
    out.append('Definition k_getrow_oob (key len : Z) : bool := %s.\n' % tr_typed(t.test, env, 'bool'))
    expect_same(t.body[0], "raise IndexError('row index out of range')")
    expect_same(body[1], 'return Row(self, key)')

    # ---- BaseColumn._setsequencekey: range test inside the write loop -------------------
    fn = find_function(bmod, 'BaseColumn._setsequencekey')
    body = body_nodoc(fn)
    if len(body) != 1 or not isinstance(body[0], ast.For):
        raise TranslationError('_setsequencekey: expected one for loop')
    loop = body[0]
    expect_same(loop.iter, 'zip(key, self._tosequence(val, len(key)))')
    t = the_if(loop.body, 0, '_setsequencekey')
    env = Env([('_key', 'key', 'Z'), ('len(self)', 'len', 'Z')])
    out.append('Definition k_seqkey_oob (key len : Z) : bool := %s.\n' % tr_typed(t.test, env, 'bool'))
    expect_same(t.body[0], "raise Exception('Outside of range')")
    expect_same(loop.body[1], 'self._seq[_key] = _val')

    # ---- DataMatrix.rename: the guard chain, in its order ---------------------------------
    fn = find_function(dmod, 'DataMatrix.rename')
    body = body_nodoc(fn)
    env = Env([('old == new', 'same', 'bool'), ('old not in self._cols', '(negb old_in)', 'bool'),
               ('new in self._cols', 'new_in', 'bool'), ('isinstance(new, basestring)', 'is_str', 'bool'),
               ('new.isidentifier()', 'is_ident', 'bool'), ('keyword.iskeyword(new)', 'is_kw', 'bool')])
    t0, t1, t2, t3 = (the_if(body, 0, 'rename'), the_if(body, 1, 'rename'), the_if(body, 2, 'rename'),
                      the_if(body, 3, 'rename'))
    expect_same(t0.body[0], "raise ValueError(u'Column name does not exist')")
    expect_same(t1.body[0], 'return')
    expect_same(t2.body[0], "raise ValueError(u'Column name already exists')")
    expect_same(t3.body[0], "raise ValueError(u'Invalid column name')")
    out.append('(* 0 = nothing to do, 1 = ValueError, 2 = rename *)\n'
               'Definition k_rename_decision (same old_in new_in is_str is_ident is_kw : bool) : Z :=\n'
               '  if %s then 1 else if %s then 0 else if %s then 1 else if %s then 1 else 2.\n' % (
                   tr_typed(t0.test, env, 'bool'), tr_typed(t1.test, env, 'bool'), tr_typed(t2.test, env, 'bool'),
                   tr_typed(t3.test, env, 'bool')))
    # the rename recipe keeps the position
    expect_same(body[4], '_cols = OrderedDict([(new, v) if k == old else (k, v) for k, v in self._cols.items()])')

    # ---- DataMatrix._set_col: a column object as the value --------------------------------------
    fn = find_function(dmod, 'DataMatrix._set_col')
    body = body_nodoc(fn)
    colbr = None
    for st in body:
        if isinstance(st, ast.If) and ast.unparse(st.test) == 'isinstance(value, BaseColumn)':
            colbr = st
    if colbr is None or len(colbr.body) != 3 or colbr.orelse:
        raise TranslationError('_set_col: the branch for column values changed')
    byref, lencheck, fresh = colbr.body
    if not isinstance(byref, ast.If) or byref.orelse:
        raise TranslationError('_set_col: by-reference test')
    env = Env([('value._datamatrix is self', 'same_owner', 'bool'),
               ('any((value is col for col in self._cols.values()))', 'is_own_column', 'bool'),
               ('len(value) == len(self)', 'same_len', 'bool'),
               ('all((i == j for i, j in zip(value._rowid, self._rowid)))', 'same_ids', 'bool')])
    out.append('(* DataMatrix._set_col with a column as the value: inserted by reference (alias) or copied *)\n'
               'Definition k_setcol_byref (same_owner is_own_column same_len same_ids : bool) : bool := %s.\n'
               % tr_typed(byref.test, env, 'bool'))
    expect_same(byref.body[0], 'self._cols[name] = value')
    expect_same(byref.body[1], 'return')
    if not isinstance(lencheck, ast.If) or lencheck.orelse:
        raise TranslationError('_set_col: length check')
    env = Env([('len(value)', 'vlen', 'Z'), ('len(self)', 'len', 'Z')])
    out.append('Definition k_setcol_badlen (vlen len : Z) : bool := %s.\n' % tr_typed(lencheck.test, env, 'bool'))
    if not (isinstance(lencheck.body[0], ast.Raise) and ast.unparse(lencheck.body[0].exc.func) == 'ValueError'):
        raise TranslationError('_set_col: length check must raise ValueError')
    expect_same(fresh, 'self._cols[name] = value._empty_col(datamatrix=self)')
    # the tail: the (new) column receives the value through a whole-column slice assignment
    tail = [ast.unparse(st) for st in body[body.index(colbr) + 1:]]
    if tail[-2:] != ['self._cols[name][:] = value', 'self._mutate()']:
        raise TranslationError('_set_col: the tail no longer assigns the whole column by slice: %r' % (tail[-2:],))

    # ---- BaseColumn._tosequence: how much of the value is read, and the length test ----------------
    fn = find_function(bmod, 'BaseColumn._tosequence')
    body = body_nodoc(fn)
    if len(body) != 6:
        raise TranslationError('_tosequence: %d statements, expected 6' % len(body))
    expect_same(body[0], 'if length is None:\n    length = len(self._datamatrix)')
    sc = the_if(body, 1, '_tosequence')
    expect_same(sc.test, 'value is None or isinstance(value, BASESTRING_OR_NUMBER)')
    expect_same(sc.body[0], 'return [self._checktype(value)] * length')
    if not isinstance(body[2], ast.Try):
        raise TranslationError('_tosequence: iterability test')
    expect_same(body[2].body[0], 'iter(value)')
    asg = body[3]
    try:
        comp = asg.value
        assert isinstance(comp, ast.ListComp) and ast.unparse(comp.elt) == 'self._checktype(cell)'
        g0 = comp.generators[0]
        assert ast.unparse(g0.target) == 'cell' and not g0.ifs
        call = g0.iter
        assert ast.unparse(call.func) == 'itertools.islice' and len(call.args) == 3
        assert ast.unparse(call.args[0]) == 'value' and ast.unparse(call.args[1]) == '0'
        assert ast.unparse(asg.targets[0]) == 'seq'
    except (AssertionError, AttributeError, IndexError):
        raise TranslationError('_tosequence: the coercing comprehension changed: %s' % ast.unparse(asg))
    env = Env([('length', 'length', 'Z')])
    out.append('(* BaseColumn._tosequence: cells read from the value (islice bound), and the length test *)\n'
               'Definition k_toseq_take (length : Z) : Z := %s.\n' % tr_typed(call.args[2], env, 'Z'))
    bad = the_if(body, 4, '_tosequence')
    env = Env([('len(seq)', 'seqlen', 'Z'), ('length', 'length', 'Z')])
    out.append('Definition k_toseq_badlen (seqlen length : Z) : bool := %s.\n' % tr_typed(bad.test, env, 'bool'))
    if not (isinstance(bad.body[0], ast.Raise) and ast.unparse(bad.body[0].exc.func) == 'ValueError'):
        raise TranslationError('_tosequence: a wrong length must raise ValueError')
    expect_same(body[5], 'return seq')

    # ---- DataMatrix.__lshift__: the length of the result and the two slice bounds ------------------
    fn = find_function(dmod, 'DataMatrix.__lshift__')
    body = body_nodoc(fn)
    if len(body) != 6:
        raise TranslationError('__lshift__: %d statements, expected 6' % len(body))
    expect_same(body[0], 'if isinstance(other, dict):\n    other = DataMatrix()._fromdict(other)\nelif isinstance(other, Row):\n    other = other.as_slice')
    a0 = body[1]
    if not (isinstance(a0, ast.Assign) and ast.unparse(a0.targets[0]) == 'dm' and isinstance(a0.value, ast.Call)
            and ast.unparse(a0.value.func) == 'DataMatrix' and len(a0.value.args) == 1 and not a0.value.keywords):
        raise TranslationError('__lshift__: result allocation changed: %s' % ast.unparse(a0))
    env = Env([('len(self)', 'len_self', 'Z'), ('len(other)', 'len_other', 'Z')])
    out.append('(* DataMatrix.__lshift__: rows of the result, where the left cells stop and where the right cells start *)\n'
               'Definition k_concat_len (len_self len_other : Z) : Z := %s.\n' % tr_typed(a0.value.args[0], env, 'Z'))
    l1, l2, l3 = body[2], body[3], body[4]
    if not (isinstance(l1, ast.For) and ast.unparse(l1.iter) == 'self._cols.items()' and ast.unparse(l1.target) == '(name, col)'):
        raise TranslationError('__lshift__: first loop header')
    st = [ast.unparse(x) for x in l1.body]
    if len(st) != 4 or st[1] != 'dm[name]._typechecking = False' or st[3] != 'dm[name]._datamatrix = dm':
        raise TranslationError('__lshift__: first loop body changed: %r' % (st,))
    expect_same(l1.body[0], "if hasattr(col, 'depth'):\n    dm[name] = col.__class__(dm, col.depth, col.defaultnan)\nelse:\n    dm[name] = col.__class__")
    fill = l1.body[2]
    try:
        assert isinstance(fill, ast.Assign) and ast.unparse(fill.value) == 'self[name]'
        sub = fill.targets[0]
        assert ast.unparse(sub.value) == 'dm[name]' and isinstance(sub.slice, ast.Slice)
        assert sub.slice.lower is None and sub.slice.step is None
        out.append('Definition k_concat_left_stop (len_self : Z) : Z := %s.\n' % tr_typed(sub.slice.upper, env, 'Z'))
    except (AssertionError, AttributeError):
        raise TranslationError('__lshift__: left fill changed: %s' % ast.unparse(fill))
    if not (isinstance(l2, ast.For) and ast.unparse(l2.iter) == 'other._cols.items()' and ast.unparse(l2.target) == '(name, col)'):
        raise TranslationError('__lshift__: second loop header')
    if len(l2.body) != 3:
        raise TranslationError('__lshift__: second loop body has %d statements' % len(l2.body))
    br = l2.body[0]
    if not (isinstance(br, ast.If) and ast.unparse(br.test) == 'name not in dm._cols'):
        raise TranslationError('__lshift__: membership test of the second loop')
    stn = [ast.unparse(x) for x in br.body]
    if len(stn) != 2 or stn[1] != 'dm[name]._typechecking = False':
        raise TranslationError('__lshift__: new-column branch changed')
    tychk = br.orelse[0]
    expect_same(tychk, "if type(dm[name]) != type(other[name]):\n    raise TypeError(u'Non-matching type for column %s' % name)")
    fill2 = l2.body[1]
    try:
        assert isinstance(fill2, ast.Assign) and ast.unparse(fill2.value) == 'other[name]'
        sub = fill2.targets[0]
        assert ast.unparse(sub.value) == 'dm[name]' and isinstance(sub.slice, ast.Slice)
        assert sub.slice.upper is None and sub.slice.step is None
        out.append('Definition k_concat_right_start (len_self : Z) : Z := %s.\n' % tr_typed(sub.slice.lower, env, 'Z'))
    except (AssertionError, AttributeError):
        raise TranslationError('__lshift__: right fill changed: %s' % ast.unparse(fill2))
    expect_same(l2.body[2], 'dm[name]._datamatrix = dm')
    expect_same(l3, 'for colname, col in dm.columns:\n    col._typechecking = True')
    expect_same(body[5], 'return dm')

    # ---- DataMatrix.__getitem__: which operation a key of which Python type selects ---------------
    fn = find_function(dmod, 'DataMatrix.__getitem__')
    body = body_nodoc(fn)
    if len(body) != 6:
        raise TranslationError('__getitem__: %d statements, expected 6' % len(body))
    env = Env([('isinstance(key, BaseColumn)', 'is_col', 'bool'), ('isinstance(key, basestring)', 'is_str', 'bool'),
               ('isinstance(key, int)', 'is_int', 'bool'), ('isinstance(key, slice)', 'is_slice', 'bool'),
               ('isinstance(key, Sequence)', 'is_seq', 'bool'),
               ('all((isinstance(v, (basestring, BaseColumn)) for v in key))', 'all_names', 'bool')])
    targets = ['return self._getcolbyobject(key)', 'return self._getcolbyname(key)', 'return self._getrow(key)',
               'return self._slice(key)']
    tests = []
    for k in range(4):
        t = the_if(body, k, '__getitem__')
        if t.orelse:
            raise TranslationError('__getitem__: unexpected else')
        expect_same(t.body[0], targets[k])
        tests.append(tr_typed(t.test, env, 'bool'))
    t = the_if(body, 4, '__getitem__')
    tests.append(tr_typed(t.test, env, 'bool'))
    inner = the_if(t.body, 0, '__getitem__ (sequence branch)')
    tests.append(tr_typed(inner.test, env, 'bool'))
    expect_same(inner.body[-1], 'return ops.keep_only(self, *key)')
    expect_same(t.body[1], 'return self._slice(key)')
    if not isinstance(body[5], ast.Raise) or ast.unparse(body[5].exc.func) != 'KeyError':
        raise TranslationError('__getitem__: the fall-through must raise KeyError')
    out.append('(* DataMatrix.__getitem__: 0 column by object, 1 column by name, 2 row, 3 rows by slice, 4 keep_only (columns),\n'
               '   5 rows by index list, 6 KeyError *)\n'
               'Definition k_getitem_dispatch (is_col is_str is_int is_slice is_seq all_names : bool) : Z :=\n'
               '  if %s then 0 else if %s then 1 else if %s then 2 else if %s then 3\n'
               '  else if %s then (if %s then 4 else 5) else 6.\n' % tuple(tests))
    # _slice: positional selection of the row ids and of every column, same family
    fn = find_function(dmod, 'DataMatrix._slice')
    body = [ast.unparse(x) for x in body_nodoc(fn)]
    want = ['_rowid = self._rowid[key]', 'dm = DataMatrix(len(_rowid))', "object.__setattr__(dm, u'_rowid', _rowid)",
            "object.__setattr__(dm, u'_id', self._id)",
            'for name, col in self._cols.items():\n    dm._cols[name] = self._cols[name][key]\n    dm._cols[name]._datamatrix = dm',
            'return dm']
    if body != want:
        raise TranslationError('_slice changed: %r' % (body,))

    # ---- Index: cache bookkeeping -----------------------------------------------------------
    fn = find_function(imod, 'Index.__init__')
    body = body_nodoc(fn)
    first = the_if(body, 0, 'Index.__init__')
    expect_same(first.test, 'isinstance(start, int)')
    expect_same(first.body[0], "self._a = array.array('I', range(start))")
    mx = [s for s in first.body if isinstance(s, ast.Assign) and ast.unparse(s.targets[0]) == 'self._max']
    if len(mx) != 1:
        raise TranslationError('Index.__init__: _max assignment')
    env = Env([('start', 'start', 'Z')])
    out.append('Definition k_index_init_max (start : Z) : Z := %s.\n' % tr_typed(mx[0].value, env, 'Z'))
    fn = find_function(imod, 'Index.append')
    body = body_nodoc(fn)
    expect_same(body[0], 'self._a.append(i)')
    expect_same(body[2], 'self._metaindex = None')
    t = the_if(body, 3, 'Index.append')
    env = Env([('i', 'i', 'Z'), ('self._max', 'cur', 'Z')])
    expect_same(t.body[0], 'self._max = i')
    out.append('Definition k_append_max (i cur : Z) : Z := if %s then i else cur.\n' % tr_typed(t.test, env, 'bool'))
    # __setitem__ and __add__ must drop / not share the caches (pinned: these are the repaired defects)
    fn = find_function(imod, 'Index.__setitem__')
    body = body_nodoc(fn)
    expect_same(body[0], 'self._a[index] = item')
    expect_same(body[1], 'self._metaindex = None')
    expect_same(body[2], 'self._max = None')
    fn = find_function(imod, 'Index.__add__')
    body = body_nodoc(fn)
    expect_same(body[0], 'i = Index(self._a)')
    expect_same(body[1], 'i._a.extend(other)')
    expect_same(body[-1], 'return i')
    fn = find_function(imod, 'Index.index')
    body = body_nodoc(fn)
    t = the_if(body, 0, 'Index.index')
    expect_same(t.test, 'self._metaindex is None')
    expect_same(t.body[0], 'self._metaindex = {rowid: index for index, rowid in enumerate(self._a)}')
    expect_same(body[1], 'return self._metaindex[i]')

    # ---- the id-lookup sites (pinned): which container is searched with which key ---------------
    fn = find_function(bmod, 'BaseColumn._getrowidkey')
    body = body_nodoc(fn)
    expect_same(body[1], 'col._rowid = key')
    expect_same(body[2], 'col._seq = [self._seq[self._rowid.index(_rowid)] for _rowid in key]')
    fn = find_function(dmod, 'DataMatrix._selectrowid')
    body = body_nodoc(fn)
    expect_same(body[0], 'dm = DataMatrix(len(_rowid))')
    expect_same(body[1], "object.__setattr__(dm, u'_rowid', _rowid)")
    expect_same(body[2], "object.__setattr__(dm, u'_id', self._id)")
    loop = body[3]
    expect_same(loop.body[0], 'dm._cols[name] = self._cols[name]._getrowidkey(_rowid)')
    expect_same(loop.body[1], 'dm._cols[name]._datamatrix = dm')
    return ''.join(out)
