"""operations.py (weight, _fullfact, fullfactorial, replace, keep_only, z) and the mean/std formulas z relies on
-> Gen/KOpsMisc.v

Arithmetic / decision fragments are translated (py2coq.tr); the loop skeletons around them are pinned
(expect_same) so that a changed binding structure fails the translation instead of being silently ignored."""
import ast
from py2coq import TranslationError, Env, tr, tr_typed, find_function, body_nodoc, expect_same, dump, parse_expr
from kernels_common import HEADER, load

FILE = 'KOpsMisc.v'


def _args(fn, expected, vararg=None, defaults=None):
    names = [a.arg for a in fn.args.args]
    va = fn.args.vararg.arg if fn.args.vararg else None
    if names != expected or va != vararg or fn.args.kwarg or fn.args.kwonlyargs:
        raise TranslationError('%s: signature (%s, *%s), expected (%s, *%s)' % (fn.name, names, va, expected, vararg))
    if defaults is not None:
        got = [ast.unparse(d) for d in fn.args.defaults]
        if got != defaults:
            raise TranslationError('%s: defaults %s, expected %s' % (fn.name, got, defaults))


def _aug(node, target, env, ops):
    """`target OP= expr`  ->  Coq text of  target OP expr  (Z)."""
    if not (isinstance(node, ast.AugAssign) and isinstance(node.target, ast.Name) and node.target.id == target):
        raise TranslationError('expected augmented assignment to %s, found `%s`' % (target, ast.unparse(node)))
    if not isinstance(node.op, ops):
        raise TranslationError('operator of `%s` outside the grammar' % ast.unparse(node))
    return tr_typed(ast.BinOp(ast.Name(target, ast.Load()), node.op, node.value), env, 'Z')


def _for(node, target_src, iter_src, nbody=None):
    if not isinstance(node, ast.For) or node.orelse:
        raise TranslationError('expected a for loop, found `%s`' % ast.unparse(node).split('\n')[0])
    if ast.unparse(node.target) != ast.unparse(parse_expr(target_src)):
        raise TranslationError('loop target `%s`, expected `%s`' % (ast.unparse(node.target), target_src))
    if iter_src is not None and ast.unparse(node.iter) != ast.unparse(parse_expr(iter_src)):
        raise TranslationError('loop iterable `%s`, expected `%s`' % (ast.unparse(node.iter), iter_src))
    if nbody is not None and len(node.body) != nbody:
        raise TranslationError('loop body of `for %s` has %d statements, expected %d' % (target_src, len(node.body), nbody))
    return node.body


def _range_arg(node):
    if not (isinstance(node, ast.Call) and isinstance(node.func, ast.Name) and node.func.id == 'range'
            and len(node.args) == 1 and not node.keywords):
        raise TranslationError('expected range(<expr>), found `%s`' % ast.unparse(node))
    return node.args[0]


def _qexpr(node, env):
    """Rational expressions: py2coq's Q fragment plus  X ** 2  ->  X * X."""
    if isinstance(node, ast.BinOp) and isinstance(node.op, ast.Pow):
        if not (isinstance(node.right, ast.Constant) and node.right.value == 2 and type(node.right.value) is int):
            raise TranslationError('power other than **2 in %s' % ast.unparse(node))
        x = _qexpr(node.left, env)
        return '(Qmult %s %s)' % (x, x)
    if isinstance(node, ast.BinOp) and env.lookup(node) is None:
        l, r = node.left, node.right
        lt = _qexpr(l, env)
        rt = _qexpr(r, env)
        ops = {ast.Add: 'Qplus', ast.Sub: 'Qminus', ast.Mult: 'Qmult', ast.Div: 'Qdiv'}
        f = ops.get(type(node.op))
        if f is None:
            raise TranslationError('Q operator %s' % ast.unparse(node))
        return '(%s %s %s)' % (f, lt, rt)
    text, ty = tr(node, env)
    if ty == 'Q':
        return text
    if ty == 'Z':
        return '(inject_Z %s)' % text
    raise TranslationError('expected a number: %s' % ast.unparse(node))


def gen_fullfact(tree, out):
    fn = find_function(tree, '_fullfact')
    _args(fn, ['levels'])
    b = body_nodoc(fn)
    if len(b) != 8:
        raise TranslationError('_fullfact: %d statements, expected 8' % len(b))
    expect_same(b[0], 'import numpy as np')
    expect_same(b[1], 'n = len(levels)')
    expect_same(b[2], 'nb_lines = np.prod(levels)')
    t = b[3]
    if not isinstance(t, ast.Try) or len(t.body) != 1:
        raise TranslationError('_fullfact: allocation')
    expect_same(t.body[0], 'H = np.zeros((nb_lines, n))')
    env0 = Env([('np.prod(levels)', 'prod_levels', 'Z')])
    for st, name in ((b[4], 'level_repeat'), (b[5], 'range_repeat')):
        if not (isinstance(st, ast.Assign) and len(st.targets) == 1 and ast.unparse(st.targets[0]) == name):
            raise TranslationError('_fullfact: initialisation of %s' % name)
        out.append('Definition k_ff_%s_init (prod_levels : Z) : Z := %s.\n' % (name, tr_typed(st.value, env0, 'Z')))
    body = _for(b[6], 'i', 'range(n)', 5)
    env = Env([('levels[i]', 'level', 'Z'), ('range_repeat', 'range_repeat', 'Z'), ('level_repeat', 'level_repeat', 'Z')])
    out.append('(* _fullfact: update of range_repeat at the start of iteration i *)\n'
               'Definition k_ff_range_step (range_repeat level : Z) : Z := %s.\n'
               % _aug(body[0], 'range_repeat', env, (ast.FloorDiv, ast.Mult, ast.Add, ast.Sub)))
    expect_same(body[1], 'lvl = []')
    t = body[2]
    if not isinstance(t, ast.Try) or len(t.body) != 2 or t.orelse or t.finalbody:
        raise TranslationError('_fullfact: level construction')
    inner = _for(t.body[0], 'j', None, 1)
    out.append('(* _fullfact: for j in range(COUNT) *)\n'
               'Definition k_ff_lvl_count (level : Z) : Z := %s.\n' % tr_typed(_range_arg(t.body[0].iter), env, 'Z'))
    acc = inner[0]
    if not (isinstance(acc, ast.AugAssign) and isinstance(acc.op, ast.Add) and ast.unparse(acc.target) == 'lvl'
            and isinstance(acc.value, ast.BinOp) and isinstance(acc.value.op, ast.Mult)
            and isinstance(acc.value.left, ast.List) and len(acc.value.left.elts) == 1):
        raise TranslationError('_fullfact: `lvl += [j] * level_repeat` changed: `%s`' % ast.unparse(acc))
    envj = Env([('j', 'j', 'Z'), ('level_repeat', 'level_repeat', 'Z'), ('levels[i]', 'level', 'Z')])
    out.append('(* _fullfact: lvl += [ELEM] * TIMES *)\n'
               'Definition k_ff_lvl_elem (j : Z) : Z := %s.\n'
               'Definition k_ff_lvl_times (level_repeat : Z) : Z := %s.\n'
               % (tr_typed(acc.value.left.elts[0], envj, 'Z'), tr_typed(acc.value.right, envj, 'Z')))
    rg = t.body[1]
    if not (isinstance(rg, ast.Assign) and ast.unparse(rg.targets[0]) == 'rng' and isinstance(rg.value, ast.BinOp)
            and isinstance(rg.value.op, ast.Mult) and ast.unparse(rg.value.left) == 'lvl'):
        raise TranslationError('_fullfact: `rng = lvl * range_repeat` changed: `%s`' % ast.unparse(rg))
    out.append('(* _fullfact: rng = lvl * TIMES *)\n'
               'Definition k_ff_rng_times (range_repeat : Z) : Z := %s.\n' % tr_typed(rg.value.right, env, 'Z'))
    out.append('(* _fullfact: update of level_repeat at the end of iteration i *)\n'
               'Definition k_ff_level_step (level_repeat level : Z) : Z := %s.\n'
               % _aug(body[3], 'level_repeat', env, (ast.FloorDiv, ast.Mult, ast.Add, ast.Sub)))
    expect_same(body[4], 'H[:, i] = rng')
    expect_same(b[7], 'return H')


def gen_fullfactorial(tree, out):
    fn = find_function(tree, 'fullfactorial')
    _args(fn, ['dm', 'ignore'], defaults=["''"])
    b = body_nodoc(fn)
    if len(b) != 10:
        raise TranslationError('fullfactorial: %d statements, expected 10' % len(b))
    expect_same(b[0], 'if not dm.columns:\n    return DataMatrix()')
    if not isinstance(b[1], ast.If) or b[1].orelse:
        raise TranslationError('fullfactorial: type guard')
    expect_same(b[1].test, 'not all(isinstance(col, MixedColumn) for colname, col in dm.columns)')
    r = b[1].body[0]
    if not (isinstance(r, ast.Raise) and isinstance(r.exc, ast.Call) and ast.unparse(r.exc.func) == 'TypeError'):
        raise TranslationError('fullfactorial: type guard no longer raises TypeError')
    expect_same(b[2], 'dm = dm[:]')
    body = _for(b[3], '(colname, col)', 'dm.columns', 3)
    expect_same(body[0], 'col = (col != ignore)[colname]')
    expect_same(body[1], 'dm[colname][:len(col)] = col')
    expect_same(body[2], 'dm[colname][len(col):] = ignore')
    expect_same(b[4], 'design = [len(c != ignore) for n, c in dm.columns]')
    expect_same(b[5], 'a = _fullfact(design)')
    expect_same(b[6], 'fdm = DataMatrix(a.shape[0])')
    body = _for(b[7], 'name', 'dm.column_names', 1)
    expect_same(body[0], "fdm[name] = ''")
    body = _for(b[8], 'i', 'range(a.shape[0])', 2)
    expect_same(body[0], 'row = a[i]')
    inner = _for(body[1], '(rownr, name)', 'enumerate(dm.column_names)', 1)
    st = inner[0]
    if not (isinstance(st, ast.Assign) and isinstance(st.targets[0], ast.Subscript) and isinstance(st.value, ast.Subscript)
            and ast.unparse(st.targets[0].value) == 'fdm[name]' and ast.unparse(st.value.value) == 'dm[name]'):
        raise TranslationError('fullfactorial: cell copy statement changed: `%s`' % ast.unparse(st))
    env = Env([('i', 'i', 'Z'), ('int(row[rownr])', 'level_index', 'Z')])
    out.append('(* fullfactorial: fdm[name][DST] = dm[name][SRC]  (level_index = int(row[rownr])) *)\n'
               'Definition k_ffl_dst (i level_index : Z) : Z := %s.\n'
               'Definition k_ffl_src (i level_index : Z) : Z := %s.\n'
               % (tr_typed(st.targets[0].slice, env, 'Z'), tr_typed(st.value.slice, env, 'Z')))
    expect_same(b[9], 'return fdm')


def gen_replace(tree, out):
    fn = find_function(tree, 'replace')
    _args(fn, ['col', 'mappings'], defaults=['{}'])
    b = body_nodoc(fn)
    if len(b) != 5:
        raise TranslationError('replace: %d statements, expected 5' % len(b))
    expect_same(b[0], 'col = col[:]')
    iff = b[1]
    if not isinstance(iff, ast.If) or iff.orelse or len(iff.body) != 2:
        raise TranslationError('replace: MixedColumn branch')
    expect_same(iff.test, 'isinstance(col._seq, list)')
    l1 = _for(iff.body[0], '(old, new)', 'mappings.items()', 1)
    l2 = _for(l1[0], '(i, val)', 'enumerate(col)', 1)
    c = l2[0]
    if not isinstance(c, ast.If) or c.orelse or len(c.body) != 1:
        raise TranslationError('replace: cell test')
    env = Env([('old == val', '(py_eq old val)', 'bool'), ('val == old', '(py_eq val old)', 'bool')])
    out.append('(* replace, MixedColumn branch: the test that decides whether cell `val` is overwritten *)\n'
               'Definition k_replace_hit (old val : pyv) : bool := %s.\n' % tr_typed(c.test, env, 'bool'))
    expect_same(c.body[0], 'col[i] = new')
    expect_same(iff.body[1], 'return col')
    expect_same(b[2], 'import numpy as np')
    l1 = _for(b[3], '(old, new)', 'mappings.items()', 3)
    # the NumPy branch: which cells are overwritten.  `if <key is a float NaN>: b = np.isnan(seq) else: b = seq == old`;
    # np.isnan(<array>) and <array> == old are element-wise (modelled per cell); the test on the key and the choice
    # between the two masks are translated.
    st = l1[0]
    if not (isinstance(st, ast.If) and len(st.body) == 1 and len(st.orelse) == 1):
        raise TranslationError('replace: mask statement changed: `%s`' % ast.unparse(st).split('\n')[0])
    env = Env([('isinstance(old, float)', 'old_is_float', 'bool'), ('old != old', 'old_ne_itself', 'bool'),
               ('old == old', '(negb old_ne_itself)', 'bool')])
    out.append('(* replace, NumPy branch: is the key treated as NaN?  old_is_float = isinstance(old, float), '
               'old_ne_itself = (old != old) *)\n'
               'Definition k_replace_nan_key (old_is_float old_ne_itself : bool) : bool := %s.\n'
               % tr_typed(st.test, env, 'bool'))
    env = Env([('np.isnan(col._seq)', 'cell_is_nan', 'bool'),
               ('col._seq == old', 'cell_eq_old', 'bool'), ('old == col._seq', 'cell_eq_old', 'bool')])
    branches = []
    for br in (st.body[0], st.orelse[0]):
        if not (isinstance(br, ast.Assign) and len(br.targets) == 1 and ast.unparse(br.targets[0]) == 'b'):
            raise TranslationError('replace: mask assignment changed: `%s`' % ast.unparse(br))
        branches.append(tr_typed(br.value, env, 'bool'))
    out.append('(* replace, NumPy branch: is a cell overwritten?  nan_key = the test above, per cell: cell_is_nan = '
               'np.isnan(cell), cell_eq_old = (cell == old) *)\n'
               'Definition k_replace_mask (nan_key cell_is_nan cell_eq_old : bool) : bool := '
               '(if nan_key then %s else %s).\n' % tuple(branches))
    expect_same(l1[1], 'i = np.where(b)')
    expect_same(l1[2], 'col._seq[i] = new')
    expect_same(b[4], 'return col')


def gen_keep_only(tree, out):
    fn = find_function(tree, 'keep_only')
    _args(fn, ['dm'], vararg='cols')
    b = body_nodoc(fn)
    if len(b) != 7:
        raise TranslationError('keep_only: %d statements, expected 7' % len(b))
    iff = b[0]
    if not isinstance(iff, ast.If) or iff.orelse:
        raise TranslationError('keep_only: list unwrapping')
    env = Env([('len(cols)', 'ncols', 'Z'), ('isinstance(cols[0], list)', 'first_is_list', 'bool')])
    out.append('(* keep_only: a single list argument is unwrapped *)\n'
               'Definition k_keep_unwrap (ncols : Z) (first_is_list : bool) : bool := %s.\n'
               % tr_typed(iff.test, env, 'bool'))
    expect_same(iff.body[0], 'cols = cols[0]')
    expect_same(b[1], 'dm = dm[:]')
    expect_same(b[2], 'colnames = [_colname(col) for col in cols]')
    l = _for(b[3], 'colname', 'colnames', 1)
    if not isinstance(l[0], ast.If) or l[0].orelse:
        raise TranslationError('keep_only: multiple-name guard')
    expect_same(l[0].test, 'isinstance(colname, list)')
    r = l[0].body[0]
    if not (isinstance(r, ast.Raise) and isinstance(r.exc, ast.Call) and ast.unparse(r.exc.func) == 'TypeError'):
        raise TranslationError('keep_only: multiple-name guard no longer raises TypeError')
    l = _for(b[4], 'colname', 'colnames', 1)
    if not isinstance(l[0], ast.If) or l[0].orelse or len(l[0].body) != 1:
        raise TranslationError('keep_only: warning loop')
    expect_same(l[0].test, 'colname not in dm.column_names')
    if not (isinstance(l[0].body[0], ast.Expr) and isinstance(l[0].body[0].value, ast.Call)
            and ast.unparse(l[0].body[0].value.func) == 'warn'):
        raise TranslationError('keep_only: the unknown-name branch is no longer a warning')
    l = _for(b[5], 'colname', 'dm.column_names', 1)
    d = l[0]
    if not isinstance(d, ast.If) or d.orelse or len(d.body) != 1:
        raise TranslationError('keep_only: deletion loop')
    env = Env([('colname in colnames', 'requested', 'bool'), ('colname not in colnames', '(negb requested)', 'bool')])
    out.append('(* keep_only: delete column `colname` of the copy? (requested = colname in colnames) *)\n'
               'Definition k_keep_delete (requested : bool) : bool := %s.\n' % tr_typed(d.test, env, 'bool'))
    expect_same(d.body[0], 'del dm[colname]')
    expect_same(b[6], 'return dm')
    # _colname
    fn = find_function(tree, '_colname')
    _args(fn, ['col'])
    cb = body_nodoc(fn)
    # the dispatch chain of _colname is translated: `if TEST: return VALUE` ... `raise E(...)`
    env = Env([('isinstance(col, basestring)', 'is_str', 'bool'), ('isinstance(col, str)', 'is_str', 'bool'),
               ('isinstance(col, BaseColumn)', 'is_column', 'bool')])
    values = {dump(parse_expr('col')): 'as_str', dump(parse_expr('col.name')): 'name'}
    out.append('(* _colname: a str is its own name (as_str), a column object answers col.name (name), anything else raises *)\n'
               'Definition k_colname {A : Type} (is_str is_column : bool) (as_str name : A) : res A := %s.\n'
               % _return_chain(cb, env, values, '_colname'))


EXN_NAMES = ('ValueError', 'TypeError', 'IndexError', 'KeyError', 'AttributeError', 'OverflowError', 'ZeroDivisionError')


def _return_chain(stmts, env, values, what):
    """`if T1: return V1` ... ending in `return V` or `raise E(...)`  ->  if T1 then Ok V1 else ... (res)."""
    if not stmts:
        raise TranslationError('%s: falls off the end' % what)
    st = stmts[0]
    if isinstance(st, ast.If):
        if st.orelse or len(st.body) != 1:
            raise TranslationError('%s: branch shape changed: `%s`' % (what, ast.unparse(st).split('\n')[0]))
        return '(if %s then %s else %s)' % (tr_typed(st.test, env, 'bool'), _return_chain(st.body, env, values, what),
                                            _return_chain(stmts[1:], env, values, what))
    if len(stmts) != 1:
        raise TranslationError('%s: statements after `%s`' % (what, ast.unparse(st).split('\n')[0]))
    if isinstance(st, ast.Return) and st.value is not None:
        v = values.get(dump(st.value))
        if v is None:
            raise TranslationError('%s: returned value `%s` outside the grammar' % (what, ast.unparse(st.value)))
        return '(Ok %s)' % v
    if isinstance(st, ast.Raise) and isinstance(st.exc, ast.Call) and isinstance(st.exc.func, ast.Name) \
            and st.exc.func.id in EXN_NAMES:
        return '(Raise %s)' % st.exc.func.id
    raise TranslationError('%s: statement outside the grammar: `%s`' % (what, ast.unparse(st).split('\n')[0]))


def gen_getitem(repo, out):
    tree = _load(repo, 'datamatrix/_datamatrix/_datamatrix.py')
    fn = find_function(tree, 'DataMatrix.__getitem__')
    found = False
    for st in body_nodoc(fn):
        if isinstance(st, ast.If) and ast.unparse(st.test) == 'isinstance(key, Sequence)':
            if len(st.body) != 2 or not isinstance(st.body[0], ast.If):
                raise TranslationError('DataMatrix.__getitem__: Sequence branch')
            expect_same(st.body[0].test, 'all(isinstance(v, (basestring, BaseColumn)) for v in key)')
            expect_same(st.body[0].body[-1], 'return ops.keep_only(self, *key)')
            found = True
    if not found:
        raise TranslationError('DataMatrix.__getitem__: no Sequence branch')
    # BaseColumn.name, used by _colname for column objects
    fn = find_function(_load(repo, 'datamatrix/_datamatrix/_basecolumn.py'), 'BaseColumn.name')
    nb = body_nodoc(fn)
    if len(nb) != 4:
        raise TranslationError('BaseColumn.name: statements')
    # l = [name for name, col in self._datamatrix.columns if <col is self>]: the names under which this very object
    # is held by its own DataMatrix, looked up on every call (no cache); the filter is translated
    st = nb[0]
    if not (isinstance(st, ast.Assign) and len(st.targets) == 1 and ast.unparse(st.targets[0]) == 'l'
            and isinstance(st.value, ast.ListComp) and len(st.value.generators) == 1):
        raise TranslationError('BaseColumn.name: the name list is no longer one comprehension: `%s`' % ast.unparse(st))
    g = st.value.generators[0]
    expect_same(st.value.elt, 'name', 'BaseColumn.name element')
    if ast.unparse(g.target) != '(name, col)':
        raise TranslationError('BaseColumn.name: loop target `%s`, expected `(name, col)`' % ast.unparse(g.target))
    expect_same(g.iter, 'self._datamatrix.columns', 'BaseColumn.name iterable')
    if len(g.ifs) != 1 or g.is_async:
        raise TranslationError('BaseColumn.name: filter of the comprehension changed')
    env = Env([('col is self', 'same_object', 'bool'), ('self is col', 'same_object', 'bool'),
               ('col is not self', '(negb same_object)', 'bool'), ('self is not col', '(negb same_object)', 'bool')])
    out.append('(* BaseColumn.name: is the name of a column of the owner kept? (same_object = col is self) *)\n'
               'Definition k_name_keep (same_object : bool) : bool := %s.\n' % tr_typed(g.ifs[0], env, 'bool'))
    if not (isinstance(nb[1], ast.If) and not nb[1].orelse and len(nb[1].body) == 1):
        raise TranslationError('BaseColumn.name: no-name test')
    env = Env([('l', '(negb (Z.eqb n (0)%Z))', 'bool'), ('len(l)', 'n', 'Z')])      # truth value of a list
    out.append('(* BaseColumn.name: None is returned when this holds (n = len(l)) *)\n'
               'Definition k_name_none (n : Z) : bool := %s.\n' % tr_typed(nb[1].test, env, 'bool'))
    expect_same(nb[1].body[0], 'return None')
    env = Env([('len(l)', 'n', 'Z')])
    if not isinstance(nb[2], ast.If) or nb[2].orelse:
        raise TranslationError('BaseColumn.name: single-name test')
    out.append('(* BaseColumn.name: a single name is returned as a str, several as a list *)\n'
               'Definition k_name_single (n : Z) : bool := %s.\n' % tr_typed(nb[2].test, env, 'bool'))
    expect_same(nb[2].body[0], 'return l[0]')
    expect_same(nb[3], 'return l')


def gen_z(repo, tree, out):
    fn = find_function(tree, 'z')
    _args(fn, ['col'])
    b = body_nodoc(fn)
    if len(b) == 2:
        # an IntColumn is first converted to a FloatColumn with the same rows and cells (pinned)
        expect_same(b[0], "if isinstance(col, IntColumn):\n    _col = FloatColumn(col._datamatrix)\n"
                          "    _col._rowid = col._rowid\n    _col._seq = col._seq.astype(float)\n    col = _col")
        b = b[1:]
    else:
        raise TranslationError('z: expected the IntColumn conversion followed by the formula')
    if len(b) != 1 or not isinstance(b[0], ast.Return):
        raise TranslationError('z: body')
    env = Env([('col', 'x', 'Q'), ('col.mean', 'mean', 'Q'), ('col.std', 'std', 'Q')])
    out.append('(* z: the per-cell formula (column arithmetic is element-wise: C13); the result is a FloatColumn for an IntColumn *)\n'
               'Definition k_z_cell (x mean std : Q) : Q := %s.\n' % _qexpr(b[0].value, env))
    base = _load(repo, 'datamatrix/_datamatrix/_basecolumn.py')
    fn = find_function(base, 'BaseColumn.mean')
    mb = body_nodoc(fn)
    if len(mb) != 3:
        raise TranslationError('BaseColumn.mean: statements')
    expect_same(mb[0], 'n = self._numbers')
    expect_same(mb[1], 'if len(n) == 0:\n    return NAN')
    r = mb[2]
    if not (isinstance(r, ast.Return) and isinstance(r.value, ast.Call) and ast.unparse(r.value.func) == 'CallableFloat'
            and len(r.value.args) == 1):
        raise TranslationError('BaseColumn.mean: return')
    env = Env([('sum(n)', 'total', 'Q'), ('len(n)', 'count', 'Z')])
    out.append('(* BaseColumn.mean over the numeric cells: total = sum(n), count = len(n) *)\n'
               'Definition k_mean (total : Q) (count : Z) : Q := %s.\n' % _qexpr(r.value.args[0], env))
    fn = find_function(base, 'BaseColumn.std')
    sb = body_nodoc(fn)
    if len(sb) != 4:
        raise TranslationError('BaseColumn.std: statements')
    expect_same(sb[0], 'm = self.mean')
    expect_same(sb[1], 'n = self._numbers')
    if not isinstance(sb[2], ast.If) or sb[2].orelse:
        raise TranslationError('BaseColumn.std: guard')
    env = Env([('len(n)', 'count', 'Z')])
    out.append('(* BaseColumn.std: NAN is returned when this holds *)\n'
               'Definition k_std_undefined (count : Z) : bool := %s.\n' % tr_typed(sb[2].test, env, 'bool'))
    expect_same(sb[2].body[0], 'return NAN')
    r = sb[3]
    if not (isinstance(r, ast.Return) and isinstance(r.value, ast.Call) and ast.unparse(r.value.func) == 'CallableFloat'
            and len(r.value.args) == 1 and isinstance(r.value.args[0], ast.Call)
            and ast.unparse(r.value.args[0].func) == 'math.sqrt' and len(r.value.args[0].args) == 1):
        raise TranslationError('BaseColumn.std: return CallableFloat(math.sqrt(...)) changed')
    inside = r.value.args[0].args[0]
    if not (isinstance(inside, ast.BinOp) and isinstance(inside.left, ast.Call) and ast.unparse(inside.left.func) == 'sum'
            and len(inside.left.args) == 1 and isinstance(inside.left.args[0], ast.GeneratorExp)):
        raise TranslationError('BaseColumn.std: variance expression changed: `%s`' % ast.unparse(inside))
    g = inside.left.args[0]
    if len(g.generators) != 1 or ast.unparse(g.generators[0].target) != 'i' or ast.unparse(g.generators[0].iter) != 'n' \
            or g.generators[0].ifs:
        raise TranslationError('BaseColumn.std: generator changed')
    env = Env([('i', 'x', 'Q'), ('m', 'mean', 'Q')])
    out.append('(* BaseColumn.std: the summand, and the quantity under the square root (ss = sum of the summands) *)\n'
               'Definition k_sqdev (x mean : Q) : Q := %s.\n' % _qexpr(g.elt, env))
    env = Env([(ast.unparse(inside.left), 'ss', 'Q'), ('len(n)', 'count', 'Z')])
    out.append('Definition k_var (ss : Q) (count : Z) : Q := %s.\n' % _qexpr(inside, env))
    # NumericColumn (FloatColumn): the same formulas through NumPy, NaN cells skipped, N-1 degrees of freedom
    num = _load(repo, 'datamatrix/_datamatrix/_numericcolumn.py')
    nm = body_nodoc(find_function(num, 'NumericColumn.mean'))
    ns = body_nodoc(find_function(num, 'NumericColumn.std'))
    if len(nm) != 1 or len(ns) != 1:
        raise TranslationError('NumericColumn.mean/std: body')
    expect_same(nm[0], 'return CallableFloat(nanmean(self._seq))')
    expect_same(ns[0], 'return CallableFloat(nanstd(self._seq, ddof=1))')
    if 'from numpy import nanmean, nanmedian, nanstd' not in ast.unparse(num):
        raise TranslationError('_numericcolumn: nanmean / nanstd are no longer NumPy\'s')
    # _numbers keeps the finite numbers only
    fn = find_function(base, 'BaseColumn._numbers')
    nb = body_nodoc(fn)
    if len(nb) != 1:
        raise TranslationError('BaseColumn._numbers: body')
    expect_same(nb[0], 'return [float(val) for val in self._seq if isinstance(val, numbers.Number) and (not self._nanorinf(val))]')


def _load(repo, rel):
    tree = load(repo, rel)
    for node in ast.walk(tree):          # u'' and '' are the same constant
        if isinstance(node, ast.Constant):
            node.kind = None
    return tree


def gen(repo):
    rel = 'datamatrix/operations.py'
    tree = _load(repo, rel)
    out = [HEADER % (rel + ' (+ BaseColumn.mean/std/name, DataMatrix.__getitem__)'),
           'From Coq Require Import ZArith QArith List Bool.\nFrom DM Require Import Base.PyVal.\nOpen Scope Z_scope.\n']
    gen_weight(tree, out)
    gen_fullfact(tree, out)
    gen_fullfactorial(tree, out)
    gen_replace(tree, out)
    gen_keep_only(tree, out)
    gen_getitem(repo, out)
    gen_z(repo, tree, out)
    return ''.join(out)


def gen_weight(tree, out):
    """weight with its actual statement list: dm1=; for(validate); dm2=; for(columns); i2=0; for(copy); return."""
    fn = find_function(tree, 'weight')
    _args(fn, ['col'])
    b = body_nodoc(fn)
    if len(b) != 7:
        raise TranslationError('weight: %d statements, expected 7' % len(b))
    expect_same(b[0], 'dm1 = col._datamatrix')
    body = _for(b[1], 'weight', 'col', 1)
    iff = body[0]
    if not isinstance(iff, ast.If) or iff.orelse or len(iff.body) != 1:
        raise TranslationError('weight: validation loop body')
    r = iff.body[0]
    if not (isinstance(r, ast.Raise) and isinstance(r.exc, ast.Call) and isinstance(r.exc.func, ast.Name)
            and r.exc.func.id == 'TypeError'):
        raise TranslationError('weight: the validation no longer raises TypeError')
    env = Env([('isinstance(weight, int)', 'is_int', 'bool'), ('weight', 'weight', 'Z')])
    out.append('(* weight: the guard of the validation loop (raise TypeError when true) *)\n'
               'Definition k_weight_bad (is_int : bool) (weight : Z) : bool := %s.\n' % tr_typed(iff.test, env, 'bool'))
    a = b[2]
    if not (isinstance(a, ast.Assign) and ast.unparse(a.targets[0]) == 'dm2' and isinstance(a.value, ast.Call)
            and ast.unparse(a.value.func) == 'DataMatrix' and not a.value.args and len(a.value.keywords) == 1
            and a.value.keywords[0].arg == 'length'):
        raise TranslationError('weight: allocation of dm2')
    env = Env([('int(col.sum)', 'total', 'Z')])
    out.append('(* weight: length of the allocated result, as a function of int(col.sum) *)\n'
               'Definition k_weight_len (total : Z) : Z := %s.\n' % tr_typed(a.value.keywords[0].value, env, 'Z'))
    body = _for(b[3], '(colname, _col)', 'dm1.columns', 1)
    # a series column is re-created with its depth, every other column by its type (pinned)
    expect_same(body[0], 'if isinstance(_col, _SeriesColumn):\n    dm2[colname] = SeriesColumn(depth=_col.depth)\n'
                         'else:\n    dm2[colname] = type(_col)')
    expect_same(b[4], 'i2 = 0')
    l1 = _for(b[5], '(i1, weight)', 'enumerate(col)', 1)
    l2 = _for(l1[0], 'c', None, 2)
    env = Env([('weight', 'weight', 'Z')])
    out.append('(* weight: number of copies of a source row *)\n'
               'Definition k_weight_reps (weight : Z) : Z := %s.\n' % tr_typed(_range_arg(l1[0].iter), env, 'Z'))
    l3 = _for(l2[0], 'colname', 'dm1.column_names', 1)
    st = l3[0]
    if not (isinstance(st, ast.Assign) and len(st.targets) == 1 and isinstance(st.targets[0], ast.Subscript)
            and isinstance(st.value, ast.Subscript)):
        raise TranslationError('weight: cell copy statement')
    if ast.unparse(st.targets[0].value) != 'dm2[colname]' or ast.unparse(st.value.value) != 'dm1[colname]':
        raise TranslationError('weight: cell copy statement addresses other objects: `%s`' % ast.unparse(st))
    env = Env([('i1', 'i1', 'Z'), ('i2', 'i2', 'Z')])
    out.append('(* weight: dm2[colname][DST] = dm1[colname][SRC] *)\n'
               'Definition k_weight_dst (i1 i2 : Z) : Z := %s.\n'
               'Definition k_weight_src (i1 i2 : Z) : Z := %s.\n' % (
                   tr_typed(st.targets[0].slice, env, 'Z'), tr_typed(st.value.slice, env, 'Z')))
    env = Env([('i2', 'i2', 'Z')])
    out.append('Definition k_weight_next (i2 : Z) : Z := %s.\n' % _aug(l2[1], 'i2', env, (ast.Add, ast.Sub)))
    expect_same(b[6], 'return dm2')
