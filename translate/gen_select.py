"""_basecolumn.py / _numericcolumn.py: column comparison (_compare and helpers) -> Gen/KSelect.v

Decision fragments (dispatch chain, `op is eq / ne` tests, per-cell tests, the
NaN / inf special cases of the vectorised paths, the IntColumn fallbacks) are
translated; the loop skeletons around them are pinned with expect_same, so a
change of shape fails closed.
"""
import ast
from py2coq import TranslationError, find_function, body_nodoc, expect_same, dump, parse_expr
from pystmt import Ctx, block, expr, lift
from kernels_common import HEADER, load

FILE = 'KSelect.v'

OPTEST = {
    'op is operator.eq': ('(op_is_eq op)', 'bool'), 'op is operator.ne': ('(op_is_ne op)', 'bool'),
    'op == operator.__eq__': ('(op_is_eq op)', 'bool'), 'op == operator.__ne__': ('(op_is_ne op)', 'bool'),
    'op == operator.eq': ('(op_is_eq op)', 'bool'), 'op == operator.ne': ('(op_is_ne op)', 'bool'),
}
ZIP2 = 'zip(self._rowid, self._seq)'
SELECT = 'return self._datamatrix._selectrowid(_rowid)'


def params(fn, expected):
    names = [a.arg for a in fn.args.args]
    if names != expected or fn.args.vararg or fn.args.kwarg or fn.args.kwonlyargs or fn.args.defaults:
        raise TranslationError('%s: signature %s, expected %s' % (fn.name, names, expected))


def res_bool(node, cx):
    t, k = expr(node, cx)
    if k == 'bool':
        return '(Ok %s)' % t
    if k == 'res bool':
        return t
    raise TranslationError('test of kind %s: %s' % (k, ast.unparse(node)))


def plain_bool(node, cx):
    t, k = expr(node, cx)
    if k != 'bool':
        raise TranslationError('expected a plain boolean: %s' % ast.unparse(node))
    return t


def raise_name(stmts):
    if len(stmts) != 1 or not isinstance(stmts[0], ast.Raise):
        raise TranslationError('expected a single raise')
    e = stmts[0].exc
    name = e.func.id if isinstance(e, ast.Call) and isinstance(e.func, ast.Name) else None
    if name != 'TypeError':
        raise TranslationError('expected raise TypeError(...), found %s' % ast.unparse(stmts[0]))
    return '(Raise TypeError)'


def eq_ne_else(node):
    """if T1: B1 elif T2: B2 else: raise  ->  (T1 node, B1, T2 node, B2, raise text)"""
    if not isinstance(node, ast.If) or len(node.orelse) != 1 or not isinstance(node.orelse[0], ast.If):
        raise TranslationError('expected if / elif / else')
    inner = node.orelse[0]
    return node.test, node.body, inner.test, inner.body, raise_name(inner.orelse)


def append_loop(stmts, zipsrc, targets):
    """for <targets> in <zipsrc>: <body>   ->  body (the loop header is pinned)"""
    if len(stmts) != 1 or not isinstance(stmts[0], ast.For) or stmts[0].orelse:
        raise TranslationError('expected a single for loop')
    loop = stmts[0]
    if ast.unparse(loop.target) != '(%s)' % targets:
        raise TranslationError('loop target changed: expected (%s), found %s' % (targets, ast.unparse(loop.target)))
    expect_same(loop.iter, zipsrc, 'loop iterator')
    return loop.body


def guarded_append(stmts):
    """if <test>: _rowid.append(rowid)  ->  test node"""
    if len(stmts) != 1 or not isinstance(stmts[0], ast.If) or stmts[0].orelse or len(stmts[0].body) != 1:
        raise TranslationError('expected `if <test>: _rowid.append(rowid)`')
    expect_same(stmts[0].body[0], '_rowid.append(rowid)')
    return stmts[0].test


def try_guarded_append(stmts):
    """try: if <test>: _rowid.append(rowid)  except: pass   ->  test node"""
    if len(stmts) != 1 or not isinstance(stmts[0], ast.Try):
        raise TranslationError('expected try / except')
    t = stmts[0]
    if t.orelse or t.finalbody or len(t.handlers) != 1:
        raise TranslationError('try statement shape')
    h = t.handlers[0]
    if h.type is not None or h.name is not None or not all(isinstance(s, ast.Pass) for s in h.body):
        raise TranslationError('expected bare `except: pass`')
    return guarded_append(t.body)


def same_target(assign, name):
    if len(assign.targets) != 1 or ast.unparse(assign.targets[0]) != name:
        raise TranslationError('expected an assignment to %s' % name)


def gen(repo):
    out = [HEADER % 'datamatrix/_datamatrix/_basecolumn.py, _numericcolumn.py (column comparison)',
           'From Coq Require Import ZArith List Bool String.\n'
           'From DM Require Import Base.PyVal Spec.Nf Spec.Table Spec.Select Model.SelectRef.\n'
           'Import ListNotations.\nOpen Scope Z_scope.\n\n']
    base = load(repo, 'datamatrix/_datamatrix/_basecolumn.py')
    num = load(repo, 'datamatrix/_datamatrix/_numericcolumn.py')

    # ---- BaseColumn._issequence -------------------------------------------------
    fn = find_function(base, 'BaseColumn._issequence')
    params(fn, ['self', 'val'])
    cx = Ctx({'set': 'r_is_set', 'basestring': 'r_is_basestring'},
             {"hasattr(val, u'__len__')": ('(r_has_len val)', 'bool'),
              "hasattr(val, '__len__')": ('(r_has_len val)', 'bool'),
              'len(val)': ('(r_len val)', 'pyv'), 'len(self._datamatrix)': ('n', 'pyv')}, {})
    cx.locals = {'val'}
    out.append('Definition k_issequence (n : pyv) (val : mref) : res bool :=\n  %s.\n\n'
               % block(body_nodoc(fn), cx, tail='(Raise OtherError)'))

    # ---- BaseColumn._compare: the dispatch chain ---------------------------------
    fn = find_function(base, 'BaseColumn._compare')
    params(fn, ['self', 'other', 'op'])
    cx = Ctx({'float': 'r_is_float', 'type': 'r_is_type', 'set': 'r_is_set', 'types.FunctionType': 'r_is_function'},
             {},
             {'math.isnan': ('r_isnan', 'res bool'), 'self._issequence': ('issequence', 'res bool'),
              'self._compare_nan': ('br_nan', 'res pyv'), 'self._compare_type': ('br_type', 'res pyv'),
              'self._compare_set': ('br_set', 'res pyv'), 'self._compare_function': ('br_fun', 'res pyv'),
              'self._compare_sequence': ('br_seq', 'res pyv'), 'self._compare_value': ('br_val', 'res pyv')})
    cx.locals = {'other', 'op'}
    out.append('Definition k_compare_dispatch (n : pyv) (other : mref) (op : mop) : res branch :=\n'
               '  let issequence := k_issequence n in\n  %s.\n\n' % block(body_nodoc(fn), cx, tail='(Raise OtherError)'))

    # ---- _compare_nan / _compare_type: op test, then a per-cell test -------------
    def eq_ne_loops(qual, plist, cellcx, coqname, coqparams):
        fn = find_function(base, qual)
        params(fn, plist)
        body = body_nodoc(fn)
        if len(body) != 3:
            raise TranslationError('%s: statement count' % qual)
        expect_same(body[0], '_rowid = Index(0)')
        expect_same(body[2], SELECT)
        t1, b1, t2, b2, rz = eq_ne_else(body[1])
        opcx = Ctx({}, OPTEST, {})
        c1 = res_bool(guarded_append(append_loop(b1, ZIP2, 'rowid, val')), cellcx)
        c2 = res_bool(guarded_append(append_loop(b2, ZIP2, 'rowid, val')), cellcx)
        out.append('Definition %s %s(op : mop) : res (pyv -> res bool) :=\n'
                   '  (if %s then Ok (fun val => %s) else (if %s then Ok (fun val => %s) else %s)).\n\n'
                   % (coqname, coqparams, plain_bool(t1, opcx), c1, plain_bool(t2, opcx), c2, rz))

    cellcx = Ctx({'float': 'is_float'}, {}, {'math.isnan': ('b_isnan', 'res bool')})
    cellcx.locals = {'val'}
    eq_ne_loops('BaseColumn._compare_nan', ['self', 'other', 'op'], cellcx, 'k_compare_nan', '')
    cellcx = Ctx({}, {'isinstance(val, type_)': ('(py_isinstance val type_)', 'bool')}, {})
    cellcx.locals = {'val'}
    eq_ne_loops('BaseColumn._compare_type', ['self', 'type_', 'op'], cellcx, 'k_compare_type', '(type_ : pytype) ')

    # ---- BaseColumn._compare_value: try: if op(val, other) ... except: pass -------
    fn = find_function(base, 'BaseColumn._compare_value')
    params(fn, ['self', 'other', 'op'])
    body = body_nodoc(fn)
    if len(body) != 3:
        raise TranslationError('_compare_value: statement count')
    expect_same(body[0], '_rowid = Index(0)')
    expect_same(body[2], SELECT)
    cx = Ctx({}, {}, {'op': ('py_mop op', 'res bool')})
    cx.locals = {'val', 'other'}
    test = res_bool(try_guarded_append(append_loop([body[1]], ZIP2, 'rowid, val')), cx)
    out.append('Definition k_compare_value_cell (op : mop) (val other : pyv) : res bool :=\n  swallow %s.\n\n' % test)

    # ---- BaseColumn._compare_sequence ---------------------------------------------
    fn = find_function(base, 'BaseColumn._compare_sequence')
    params(fn, ['self', 'other', 'op'])
    body = body_nodoc(fn)
    if len(body) != 3:
        raise TranslationError('_compare_sequence: statement count')
    expect_same(body[0], '_rowid = Index(0)')
    expect_same(body[2], SELECT)
    cx = Ctx({}, {}, {'op': ('py_mop op', 'res bool')})
    cx.locals = {'val', 'ref'}
    test = res_bool(try_guarded_append(append_loop(
        [body[1]], 'zip(self._rowid, self._seq, self._tosequence(other))', 'rowid, val, ref')), cx)
    out.append('Definition k_compare_sequence_cell (op : mop) (val ref : pyv) : res bool :=\n  swallow %s.\n\n' % test)

    # ---- BaseColumn._compare_set ---------------------------------------------------
    fn = find_function(base, 'BaseColumn._compare_set')
    params(fn, ['self', 'other', 'op'])
    body = body_nodoc(fn)
    if len(body) != 4:
        raise TranslationError('_compare_set: statement count')
    t1, b1, t2, b2, rz = eq_ne_else(body[0])
    expect_same(body[1], '_rowid = Index(0)')
    expect_same(body[3], SELECT)
    loop_test = try_guarded_append(append_loop([body[2]], ZIP2, 'rowid, val'))
    expect_same(loop_test, 'test(val)')

    def quantifier(stmts):
        # test = lambda val: any|all(<cmp> for v in other)
        if len(stmts) != 1 or not isinstance(stmts[0], ast.Assign):
            raise TranslationError('_compare_set: expected `test = lambda ...`')
        a = stmts[0]
        same_target(a, 'test')
        lam = a.value
        if not isinstance(lam, ast.Lambda) or [x.arg for x in lam.args.args] != ['val']:
            raise TranslationError('_compare_set: lambda shape')
        call = lam.body
        if not (isinstance(call, ast.Call) and isinstance(call.func, ast.Name) and call.func.id in ('any', 'all')
                and len(call.args) == 1 and isinstance(call.args[0], ast.GeneratorExp) and not call.keywords):
            raise TranslationError('_compare_set: expected any(...) / all(...)')
        g = call.args[0]
        if len(g.generators) != 1 or g.generators[0].ifs or g.generators[0].is_async:
            raise TranslationError('_compare_set: generator shape')
        if ast.unparse(g.generators[0].target) != 'v':
            raise TranslationError('_compare_set: generator variable')
        expect_same(g.generators[0].iter, 'other')
        ecx = Ctx({}, {}, {})
        ecx.locals = {'val', 'v'}
        elt = plain_bool(g.elt, ecx)
        return '(%s (fun v => %s) other)' % ('existsb' if call.func.id == 'any' else 'forallb', elt)

    opcx = Ctx({}, OPTEST, {})
    out.append('Definition k_compare_set (other : list pyv) (op : mop) : res (pyv -> res bool) :=\n'
               '  (if %s then Ok (fun val => swallow (Ok %s)) else (if %s then Ok (fun val => swallow (Ok %s)) else %s)).\n\n'
               % (plain_bool(t1, opcx), quantifier(b1), plain_bool(t2, opcx), quantifier(b2), rz))

    # ---- BaseColumn._compare_function ----------------------------------------------
    fn = find_function(base, 'BaseColumn._compare_function')
    params(fn, ['self', 'other', 'op'])
    body = body_nodoc(fn)
    if len(body) != 3:
        raise TranslationError('_compare_function: statement count')
    t1, b1, t2, b2, rz = eq_ne_else(body[0])
    expect_same(b1[0], 'test = other')
    if len(b1) != 1 or len(b2) != 1 or not isinstance(b2[0], ast.Assign):
        raise TranslationError('_compare_function: test assignment')
    same_target(b2[0], 'test')
    lam = b2[0].value
    if not isinstance(lam, ast.Lambda) or [x.arg for x in lam.args.args] != ['val']:
        raise TranslationError('_compare_function: lambda shape')
    fcx = Ctx({}, {'len(getargspec(other).args)': ('(r_nargs other)', 'pyv')}, {'other': ('r_call other', 'res bool')})
    fcx.locals = {'val'}
    neg = res_bool(lam.body, fcx)
    guard = body[1]
    if not isinstance(guard, ast.If) or guard.orelse:
        raise TranslationError('_compare_function: arity guard')
    arity_bad = plain_bool(guard.test, fcx)
    rz2 = raise_name(guard.body)
    expect_same(body[2], 'return self._datamatrix._selectrowid(Index([rowid for rowid, val in '
                         'zip(self._rowid, self._seq) if test(val)]))')
    out.append('Definition k_compare_function (other : mref) (op : mop) : res (pyv -> res bool) :=\n'
               '  bind (if %s then Ok (fun val => r_call other val) else (if %s then Ok (fun val => %s) else %s))\n'
               '       (fun test => if %s then %s else Ok test).\n\n'
               % (plain_bool(t1, opcx), plain_bool(t2, opcx), neg, rz, arity_bad, rz2))

    # ---- NumericColumn._compare_value: coerced reference, NaN / inf special cases ----
    fn = find_function(num, 'NumericColumn._compare_value')
    params(fn, ['self', 'other', 'op'])
    names = dict(OPTEST)
    names.update({
        'np.isnan(self._seq)': ('(v_isnan seq)', 'pyv'),
        '~np.isnan(self._seq)': ('(v_not (v_isnan seq))', 'pyv'),
        'self._seq == _other': ('(v_cmp k (OpCmp CEq) seq _other)', 'pyv'),
        'self._seq != _other': ('(v_cmp k (OpCmp CNe) seq _other)', 'pyv'),
        'op(self._seq, _other)': ('(v_cmp k op seq _other)', 'pyv'),
        'np.where(b)[0]': ('(v_where b)', 'pyv'),
        'self._datamatrix._selectrowid(Index(self._rowid[i]))': ('i', 'pyv'),
    })
    cx = Ctx({}, names, {'self._checktype': ('checktype', 'res pyv'), 'math.isnan': ('b_isnan', 'res bool'),
                         'math.isinf': ('b_isinf', 'res bool')})
    cx.locals = {'other', 'op'}
    out.append('Definition k_numeric_compare_value (k : kind) (checktype : pyv -> res pyv) (seq : list val) '
               '(other : pyv) (op : mop) : res (list nat) :=\n  %s.\n\n'
               % block(body_nodoc(fn), cx, tail='(Raise OtherError)'))

    # ---- NumericColumn._compare_sequence ------------------------------------------------
    fn = find_function(num, 'NumericColumn._compare_sequence')
    params(fn, ['self', 'other', 'op'])
    cx = Ctx({}, {'np.where(op(self._seq, _other))': ('(v_where (v_cmp_seq k op seq _other))', 'pyv'),
                  'self._datamatrix._selectrowid(Index(self._rowid[i]))': ('i', 'pyv')},
             {'self._tosequence': ('tosequence', 'res pyv')})
    cx.locals = {'other', 'op'}
    out.append('Definition k_numeric_compare_sequence (k : kind) (tosequence : list pyv -> res (list pyv)) '
               '(seq : list val) (other : list pyv) (op : mop) : res (list nat) :=\n  %s.\n\n'
               % block(body_nodoc(fn), cx, tail='(Raise OtherError)'))

    # ---- IntColumn.__eq__ / __ne__ ---------------------------------------------------------
    for meth, coq in (('__eq__', 'k_int_eq'), ('__ne__', 'k_int_ne')):
        fn = find_function(num, 'IntColumn.%s' % meth)
        params(fn, ['self', 'other'])
        cx = Ctx({'type': 'r_is_type'},
                 {'issubclass(int, other)': ('(r_type_accepts_int other)', 'bool'),
                  'self._datamatrix[:]': ('sel_all', 'pyv'),
                  'self._datamatrix._selectrowid(Index(0))': ('sel_none', 'pyv'),
                  'lambda x, y: np.zeros(len(self._datamatrix))': ('(OpConst false)', 'pyv'),
                  'lambda x, y: np.ones(len(self._datamatrix))': ('(OpConst true)', 'pyv')},
                 {'self._issequence': ('issequence', 'res bool'),
                  'super(IntColumn, self).__eq__': ('base_cmp (OpCmp CEq)', 'res pyv'),
                  'super(IntColumn, self).__ne__': ('base_cmp (OpCmp CNe)', 'res pyv'),
                  'self._compare_value': ('self_compare_value', 'res pyv')})
        cx.locals = {'other'}
        out.append('Definition %s (sel_all sel_none : list nat) (issequence : mref -> res bool) '
                   '(base_cmp : mop -> mref -> res (list nat)) (self_compare_value : pyv -> mop -> res (list nat)) '
                   '(other : mref) : res (list nat) :=\n  %s.\n\n'
                   % (coq, block(body_nodoc(fn), cx, tail='(Raise OtherError)')))

    # ---- the comparison dunder methods bind the operator they are named after ---------------
    for meth, opname in (('__gt__', 'gt'), ('__ge__', 'ge'), ('__lt__', 'lt'), ('__le__', 'le'),
                         ('__eq__', 'eq'), ('__ne__', 'ne')):
        fn = find_function(base, 'BaseColumn.%s' % meth)
        params(fn, ['self', 'other'])
        b = body_nodoc(fn)
        if len(b) != 1:
            raise TranslationError('BaseColumn.%s: body' % meth)
        expect_same(b[0], 'return self._compare(other, operator.%s)' % opname)
    # IntColumn inherits the ordering operators; FloatColumn / MixedColumn inherit all six
    for cls, tree, allowed in (('IntColumn', num, {'__eq__', '__ne__'}), ('FloatColumn', num, set()),
                               ('NumericColumn', num, set())):
        c = find_function(tree, cls)
        for ch in c.body:
            if isinstance(ch, ast.FunctionDef) and ch.name in ('__eq__', '__ne__', '__lt__', '__le__', '__gt__', '__ge__',
                                                               '_compare', '_compare_nan', '_compare_type', '_compare_set',
                                                               '_compare_function', '_issequence') \
                    and ch.name not in allowed:
                raise TranslationError('%s overrides %s' % (cls, ch.name))
    # ---- how the result is materialised: by ROW ID (pinned; Model.Select.selectrowid / getrowidkey mirror it) ----
    # DataMatrix._selectrowid re-reads every column through _getrowidkey; BaseColumn looks each id up in its
    # Index (dict position cache), NumericColumn through a cached argsort of its row ids + searchsorted.  Both
    # are `lookup by row id` on duplicate-free ids (Props/C01.v: dict lookup = positional, argsort+searchsorted
    # = positional; Props/C02.v C02_l_select_refines).  A shortcut keyed on the end points, a stale cache or a
    # positional read changes these statements and is refused here.
    def pin_body(tree, qual, plist, stmts):
        fn = find_function(tree, qual)
        params(fn, plist)
        body = body_nodoc(fn)
        if len(body) != len(stmts):
            raise TranslationError('%s: %d statements, expected %d (pinned body changed)' % (qual, len(body), len(stmts)))
        for node, src in zip(body, stmts):
            expect_same(node, src, qual)

    dmod = load(repo, 'datamatrix/_datamatrix/_datamatrix.py')
    pin_body(dmod, 'DataMatrix._selectrowid', ['self', '_rowid'], [
        'dm = DataMatrix(len(_rowid))',
        "object.__setattr__(dm, u'_rowid', _rowid)",
        "object.__setattr__(dm, u'_id', self._id)",
        'for name, col in self._cols.items():\n'
        '    dm._cols[name] = self._cols[name]._getrowidkey(_rowid)\n'
        '    dm._cols[name]._datamatrix = dm',
        'return dm'])
    pin_body(base, 'BaseColumn._getrowidkey', ['self', 'key'], [
        'col = self._empty_col()',
        'col._rowid = key',
        'col._seq = [self._seq[self._rowid.index(_rowid)] for _rowid in key]',
        'return col'])
    pin_body(num, 'NumericColumn._getrowidkey', ['self', 'key'], [
        'col = self._empty_col()',
        'orig_indices = self._rowid_argsort()',
        'matching_indices = np.searchsorted(self._rowid[orig_indices], key)',
        'selected_indices = orig_indices[matching_indices]',
        'col._rowid = self._rowid[selected_indices]',
        'col._seq = self._seq[selected_indices]',
        'return col'])
    pin_body(num, 'NumericColumn._rowid_argsort', ['self'], [
        'try:\n    rowid_hash = self._rowid.tobytes()\nexcept AttributeError:\n    rowid_hash = self._rowid.tostring()',
        'if rowid_hash == self._rowid_argsort_cache[0]:\n    return self._rowid_argsort_cache[1]',
        'self._rowid_argsort_cache = rowid_hash, self._rowid.argsort()',
        'return self._rowid_argsort_cache[1]'])
    for cls in ('IntColumn', 'FloatColumn'):
        c = find_function(num, cls)
        for ch in c.body:
            if isinstance(ch, ast.FunctionDef) and ch.name in ('_getrowidkey', '_rowid_argsort', '_compare_value',
                                                               '_compare_sequence'):
                raise TranslationError('%s overrides %s' % (cls, ch.name))
    out.append('(* pinned, not translated: DataMatrix._selectrowid, BaseColumn._getrowidkey, NumericColumn._getrowidkey,\n'
               '   NumericColumn._rowid_argsort -- the result is read back by row id *)\n')
    mixed = load(repo, 'datamatrix/_datamatrix/_mixedcolumn.py')
    for ch in ast.walk(mixed):
        if isinstance(ch, ast.FunctionDef) and (ch.name.startswith('_compare') or ch.name in (
                '__eq__', '__ne__', '__lt__', '__le__', '__gt__', '__ge__', '_issequence', '_tosequence', '_checktype',
                '_getrowidkey')):
            raise TranslationError('MixedColumn overrides %s' % ch.name)
    return ''.join(out)
