"""_basecolumn.py / _numericcolumn.py: the descriptive statistics -> Gen/KStats.v

Every arithmetic / decision fragment of BaseColumn.mean/median/std/max/min/sum and _numbers is re-translated on
every run (numbers are exact rationals, Coq `Qc`); the surrounding skeleton (which builtin is applied to which
list) is pinned with expect_same, so that any other edit fails closed.  The NumPy overrides of NumericColumn are
pinned call by call; their only arithmetic parameter (ddof) and their emptiness guards are translated."""
import ast
import re
from py2coq import TranslationError, Env, tr, tr_typed, find_function, body_nodoc, expect_same, dump
from pystmt import Ctx, expr as pexpr
from kernels_common import HEADER, load

FILE = 'KStats.v'


def to_qc(text):
    """py2coq emits rational arithmetic over Q; the statistics use canonical rationals Qc."""
    text = re.sub(r'\(inject_Z ', '(qz ', text)
    text = re.sub(r'\(Qmake (\(-?\d+\)) (\d+)\)', r'(qc \1 \2)', text)
    for a, b in (('Qplus', 'Qcplus'), ('Qminus', 'Qcminus'), ('Qmult', 'Qcmult'), ('Qdiv', 'Qcdiv')):
        text = re.sub(r'\b%s\b' % a, b, text)
    if 'Qmake' in text or 'inject_Z' in text:
        raise TranslationError('rational literal outside the grammar: ' + text)
    return text


def prop_body(tree, qual):
    fn = find_function(tree, qual)
    names = [a.arg for a in fn.args.args]
    if names != ['self'] or fn.args.vararg or fn.args.kwarg or fn.args.kwonlyargs:
        raise TranslationError('%s: signature %s' % (qual, names))
    decos = [ast.unparse(d) for d in fn.decorator_list]
    if decos != ['property']:
        raise TranslationError('%s: decorators %s' % (qual, decos))
    return body_nodoc(fn)


def truth(node, env):
    """Python truthiness of an int or bool expression -> Coq bool."""
    if isinstance(node, ast.UnaryOp) and isinstance(node.op, ast.Not):
        return '(negb %s)' % truth(node.operand, env)
    t, ty = tr(node, env)
    if ty == 'bool':
        return t
    if ty == 'Z':
        return '(negb (Z.eqb %s 0))' % t
    raise TranslationError('truth value of %s' % ast.unparse(node))


def guard_return_nan(stmt, env, what, allowed=('return NAN', 'return CallableFloat(NAN)')):
    """`if TEST: return NAN`  ->  Coq bool for TEST"""
    if not isinstance(stmt, ast.If) or stmt.orelse or len(stmt.body) != 1:
        raise TranslationError('%s: expected `if ...: return NAN`' % what)
    got = ast.unparse(stmt.body[0])
    if got not in allowed:
        raise TranslationError('%s: guarded statement is `%s`' % (what, got))
    return truth(stmt.test, env)


def callable_float_arg(stmt, what):
    """`return CallableFloat(E)` -> E"""
    if not (isinstance(stmt, ast.Return) and isinstance(stmt.value, ast.Call)
            and ast.unparse(stmt.value.func) == 'CallableFloat' and len(stmt.value.args) == 1
            and not stmt.value.keywords):
        raise TranslationError('%s: expected `return CallableFloat(...)`, found `%s`' % (what, ast.unparse(stmt)))
    return stmt.value.args[0]


def with_subscripts(node, env, lst, idx_env):
    """register every `lst[E]` inside node as the rational (qnth lst E') with E' the translated index"""
    for sub in ast.walk(node):
        if isinstance(sub, ast.Subscript) and isinstance(sub.value, ast.Name) and sub.value.id == lst:
            idx = tr_typed(sub.slice, idx_env, 'Z')
            env.table[dump(sub)] = ('(qnth %s %s)' % (lst, idx), 'Q')
    return env


def gen(repo):
    base = load(repo, 'datamatrix/_datamatrix/_basecolumn.py')
    num = load(repo, 'datamatrix/_datamatrix/_numericcolumn.py')
    src = ast.unparse(base)
    for need in ("INF = float('inf')", "NAN = float('nan')", 'import math', 'import numbers'):
        if need not in src:
            raise TranslationError('_basecolumn: module-level `%s` changed' % need)
    nsrc = ast.unparse(num)
    for need in ('from numpy import nanmean, nanmedian, nanstd', 'import numpy as np'):
        if need not in nsrc:
            raise TranslationError('_numericcolumn: module-level `%s` changed' % need)
    out = [HEADER % 'datamatrix/_datamatrix/_basecolumn.py, _numericcolumn.py (statistics)',
           'From Coq Require Import ZArith QArith Qcanon List Bool String.\n'
           'From DM Require Import Base.PyVal Base.QcPy Gen.KCheck.\n'
           'Import ListNotations.\nOpen Scope Z_scope.\n\n']
    zlen = [('len(n)', 'len_n', 'Z')]

    # ---- _numbers: [float(val) for val in self._seq if isinstance(val, numbers.Number) and not self._nanorinf(val)]
    body = prop_body(base, 'BaseColumn._numbers')
    if len(body) != 1 or not isinstance(body[0], ast.Return) or not isinstance(body[0].value, ast.ListComp):
        raise TranslationError('_numbers: expected a single list comprehension')
    comp = body[0].value
    if len(comp.generators) != 1:
        raise TranslationError('_numbers: generators')
    g = comp.generators[0]
    if ast.unparse(g.target) != 'val' or ast.unparse(g.iter) != 'self._seq' or g.is_async:
        raise TranslationError('_numbers: iterates `%s in %s`' % (ast.unparse(g.target), ast.unparse(g.iter)))
    # the type tests a filter over stored cells may use (Base/PyVal.v); a narrower test than numbers.Number translates,
    # and then fails the refinement proof (Proofs/StatsRefine.v numbers_pcell) on NumPy scalar cells
    cx = Ctx({'numbers.Number': 'is_Number', 'NUMBER': 'is_Number', '(int, float)': 'is_int_or_float',
              'int': 'is_int', 'float': 'is_float', 'numbers.Integral': 'is_Integral'}, {},
             {'self._nanorinf': ('k_nanorinf', 'res bool'), 'float': ('b_float', 'res pyv')})
    cx.locals = {'val'}
    if len(g.ifs) == 0:
        keep = '(Ok true)'
    else:
        test = g.ifs[0] if len(g.ifs) == 1 else ast.BoolOp(ast.And(), list(g.ifs))
        t, k = pexpr(test, cx)
        keep = t if k == 'res bool' else '(Ok %s)' % t
        if k not in ('bool', 'res bool'):
            raise TranslationError('_numbers: filter of kind %s' % k)
    t, k = pexpr(comp.elt, cx)
    conv = t if k == 'res pyv' else '(Ok %s)' % t
    if k not in ('pyv', 'res pyv'):
        raise TranslationError('_numbers: element of kind %s' % k)
    out.append('(* BaseColumn._numbers: which cells are kept, and what is stored for a kept cell *)\n'
               'Definition k_numbers_keep (val : pyv) : res bool :=\n  %s.\n' % keep)
    out.append('Definition k_numbers_conv (val : pyv) : res pyv :=\n  %s.\n\n' % conv)

    # ---- mean
    body = prop_body(base, 'BaseColumn.mean')
    if len(body) != 3:
        raise TranslationError('mean: statement count')
    expect_same(body[0], 'n = self._numbers')
    env = Env(zlen)
    g0 = guard_return_nan(body[1], env, 'mean')
    e = callable_float_arg(body[2], 'mean')
    env = Env(zlen + [('sum(n)', 'sum_n', 'Q')])
    val = to_qc(tr_typed(e, env, 'Q'))
    out.append('Definition k_mean_isempty (len_n : Z) : bool := %s.\n' % g0)
    out.append('Definition k_mean_val (sum_n : Qc) (len_n : Z) : Qc := %s.\n\n' % val)

    # ---- median
    body = prop_body(base, 'BaseColumn.median')
    if len(body) != 5:
        raise TranslationError('median: statement count')
    expect_same(body[0], 'n = sorted(self._numbers)')
    g0 = guard_return_nan(body[1], Env(zlen), 'median')
    st = body[2]
    if not (isinstance(st, ast.Assign) and len(st.targets) == 1 and ast.unparse(st.targets[0]) == 'i'):
        raise TranslationError('median: expected `i = ...`')
    idx = tr_typed(st.value, Env(zlen), 'Z')
    st = body[3]
    if not (isinstance(st, ast.If) and not st.orelse and len(st.body) == 1 and isinstance(st.body[0], ast.Return)):
        raise TranslationError('median: expected `if ...: return n[...]`')
    odd = truth(st.test, Env(zlen))
    ienv = Env(zlen + [('i', 'i', 'Z')])
    r = st.body[0].value
    if not (isinstance(r, ast.Subscript) and ast.unparse(r.value) == 'n'):
        raise TranslationError('median: odd branch returns `%s`' % ast.unparse(r))
    oddidx = tr_typed(r.slice, ienv, 'Z')
    e = callable_float_arg(body[4], 'median')
    env = with_subscripts(e, Env([]), 'n', ienv)
    even = to_qc(tr_typed(e, env, 'Q'))
    out.append('Definition k_median_isempty (len_n : Z) : bool := %s.\n' % g0)
    out.append('Definition k_median_i (len_n : Z) : Z := %s.\n' % idx)
    out.append('Definition k_median_isodd (len_n : Z) : bool := %s.\n' % odd)
    out.append('Definition k_median_odd_idx (len_n i : Z) : Z := %s.\n' % oddidx)
    out.append('Definition k_median_even (n : list Qc) (len_n i : Z) : Qc := %s.\n\n' % even)

    # ---- std
    body = prop_body(base, 'BaseColumn.std')
    if len(body) != 4:
        raise TranslationError('std: statement count')
    expect_same(body[0], 'm = self.mean')
    expect_same(body[1], 'n = self._numbers')
    g0 = guard_return_nan(body[2], Env(zlen), 'std')
    e = callable_float_arg(body[3], 'std')
    if not (isinstance(e, ast.Call) and ast.unparse(e.func) == 'math.sqrt' and len(e.args) == 1 and not e.keywords):
        raise TranslationError('std: expected math.sqrt(...)')
    inner = e.args[0]
    gens = [x for x in ast.walk(inner) if isinstance(x, ast.GeneratorExp)]
    if len(gens) != 1:
        raise TranslationError('std: expected one generator expression')
    ge = gens[0]
    if len(ge.generators) != 1 or ge.generators[0].ifs or ast.unparse(ge.generators[0].iter) != 'n' \
            or not isinstance(ge.generators[0].target, ast.Name):
        raise TranslationError('std: generator `%s`' % ast.unparse(ge))
    var = ge.generators[0].target.id
    sum_call = None
    for x in ast.walk(inner):
        if isinstance(x, ast.Call) and ast.unparse(x.func) == 'sum' and len(x.args) == 1 and x.args[0] is ge \
                and not x.keywords:
            sum_call = x
    if sum_call is None:
        raise TranslationError('std: the generator is not summed')
    # element:  (i - m) ** k   with k a positive integer constant, or any Q expression of i and m
    eenv = Env([(var, 'x', 'Q'), ('m', 'm', 'Q')])
    elt = ge.elt
    if isinstance(elt, ast.BinOp) and isinstance(elt.op, ast.Pow):
        if not (isinstance(elt.right, ast.Constant) and type(elt.right.value) is int and 1 <= elt.right.value <= 4):
            raise TranslationError('std: exponent `%s`' % ast.unparse(elt.right))
        b = to_qc(tr_typed(elt.left, eenv, 'Q'))
        term = '(qpow %s %d)' % (b, elt.right.value)
    else:
        term = to_qc(tr_typed(elt, eenv, 'Q'))
    venv = Env(zlen)
    venv.table[dump(sum_call)] = ('ss', 'Q')
    varq = to_qc(tr_typed(inner, venv, 'Q'))
    out.append('Definition k_std_few (len_n : Z) : bool := %s.\n' % g0)
    out.append('Definition k_std_term (x m : Qc) : Qc := %s.\n' % term)
    out.append('(* the argument of math.sqrt, ss being the sum of the terms *)\n'
               'Definition k_std_var (ss : Qc) (len_n : Z) : Qc := %s.\n\n' % varq)

    # ---- max / min / sum
    for name in ('max', 'min', 'sum'):
        body = prop_body(base, 'BaseColumn.%s' % name)
        if len(body) != 3:
            raise TranslationError('%s: statement count' % name)
        expect_same(body[0], 'n = self._numbers')
        g0 = guard_return_nan(body[1], Env(zlen), name)
        expect_same(body[2], 'return CallableFloat(%s(n))' % name)
        out.append('Definition k_%s_isempty (len_n : Z) : bool := %s.\n' % (name, g0))
    out.append('\n')

    # ---- unique / count (pinned skeletons)
    body = prop_body(base, 'BaseColumn.unique')
    if len(body) != 1:
        raise TranslationError('unique: statement count')
    expect_same(body[0], 'return list(safe_sorted(set(self._seq)))')
    body = prop_body(base, 'BaseColumn.count')
    if len(body) != 1:
        raise TranslationError('count: statement count')
    expect_same(body[0], 'return len(self.unique)')

    # ---- NumericColumn
    zseq = [('len(self._seq)', 'len_seq', 'Z')]
    for name, fn in (('mean', 'nanmean'), ('median', 'nanmedian')):
        body = prop_body(num, 'NumericColumn.%s' % name)
        if len(body) != 1:
            raise TranslationError('NumericColumn.%s: statement count' % name)
        expect_same(body[0], 'return CallableFloat(%s(self._seq))' % fn)
    body = prop_body(num, 'NumericColumn.std')
    if len(body) != 1:
        raise TranslationError('NumericColumn.std: statement count')
    e = callable_float_arg(body[0], 'NumericColumn.std')
    if not (isinstance(e, ast.Call) and ast.unparse(e.func) == 'nanstd' and len(e.args) == 1
            and ast.unparse(e.args[0]) == 'self._seq'):
        raise TranslationError('NumericColumn.std: `%s`' % ast.unparse(e))
    ddof = '0'
    for kw in e.keywords:
        if kw.arg != 'ddof':
            raise TranslationError('NumericColumn.std: keyword %s' % kw.arg)
        ddof = tr_typed(kw.value, Env([]), 'Z')
    out.append('(* NumericColumn.std = nanstd(self._seq, ddof=...) *)\nDefinition k_np_ddof : Z := %s.\n' % ddof)
    for name in ('max', 'min', 'sum'):
        body = prop_body(num, 'NumericColumn.%s' % name)
        if name == 'sum' and len(body) == 3:
            # an integer buffer is summed exactly (Python ints: no int64 wrap-around) before the conversion to float;
            # Model/Stats.v takes the exact sum of the cells for every column type
            expect_same(body[1], 'if issubclass(self._seq.dtype.type, np.integer):\n'
                                 '    return CallableFloat(self._seq.sum(dtype=object))')
            body = [body[0], body[2]]
        if len(body) != 2:
            raise TranslationError('NumericColumn.%s: statement count' % name)
        g0 = guard_return_nan(body[0], Env(zseq), 'NumericColumn.' + name,
                              allowed=('return CallableFloat(np.nan)', 'return CallableFloat(nan)', 'return NAN'))
        expect_same(body[1], 'return CallableFloat(np.nan%s(self._seq))' % name)
        out.append('Definition k_np_%s_isempty (len_seq : Z) : bool := %s.\n' % (name, g0))
    body = prop_body(num, 'NumericColumn.unique')
    if len(body) != 1:
        raise TranslationError('NumericColumn.unique: statement count')
    expect_same(body[0], 'return np.unique(self._seq)')
    # ---- the NumPy statistics reduce `self._seq` itself, whereas the CELLS of a numeric column are read through
    # `self.dtype(self._seq[key])`: the model (Model/Stats.v i_stat: the statistics of the ints the column holds) needs
    # the buffer of an IntColumn to hold integers.  Assignment converts through _checktype / _tosequence (C05); the
    # other writer of `_seq` is _operate (the result column of an operator, incl. the reflected true division that
    # IntColumn does not override), where IntColumn casts the result back to its dtype.  Pinned.
    body = body_nodoc(find_function(num, 'NumericColumn._getintkey'))
    if len(body) != 1:
        raise TranslationError('NumericColumn._getintkey: statement count')
    expect_same(body[0], 'return self.dtype(self._seq[key])')
    body = body_nodoc(find_function(num, 'IntColumn._operate'))
    if len(body) != 3:
        raise TranslationError('IntColumn._operate: statement count')
    expect_same(body[0], 'col = super(IntColumn, self)._operate(other, number_op, str_op=None, flip=flip)')
    expect_same(body[1], 'col._seq = col._seq.astype(self.dtype)')
    expect_same(body[2], 'return col')
    for cls in ('FloatColumn', 'IntColumn', 'MixedColumn'):
        tree = num if cls != 'MixedColumn' else load(repo, 'datamatrix/_datamatrix/_mixedcolumn.py')
        c = find_function(tree, cls)
        for child in ast.walk(c):
            if isinstance(child, ast.FunctionDef) and child.name in (
                    'mean', 'median', 'std', 'max', 'min', 'sum', 'unique', 'count', '_numbers', '_nanorinf'):
                raise TranslationError('%s overrides %s' % (cls, child.name))
    return ''.join(out)
