"""_basecolumn.py / _numericcolumn.py / functional.py: column arithmetic -> Gen/KArith.v

Regenerated on every run (fail closed):
  * the operator table: for every arithmetic dunder of BaseColumn (and the overrides of IntColumn) which
    `operator.X` is passed as number_op, whether a str_op (operator.concat) is passed, and the flip flag;
  * the per-cell decision of BaseColumn._operate: how (_other, val) is taken from (cell, operand) depending on
    flip, the number test, the text branch (argument order of str_op), the fall-through cell;
  * the argument order of NumericColumn._operate for flip / not flip, IntColumn._operate's delegation
    (str_op dropped, flip passed on, astype) ;
  * the row ids given to the result, and _map / __matmul__ / map_.
"""
import ast
from py2coq import TranslationError, find_function, body_nodoc, expect_same, dump, parse_expr
from kernels_common import HEADER, load

FILE = 'KArith.v'

DUNDERS = [('__add__', 'DAdd'), ('__radd__', 'DRAdd'), ('__sub__', 'DSub'), ('__rsub__', 'DRSub'),
           ('__mul__', 'DMul'), ('__rmul__', 'DRMul'), ('__truediv__', 'DTruediv'), ('__rtruediv__', 'DRTruediv'),
           ('__floordiv__', 'DFloordiv'), ('__rfloordiv__', 'DRFloordiv'), ('__mod__', 'DMod'), ('__rmod__', 'DRMod'),
           ('__pow__', 'DPow'), ('__rpow__', 'DRPow')]
OPS = {'add': 'OAdd', 'sub': 'OSub', 'mul': 'OMul', 'truediv': 'OTruediv', 'floordiv': 'OFloordiv', 'mod': 'OMod',
       'pow': 'OPow'}
# other arithmetic-looking methods that would change which code runs for an operator
OTHER = ['__iadd__', '__isub__', '__imul__', '__itruediv__', '__ifloordiv__', '__imod__', '__ipow__',
         '__rmatmul__', '__imatmul__', '__neg__', '__pos__', '__array_ufunc__', '__array_priority__']


def same(node, src):
    # compared as normalised source text (ignores Load/Store context)
    return ast.unparse(node) == ast.unparse(parse_expr(src))


def class_methods(tree, cls):
    node = find_function(tree, cls)
    if not isinstance(node, ast.ClassDef):
        raise TranslationError('%s is not a class' % cls)
    out = {}
    for ch in node.body:
        if isinstance(ch, ast.FunctionDef):
            if ch.name in out and (ch.name.startswith('__') or ch.name in ('_operate', '_map', '_tosequence', '_checktype')):
                raise TranslationError('%s.%s defined twice' % (cls, ch.name))
            out[ch.name] = ch
        elif isinstance(ch, ast.Assign):
            for t in ch.targets:
                if isinstance(t, ast.Name) and (t.id.startswith('__') and t.id.endswith('__')):
                    raise TranslationError('%s: dunder alias %s' % (cls, t.id))
    return node, out


def dunder_entry(fn):
    """`def __x__(self, other): return self._operate(other, operator.OP[, operator.concat][, flip=B])`"""
    names = [a.arg for a in fn.args.args]
    if names != ['self', 'other'] or fn.args.vararg or fn.args.kwarg or fn.args.kwonlyargs or fn.decorator_list:
        raise TranslationError('%s: signature' % fn.name)
    body = body_nodoc(fn)
    if len(body) != 1 or not isinstance(body[0], ast.Return) or not isinstance(body[0].value, ast.Call):
        raise TranslationError('%s: body is not a single return of a call' % fn.name)
    call = body[0].value
    if not same(call.func, 'self._operate'):
        raise TranslationError('%s: does not call self._operate' % fn.name)
    args = list(call.args)
    kws = {k.arg: k.value for k in call.keywords}
    if None in kws or set(kws) - {'str_op', 'flip'}:
        raise TranslationError('%s: keywords %s' % (fn.name, sorted(map(str, kws))))
    if len(args) < 2 or len(args) > 4 or not same(args[0], 'other'):
        raise TranslationError('%s: positional arguments' % fn.name)
    op = args[1]
    if not (isinstance(op, ast.Attribute) and same(op.value, 'operator') and op.attr in OPS):
        raise TranslationError('%s: number_op %s' % (fn.name, ast.unparse(op)))
    str_op = args[2] if len(args) > 2 else kws.get('str_op')
    flip = args[3] if len(args) > 3 else kws.get('flip')
    if len(args) > 2 and 'str_op' in kws or len(args) > 3 and 'flip' in kws:
        raise TranslationError('%s: duplicate argument' % fn.name)
    if str_op is None or same(str_op, 'None'):
        has_str = 'false'
    elif same(str_op, 'operator.concat'):
        has_str = 'true'
    else:
        raise TranslationError('%s: str_op %s' % (fn.name, ast.unparse(str_op)))
    if flip is None:
        fl = 'false'
    elif isinstance(flip, ast.Constant) and flip.value in (True, False):
        fl = 'true' if flip.value else 'false'
    else:
        raise TranslationError('%s: flip %s' % (fn.name, ast.unparse(flip)))
    return '(%s, %s, %s)' % (OPS[op.attr], has_str, fl)


def table(name, methods, cls, inherit):
    lines = ['Definition %s (d : dunder) : binop * bool * bool :=\n  match d with\n' % name]
    n = 0
    for py, coq in DUNDERS:
        if py in methods:
            lines.append('  | %s => %s\n' % (coq, dunder_entry(methods[py])))
            n += 1
        elif inherit is None:
            raise TranslationError('%s has no %s' % (cls, py))
    if inherit is not None and n < len(DUNDERS):
        lines.append('  | _ => %s d\n' % inherit)
    lines.append('  end.\n')
    for o in OTHER:
        if o in methods:
            raise TranslationError('%s defines %s (not modelled)' % (cls, o))
    return ''.join(lines)


def operate_sig(fn, what):
    names = [a.arg for a in fn.args.args]
    if names[0] != 'self' or names[2:] != ['number_op', 'str_op', 'flip'] or len(names) != 5:
        raise TranslationError('%s: signature %s' % (what, names))
    d = fn.args.defaults
    if len(d) != 2 or not same(d[0], 'None') or not same(d[1], 'False'):
        raise TranslationError('%s: defaults of str_op/flip changed' % what)
    return names[1]


class E:
    """expressions of the per-cell code of BaseColumn._operate"""
    def __init__(self, names):
        self.names = names          # python name -> coq name (values)

    def val(self, node):
        if isinstance(node, ast.Name) and node.id in self.names:
            return self.names[node.id]
        if isinstance(node, ast.IfExp):
            return '(if %s then %s else %s)' % (self.cond(node.test), self.val(node.body), self.val(node.orelse))
        if isinstance(node, ast.Call) and not node.keywords:
            if same(node.func, 'number_op') and len(node.args) == 2:
                return '(number_op %s %s)' % (self.val(node.args[0]), self.val(node.args[1]))
            if same(node.func, 'str_op') and len(node.args) == 2:
                return '(VStr (str_op_ %s %s))' % (self.text(node.args[0]), self.text(node.args[1]))
        raise TranslationError('_operate: value expression %s' % ast.unparse(node))

    def text(self, node):
        if isinstance(node, ast.Call) and same(node.func, 'safe_decode') and len(node.args) == 1 and not node.keywords:
            return '(safe_decode %s)' % self.val(node.args[0])
        raise TranslationError('_operate: text expression %s' % ast.unparse(node))

    def cond(self, node):
        if isinstance(node, ast.Name) and node.id == 'flip':
            return 'flip'
        if isinstance(node, ast.UnaryOp) and isinstance(node.op, ast.Not):
            return '(negb %s)' % self.cond(node.operand)
        if isinstance(node, ast.BoolOp):
            op = ' && ' if isinstance(node.op, ast.And) else ' || '
            return '(' + op.join(self.cond(v) for v in node.values) + ')'
        if isinstance(node, ast.Call) and same(node.func, 'isinstance') and len(node.args) == 2 and not node.keywords \
                and same(node.args[1], 'NUMBER'):
            return '(val_is_number %s)' % self.val(node.args[0])
        if isinstance(node, ast.Constant) and node.value in (True, False):
            return 'true' if node.value else 'false'
        raise TranslationError('_operate: condition %s' % ast.unparse(node))


def assign_cell(st, ex):
    """`col._seq[i] = E`"""
    if not (isinstance(st, ast.Assign) and len(st.targets) == 1 and same(st.targets[0], 'col._seq[i]')):
        raise TranslationError('_operate: expected `col._seq[i] = ...`, found `%s`' % ast.unparse(st))
    return ex.val(st.value)


def rowid_stmt(st, what):
    if not (isinstance(st, ast.Assign) and len(st.targets) == 1 and same(st.targets[0], 'col._rowid')):
        raise TranslationError('%s: expected `col._rowid = ...`' % what)
    if same(st.value, 'self._rowid.copy()') or same(st.value, 'self._rowid'):
        return 'ids'
    raise TranslationError('%s: result row ids are %s' % (what, ast.unparse(st.value)))


def zip_pair(node, other_name):
    """zip(A, B) with A, B in {self._seq, self._tosequence(other, len(self))} -> ('cell'|'x', 'cell'|'x')"""
    if not (isinstance(node, ast.Call) and same(node.func, 'zip') and len(node.args) == 2 and not node.keywords):
        raise TranslationError('_operate: expected zip(..), found %s' % ast.unparse(node))
    out = []
    for a in node.args:
        if same(a, 'self._seq'):
            out.append('cell')
        elif same(a, 'self._tosequence(%s, len(self))' % other_name):
            out.append('x')
        else:
            raise TranslationError('_operate: zip argument %s' % ast.unparse(a))
    if sorted(out) != ['cell', 'x']:
        raise TranslationError('_operate: zip does not pair the cells with the operand')
    return '(%s, %s)' % tuple(out)


def gen_base_operate(fn):
    other = operate_sig(fn, 'BaseColumn._operate')
    body = body_nodoc(fn)
    if len(body) != 4:
        raise TranslationError('BaseColumn._operate: %d statements, expected 4' % len(body))
    expect_same(body[0], 'col = self._empty_col()')
    ids = rowid_stmt(body[1], 'BaseColumn._operate')
    loop = body[2]
    expect_same(body[3], 'return col')
    if not isinstance(loop, ast.For) or loop.orelse:
        raise TranslationError('BaseColumn._operate: expected a for loop')
    tg = loop.target
    if not (isinstance(tg, ast.Tuple) and len(tg.elts) == 2 and same(tg.elts[0], 'i')
            and isinstance(tg.elts[1], ast.Tuple) and len(tg.elts[1].elts) == 2
            and all(isinstance(e, ast.Name) for e in tg.elts[1].elts)):
        raise TranslationError('BaseColumn._operate: loop target')
    n1, n2 = [e.id for e in tg.elts[1].elts]
    if sorted([n1, n2]) != ['_other', 'val']:
        raise TranslationError('BaseColumn._operate: loop variables %s, %s' % (n1, n2))
    it = loop.iter
    if not (isinstance(it, ast.Call) and same(it.func, 'enumerate') and len(it.args) == 1 and not it.keywords):
        raise TranslationError('BaseColumn._operate: expected enumerate(...)')
    src = it.args[0]
    ex = E({'val': 'val_', '_other': '_other'})
    if isinstance(src, ast.IfExp):
        pair = '(if %s then %s else %s)' % (ex.cond(src.test), zip_pair(src.body, other), zip_pair(src.orelse, other))
    else:
        pair = zip_pair(src, other)
    # loop body: [if C: col._seq[i] = E; continue]* ; col._seq[i] = E
    stmts = list(loop.body)
    if not stmts:
        raise TranslationError('BaseColumn._operate: empty loop')
    term = assign_cell(stmts[-1], ex)
    for st in reversed(stmts[:-1]):
        if not (isinstance(st, ast.If) and not st.orelse and len(st.body) == 2 and isinstance(st.body[1], ast.Continue)):
            raise TranslationError('BaseColumn._operate: expected `if ..: col._seq[i] = ..; continue`')
        if same(st.test, 'str_op is not None'):
            v = assign_cell(st.body[0], ex)
            term = '(match str_op with Some str_op_ => %s | None => %s end)' % (v, term)
        else:
            term = '(if %s then %s else %s)' % (ex.cond(st.test), assign_cell(st.body[0], ex), term)
    out = []
    out.append('(* BaseColumn._operate: the loop variables (%s, %s) for one row, from the cell and the operand *)\n'
               'Definition k_base_pair {A : Type} (flip : bool) (cell x : A) : A * A := %s.\n' % (n1, n2, pair))
    out.append('Definition k_base_cell (number_op : val -> val -> val) (str_op : option (string -> string -> string))\n'
               '    (safe_decode : val -> string) (flip : bool) (p : val * val) : val :=\n'
               '  let \'(%s, %s) := p in\n  %s.\n' % (ex.names[n1], ex.names[n2], term))
    out.append('Definition k_base_rowid (ids : list N) : list N := %s.\n' % ids)
    return ''.join(out)


def gen_numeric_operate(fn):
    other = operate_sig(fn, 'NumericColumn._operate')
    body = body_nodoc(fn)
    if len(body) != 4:
        raise TranslationError('NumericColumn._operate: %d statements, expected 4' % len(body))
    expect_same(body[0], 'col = self._empty_col()')
    ids = rowid_stmt(body[1], 'NumericColumn._operate')
    expect_same(body[3], 'return col')
    br = body[2]
    if not (isinstance(br, ast.If) and len(br.body) == 1 and len(br.orelse) == 1):
        raise TranslationError('NumericColumn._operate: expected if flip: .. else: ..')
    ex = E({})

    def arm(st):
        if not (isinstance(st, ast.Assign) and len(st.targets) == 1 and same(st.targets[0], 'col._seq')
                and isinstance(st.value, ast.Call) and same(st.value.func, 'number_op') and len(st.value.args) == 2
                and not st.value.keywords):
            raise TranslationError('NumericColumn._operate: expected col._seq = number_op(.., ..)')
        out = []
        for a in st.value.args:
            if same(a, 'self._seq'):
                out.append('cell')
            elif same(a, 'self._tosequence(%s, len(self))' % other):
                out.append('x')
            else:
                raise TranslationError('NumericColumn._operate: argument %s' % ast.unparse(a))
        if sorted(out) != ['cell', 'x']:
            raise TranslationError('NumericColumn._operate: does not combine the cells with the operand')
        return '(number_op %s %s)' % tuple(out)
    term = '(if %s then %s else %s)' % (ex.cond(br.test), arm(br.body[0]), arm(br.orelse[0]))
    return ('(* NumericColumn._operate: one element of the vectorised operation *)\n'
            'Definition k_numeric_cell {A : Type} (number_op : A -> A -> A) (flip : bool) (cell x : A) : A :=\n  %s.\n'
            'Definition k_numeric_rowid (ids : list N) : list N := %s.\n' % (term, ids))


def gen_int_operate(fn):
    other = operate_sig(fn, 'IntColumn._operate')
    body = body_nodoc(fn)
    if len(body) != 3:
        raise TranslationError('IntColumn._operate: %d statements, expected 3' % len(body))
    st = body[0]
    if not (isinstance(st, ast.Assign) and len(st.targets) == 1 and same(st.targets[0], 'col')
            and isinstance(st.value, ast.Call) and same(st.value.func, 'super(IntColumn, self)._operate')):
        raise TranslationError('IntColumn._operate: expected col = super(IntColumn, self)._operate(...)')
    call = st.value
    kws = {k.arg: k.value for k in call.keywords}
    args = list(call.args)
    if len(args) < 2 or not same(args[0], other) or not same(args[1], 'number_op') or len(args) > 4:
        raise TranslationError('IntColumn._operate: positional arguments of the delegated call')
    str_op = args[2] if len(args) > 2 else kws.get('str_op')
    flip = args[3] if len(args) > 3 else kws.get('flip')
    if str_op is not None and not same(str_op, 'None'):
        raise TranslationError('IntColumn._operate: passes a str_op')
    ex = E({})
    fl = 'false' if flip is None else ex.cond(flip)
    expect_same(body[1], 'col._seq = col._seq.astype(self.dtype)')
    expect_same(body[2], 'return col')
    return ('(* IntColumn._operate: NumericColumn._operate (flip passed on as written), then astype(int) *)\n'
            'Definition k_int_cell {A : Type} (astype : A -> A) (number_op : A -> A -> A) (flip : bool) (cell x : A) : A :=\n'
            '  astype (k_numeric_cell number_op %s cell x).\n' % fl)


def gen_series_operate(tree):
    _, sm = class_methods(tree, '_SeriesColumn')
    for py, _c in DUNDERS:
        if py in sm:
            raise TranslationError('_SeriesColumn overrides %s (not modelled)' % py)
    for o in OTHER + ['__matmul__']:
        if o in sm:
            raise TranslationError('_SeriesColumn defines %s (not modelled)' % o)
    # _SeriesColumn._map (col @ f, map_(f, col) on a series column) is PINNED: every f(cell) is written through the new
    # column's own setter (`newcol[i] = a`: cast into the float64 buffer of a fresh series column).  That is what lets
    # _operate below trust that the buffer of a DERIVED series column is a float array whatever f returned (bool / int /
    # float32 arrays, Python lists): a result column built from the stacked results keeps THEIR dtype, and
    # mapped + mapped becomes a logical OR.  (Nothing is emitted for it: the generated text does not change.)
    mp = sm.get('_map')
    if mp is None:
        raise TranslationError('_SeriesColumn does not define _map (pinned)')
    if [a.arg for a in mp.args.args] != ['self', 'fnc'] or mp.args.vararg or mp.args.kwarg or mp.args.kwonlyargs \
            or mp.args.defaults or mp.decorator_list:
        raise TranslationError('_SeriesColumn._map: signature')
    mbody = body_nodoc(mp)
    if len(mbody) != 2:
        raise TranslationError('_SeriesColumn._map: %d statements, expected 2 (pinned)' % len(mbody))
    expect_same(mbody[0], 'for i, cell in enumerate(self):\n    a = fnc(cell)\n    if not i:\n'
                          '        newcol = _SeriesColumn(self.dm, depth=len(a))\n    newcol[i] = a', '_SeriesColumn._map')
    expect_same(mbody[1], 'return newcol', '_SeriesColumn._map')
    fn = sm['_operate']
    other = operate_sig(fn, '_SeriesColumn._operate')
    body = body_nodoc(fn)
    if len(body) != 7 or other != 'a':
        raise TranslationError('_SeriesColumn._operate: %d statements, expected 7' % len(body))
    expect_same(body[0], 'if isinstance(a, (list, tuple)):\n    a = np.array(a, dtype=self.dtype)')
    expect_same(body[1], 'if isinstance(a, NumericColumn):\n    a = np.array(a._seq)')
    expect_same(body[2], 'if isinstance(a, np.ndarray) and a.shape == (len(self),):\n'
                         '    a2 = np.empty((len(self), self._depth), dtype=self.dtype)\n'
                         '    np.rot90(a2)[:] = a\n    a = a2')
    expect_same(body[3], 'col = self._empty_col()')
    ids = rowid_stmt(body[4], '_SeriesColumn._operate')
    expect_same(body[6], 'return col')
    st = body[5]
    if not (isinstance(st, ast.Assign) and len(st.targets) == 1 and same(st.targets[0], 'col._seq')):
        raise TranslationError('_SeriesColumn._operate: expected col._seq = ...')
    ex = E({})

    def call(node):
        if not (isinstance(node, ast.Call) and same(node.func, 'number_op') and len(node.args) == 2 and not node.keywords):
            raise TranslationError('_SeriesColumn._operate: expected number_op(.., ..)')
        out = []
        for x in node.args:
            if same(x, 'self._seq'):
                out.append('cell')
            elif same(x, 'a'):
                out.append('a')
            else:
                raise TranslationError('_SeriesColumn._operate: argument %s' % ast.unparse(x))
        if sorted(out) != ['a', 'cell']:
            raise TranslationError('_SeriesColumn._operate: does not combine the cells with the operand')
        return '(number_op %s %s)' % tuple(out)
    v = st.value
    if isinstance(v, ast.IfExp):
        term = '(if %s then %s else %s)' % (ex.cond(v.test), call(v.body), call(v.orelse))
    else:
        term = call(v)
    return ('(* _SeriesColumn._operate: one sample of the broadcast operation; a 1-D operand as long as the column\n'
            '   is applied per row (pinned), anything else is left to NumPy broadcasting *)\n'
            'Definition k_series_cell {A : Type} (number_op : A -> A -> A) (flip : bool) (cell a : A) : A :=\n  %s.\n'
            'Definition k_series_rowid (ids : list N) : list N := %s.\n' % (term, ids))


def listcomp_map(node, what):
    """[fnc(val) for val in self._seq]"""
    if not (isinstance(node, ast.ListComp) and len(node.generators) == 1):
        raise TranslationError('%s: expected a list comprehension' % what)
    g = node.generators[0]
    if g.ifs or g.is_async or not isinstance(g.target, ast.Name) or not same(g.iter, 'self._seq'):
        raise TranslationError('%s: comprehension is not over all of self._seq' % what)
    if not same(node.elt, 'fnc(%s)' % g.target.id):
        raise TranslationError('%s: element is %s' % (what, ast.unparse(node.elt)))
    return True


def gen_map(base_fn, num_fn, base_methods, fun_tree):
    out = []
    for fn, what in ((base_fn, 'BaseColumn._map'), (num_fn, 'NumericColumn._map')):
        if [a.arg for a in fn.args.args] != ['self', 'fnc']:
            raise TranslationError('%s: signature' % what)
        body = body_nodoc(fn)
        if len(body) != 4:
            raise TranslationError('%s: %d statements' % (what, len(body)))
        expect_same(body[0], 'col = self._empty_col()')
        ids = rowid_stmt(body[1], what)
        expect_same(body[3], 'return col')
        st = body[2]
        if not (isinstance(st, ast.Assign) and len(st.targets) == 1 and same(st.targets[0], 'col._seq')):
            raise TranslationError('%s: expected col._seq = ...' % what)
        if what.startswith('Base'):
            listcomp_map(st.value, what)
            out.append('Definition k_base_map {A B : Type} (fnc : A -> B) (seq : list A) : list B := map fnc seq.\n'
                       'Definition k_base_map_rowid (ids : list N) : list N := %s.\n' % ids)
        else:
            v = st.value
            if not (isinstance(v, ast.Call) and same(v.func, 'np.array') and len(v.args) == 1 and len(v.keywords) == 1
                    and v.keywords[0].arg == 'dtype' and same(v.keywords[0].value, 'self.dtype')):
                raise TranslationError('%s: expected np.array([...], dtype=self.dtype)' % what)
            listcomp_map(v.args[0], what)
            out.append('Definition k_numeric_map {A B C : Type} (cast : B -> C) (fnc : A -> B) (seq : list A) : list C :=\n'
                       '  map (fun val_ => cast (fnc val_)) seq.\n'
                       'Definition k_numeric_map_rowid (ids : list N) : list N := %s.\n' % ids)
    mm = base_methods.get('__matmul__')
    if mm is None or [a.arg for a in mm.args.args] != ['self', 'other']:
        raise TranslationError('BaseColumn.__matmul__ missing')
    b = body_nodoc(mm)
    if len(b) != 1:
        raise TranslationError('BaseColumn.__matmul__: body')
    expect_same(b[0], 'return self._map(other)')
    fn = find_function(fun_tree, 'map_')
    if [a.arg for a in fn.args.args] != ['fnc', 'obj']:
        raise TranslationError('map_: signature')
    b = body_nodoc(fn)
    if len(b) < 2:
        raise TranslationError('map_: body')
    expect_same(b[0], "if not callable(fnc):\n    raise TypeError('fnc should be callable')")
    expect_same(b[1], 'if isinstance(obj, BaseColumn):\n    return obj._map(fnc)')
    out.append('(* col @ f and map_(f, col) are both col._map(f) *)\nDefinition k_matmul_is_map : bool := true.\n')
    return ''.join(out)


def gen(repo):
    base = load(repo, 'datamatrix/_datamatrix/_basecolumn.py')
    num = load(repo, 'datamatrix/_datamatrix/_numericcolumn.py')
    fun = load(repo, 'datamatrix/functional.py')
    mixed = load(repo, 'datamatrix/_datamatrix/_mixedcolumn.py')
    out = [HEADER % 'datamatrix/_datamatrix/_basecolumn.py, _numericcolumn.py, functional.py',
           'From Coq Require Import ZArith List Bool String.\nFrom DM Require Import Base.PyVal Spec.Nf Spec.Arith.\n'
           'Import ListNotations.\n\n']
    src = ast.unparse(base)
    if 'NUMBER = numbers.Number' not in src:
        raise TranslationError('_basecolumn: NUMBER definition changed')
    _, bm = class_methods(base, 'BaseColumn')
    _, nm = class_methods(num, 'NumericColumn')
    fnode, fm = class_methods(num, 'FloatColumn')
    _, im = class_methods(num, 'IntColumn')
    mnode, mm = class_methods(mixed, 'MixedColumn')
    for cls, ms in (('NumericColumn', nm), ('FloatColumn', fm), ('MixedColumn', mm)):
        for py, _c in DUNDERS:
            if py in ms:
                raise TranslationError('%s overrides %s (not modelled)' % (cls, py))
        for o in OTHER + ['__matmul__']:
            if o in ms:
                raise TranslationError('%s defines %s (not modelled)' % (cls, o))
    for cls, ms in (('FloatColumn', fm), ('MixedColumn', mm)):
        for o in ('_operate', '_map', '_tosequence', '_checktype'):
            if o in ms:
                raise TranslationError('%s overrides %s (not modelled)' % (cls, o))
    if '_map' in im or '__matmul__' in im:
        raise TranslationError('IntColumn overrides _map/__matmul__ (not modelled)')
    out.append('(* which operator, whether operator.concat is passed as str_op, and the flip flag, per operator method *)\n')
    out.append(table('k_base_dunder', bm, 'BaseColumn', None))
    out.append(table('k_int_dunder', im, 'IntColumn', 'k_base_dunder'))
    out.append('\n')
    out.append(gen_base_operate(bm['_operate']))
    out.append('\n')
    out.append(gen_numeric_operate(nm['_operate']))
    out.append('\n')
    out.append(gen_int_operate(im['_operate']))
    out.append('\n')
    out.append(gen_map(bm['_map'], nm['_map'], bm, fun))
    out.append('\n')
    out.append(gen_series_operate(load(repo, 'datamatrix/_datamatrix/_seriescolumn.py')))
    return ''.join(out)
