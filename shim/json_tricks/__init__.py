"""Minimal stand-in for the `json_tricks` package (not installed in this
sandbox).  Only what python-datamatrix uses: dumps/loads of scalars, lists,
tuples, dicts/OrderedDicts and NumPy arrays, with the allow_nan switch.
Used by /verif's harness only when `import json_tricks` fails."""
import json
from collections import OrderedDict

import numpy as np


def _enc(obj):
    if isinstance(obj, np.ndarray):
        return OrderedDict([('__ndarray__', obj.tolist()), ('dtype', str(obj.dtype)),
                            ('shape', list(obj.shape))])
    if isinstance(obj, np.generic):
        return obj.item()
    if isinstance(obj, (set, frozenset)):
        return OrderedDict([('__set__', sorted(obj, key=repr))])
    raise TypeError('Object of type %s is not JSON serializable' % type(obj).__name__)


def dumps(obj, allow_nan=False, sort_keys=None, **kwargs):
    return json.dumps(obj, default=_enc, allow_nan=allow_nan, sort_keys=bool(sort_keys))


def _hook(pairs):
    d = OrderedDict(pairs)
    if '__ndarray__' in d and 'dtype' in d:
        a = np.array(d['__ndarray__'], dtype=d['dtype'])
        if 'shape' in d:
            a = a.reshape(d['shape'])
        return a
    if '__set__' in d and len(d) == 1:
        return set(d['__set__'])
    return d


def loads(s, **kwargs):
    return json.loads(s, object_pairs_hook=_hook)


def dump(obj, fp, **kwargs):
    fp.write(dumps(obj, **kwargs))


def load(fp, **kwargs):
    return loads(fp.read(), **kwargs)
