#!/bin/bash
# developer helper: refresh kernels + _CoqProject + Makefile, then make
cd "$(dirname "$0")/.."
/venv/bin/python translate/kernels.py /repo coq/theories/Gen
/venv/bin/python -c "import sys; sys.path.insert(0,'harness'); import framework; framework.write_coqproject()"
cd coq && coq_makefile -f _CoqProject -o Makefile >/dev/null && timeout 3000 make -k -j16 2>&1 | grep -E "Error|error|^File|\*\*\*" -A12 | head -${1:-60}
