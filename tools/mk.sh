#!/bin/bash
# developer helper: refresh kernels + _CoqProject + Makefile, then make -k (under the same lock ./check uses)
cd "$(dirname "$0")/.."
mkdir -p .work
exec 9>.work/build.lock
flock 9
/venv/bin/python translate/kernels.py /repo coq/theories/Gen
/venv/bin/python -c "import sys; sys.path.insert(0,'harness'); import framework; framework.write_coqproject()"
cd coq && { [ Makefile -nt _CoqProject ] || coq_makefile -f _CoqProject -o Makefile >/dev/null; } && ( ulimit -v 12000000; timeout 3000 make -k -j16 COQC="timeout 240 coqc" 2>&1 ) | grep -E "Error|error|^File|\*\*\*" -A12 | head -${1:-60}
