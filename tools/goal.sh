#!/bin/bash
# usage: goal.sh theories/Proofs/X.v LINE  -> shows the proof state after LINE lines
cd /verif/coq
head -n $2 $1 > /tmp/goal_dbg.v
echo "Show." >> /tmp/goal_dbg.v
coqc -Q theories DM /tmp/goal_dbg.v 2>&1 | grep -v "pending proofs" | head -${3:-60}
