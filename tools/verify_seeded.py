#!/usr/bin/env python3
"""Confirm seeded changes: patch applies, suite keeps its 53 passes, demo fails with and passes without.
usage: verify_seeded.py <srcdir containing out-Cxx/> <destdir=/verif/seeded>"""
import json, os, re, shutil, subprocess, sys
src, dest = sys.argv[1], sys.argv[2]
WT = '/tmp/sv_worktree'
def sh(cmd, **kw):
    return subprocess.run(cmd, shell=True, stdout=subprocess.PIPE, stderr=subprocess.STDOUT, text=True, **kw)
sh('git -C /repo worktree remove --force %s' % WT)
sh('git -C /repo worktree add --detach %s HEAD' % WT)
env = dict(os.environ, PYTHONPATH='%s:/verif/shim' % WT, PYTHONDONTWRITEBYTECODE='1')
def passes():
    r = sh('cd %s && timeout 300 /venv/bin/python -m pytest -q -p no:cacheprovider --timeout=120 --continue-on-collection-errors testcases 2>&1 | tail -3' % WT, env=dict(os.environ, PYTHONDONTWRITEBYTECODE='1'))
    m = re.search(r'(\d+) passed', r.stdout)
    return int(m.group(1)) if m else -1
base = passes()
print('baseline passes', base)
for d in sorted(os.listdir(src)):
    if not d.startswith('out-C'): continue
    pid = d[4:]
    for k in range(1, 10):
        patch = os.path.join(src, d, 'patch_%d.diff' % k)
        demo = os.path.join(src, d, 'demo_%d.py' % k)
        meta = os.path.join(src, d, 'meta_%d.json' % k)
        if not (os.path.exists(patch) and os.path.exists(demo)): continue
        sid = '%s-%d' % (pid, k + int(os.environ.get('SEED_OFFSET', '0')))
        out = os.path.join(dest, sid)
        if os.path.exists(os.path.join(out, 'meta.json')) and '--force' not in sys.argv: 
            print(sid, 'already verified'); continue
        sh('git -C %s checkout -- . && git -C %s clean -fdq' % (WT, WT))
        # the agents' demos reference their own worktree path in comments only; run with PYTHONPATH
        clean = sh('cd /tmp && /venv/bin/python %s' % demo, env=env, timeout=600)
        ap = sh('git -C %s apply %s' % (WT, patch))
        if ap.returncode != 0:
            print(sid, 'PATCH DOES NOT APPLY', ap.stdout[:300]); continue
        withp = sh('cd /tmp && /venv/bin/python %s' % demo, env=env, timeout=600)
        n = passes()
        sh('git -C %s checkout -- . && git -C %s clean -fdq' % (WT, WT))
        ok = clean.returncode == 0 and withp.returncode != 0 and n == base
        print(sid, 'OK' if ok else 'REJECT', 'demo_clean_rc=%d demo_patched_rc=%d passes=%d' % (clean.returncode, withp.returncode, n))
        if ok:
            os.makedirs(out, exist_ok=True)
            shutil.copy(patch, os.path.join(out, 'patch.diff'))
            shutil.copy(demo, os.path.join(out, 'demo.py'))
            m = json.load(open(meta)) if os.path.exists(meta) else {}
            m.update({'id': sid, 'breaks_property': pid,
                      'confirmed_by': 'tools/verify_seeded.py: fresh worktree of /repo HEAD; patch applies; pytest passes=%d (baseline %d); demo rc=0 without patch, rc=%d with patch (PYTHONPATH=<worktree>:/verif/shim)' % (n, base, withp.returncode),
                      'demo_output_with_patch': withp.stdout[-600:]})
            json.dump(m, open(os.path.join(out, 'meta.json'), 'w'), indent=1)
sh('git -C /repo worktree remove --force %s' % WT)
