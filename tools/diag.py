#!/venv/bin/python
"""diag.py <replay.json>: re-run a history replay and show the first step where the implementation and Spec disagree."""
import json, os, subprocess, sys, warnings
warnings.filterwarnings('ignore')
sys.path.insert(0, '/verif/harness'); sys.path.insert(0, '/repo')
import world
d = json.load(open(sys.argv[1]))
inp = d['case']['input'] if 'case' in d else d
ops = [{k: v for k, v in o.items() if k != 'perm'} for o in inp['ops']]
steps, final, problems, stats = world.run_history(ops, seed=inp.get('seed', 0))
for i, (o, out) in enumerate(zip(ops, stats['outcomes'])):
    print(i, out, {k: v for k, v in o.items()})
print('python-side problems:', problems)
os.makedirs('/verif/.work/diag', exist_ok=True)
with open('/verif/.work/diag/d.v', 'w') as f:
    f.write('From DM Require Import Run.SCore.\nFrom Coq Require Import ZArith List Bool String.\nImport ListNotations.\nOpen Scope string_scope.\nOpen Scope Z_scope.\n')
    f.write('Definition steps := %s.\nDefinition final := %s.\n' % (steps, final))
    f.write('Eval vm_compute in (check_history steps final).\nEval vm_compute in (diagnose w0 steps 0).\n')
r = subprocess.run(['coqc', '-Q', '/verif/coq/theories', 'DM', '/verif/.work/diag/d.v'], stdout=subprocess.PIPE, stderr=subprocess.STDOUT, text=True)
print(r.stdout[-6000:])
