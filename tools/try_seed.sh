#!/bin/bash
# usage: try_seed.sh <patch file> <Cxx> [more Cxx...]   -- apply to /repo, run quick checks, revert
patch=$1; shift
git -C /repo apply "$patch" || { echo "patch does not apply"; exit 2; }
for c in "$@"; do (cd /verif && ./check $c --tier quick 2>&1 | tail -4); done
git -C /repo checkout -- .
