#!/bin/bash
# usage: mutant_check.sh <patch.diff | none> <Cxx> [tier]
# Runs ./check Cxx against a private scratch worktree of /repo (with the patch applied) and a private copy of the
# Coq tree, so that several of these can run in parallel and neither /repo nor /verif/coq is touched.
# Evidence/replays written by such a run go to the scratch dir, not to /verif/evidence.
set -u
patch=$1; prop=$2; tier=${3:-quick}
tag=$(basename "$(dirname "$patch")")-$$
base=/tmp/mc-$tag
rm -rf "$base"; mkdir -p "$base"
git -C /repo worktree add -q --detach "$base/repo" HEAD || exit 2
if [ "$patch" != none ]; then git -C "$base/repo" apply "$patch" || { echo "patch does not apply"; git -C /repo worktree remove --force "$base/repo"; exit 2; }; fi
rsync -a --exclude '*.vo' --exclude '*.glob' --exclude '*.aux' --exclude '.*.aux' --exclude '*.vok' --exclude '*.vos' /verif/coq/ "$base/coq/"
cp /verif/coq/theories/*/*.vo "$base/coq/theories/" 2>/dev/null; rsync -a --include '*/' --include '*.vo' --include '*.glob' --exclude '*' /verif/coq/theories/ "$base/coq/theories/"
rm -f "$base"/coq/theories/*.vo
mkdir -p "$base/work"
( cd /verif && VERIF_REPO="$base/repo" VERIF_COQ="$base/coq" VERIF_WORK="$base/work" VERIF_EVIDENCE_DIR="$base/evidence" VERIF_NO_CLEAN=1 VERIF_NO_COQCHK=1 ./check "$prop" --tier "$tier" 2>&1 | tail -${MC_TAIL:-6} )
rc=$?
git -C /repo worktree remove --force "$base/repo"
rm -rf "$base"
exit $rc
