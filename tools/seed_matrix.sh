#!/bin/bash
# run every seeded change against the check of the property it was written for (parallel); prints one line each
cd /verif
ls seeded | xargs -P 6 -I{} sh -c 's={}; p=${s%%-*}; out=$(VERIF_NOSHRINK=1 tools/mutant_check.sh /verif/seeded/$s/patch.diff $p 2>&1 | grep -E "tier=quick|does not apply" | tail -1); nf=$(echo "$out" | grep -c "no-failing"); echo "$s $out"' | sort
