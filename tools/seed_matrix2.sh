#!/bin/bash
# like seed_matrix.sh but only for the ids given as a grep pattern ($1)
cd /verif
ls seeded | grep -E -e "$1" | xargs -P ${MATRIX_P:-6} -I{} sh -c 's={}; p=${s%%-*}; out=$(VERIF_NOSHRINK=1 tools/mutant_check.sh /verif/seeded/$s/patch.diff $p 2>&1 | grep -E "tier=quick|does not apply|HARNESS|VIOLATION.*no-failing" | tail -2 | tr "\n" " "); echo "$s $out"' | sort
