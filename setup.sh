#!/bin/bash
# Build the Coq development from clean (full .vo build), offline.
set -e
cd "$(dirname "$0")"
export PYTHONDONTWRITEBYTECODE=1
mkdir -p .work evidence replays
/venv/bin/python translate/kernels.py "${VERIF_REPO:-/repo}" coq/theories/Gen || true
/venv/bin/python -c "import sys; sys.path.insert(0,'harness'); import framework; framework.write_coqproject()"
cd coq
coq_makefile -f _CoqProject -o Makefile
make clean >/dev/null 2>&1 || true
( ulimit -v 12000000; timeout 3000 make -k -j16 COQC="timeout 900 coqc" )
