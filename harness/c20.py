"""C20 -- fnc.memoize is transparent, runs once per key, honours clear and max_size.

Call histories over several memoize instances (all wrapping the same body) that may share cache folders
are executed on the real decorator; every call is observed (return value, execution counter, thunk
counter, keys of _cache in order, cache_size, files in the instance's folder) and the observed trace is
(a) judged by the L0 acceptor Spec/Memo.v (Run/SC20.oracle) and (b) compared with the L1 model
Model/Memo.v built on the kernels regenerated from _memoize.py (Run/RC20.model_agrees)."""
import os
import pickle
import shutil
import sys
import warnings

import coqlit as L

ONE_GIGABYTE = 1024 ** 3
XKEYS = {'k1': -1, 'k2': -2}
UNKNOWN_VALUE = 99
UNKNOWN_KEY = -99


# ------------------------------------------------------------------ alphabet
def _dm(cols, order=None):
    from datamatrix import DataMatrix
    n = len(next(iter(cols.values())))
    dm = DataMatrix(length=n)
    for name, vals in cols.items():
        dm[name] = vals
    if order is not None:
        dm = dm[order]
    return dm


def bases():
    """base class id -> list of (args, kwargs, flag) forms that the property counts as the same argument list.
    flag 'kwperm' marks a form that differs from form 0 only in keyword/dict insertion order."""
    # a family of related tables: derived tables share the parent's _id (row order / in-place cell edit / rename)
    par = _dm({'a': [1, 2]})
    edited = par[:]
    edited.a[1] = 3
    renamed = par[:]
    renamed.rename('a', 'b')
    par2 = _dm({'a': [1, 2], 'b': ['x', 'y']})
    edited2 = par2[:]
    edited2.b[1] = 'z'
    B = {
        0: [((1,), {}, '')],
        1: [((1.0,), {}, '')],
        2: [((True,), {}, '')],
        3: [(('1',), {}, '')],
        4: [((None,), {}, '')],
        5: [((1, 2), {}, '')],
        6: [((2, 1), {}, '')],
        7: [(([1, 2],), {}, ''), (((1, 2),), {}, '')],
        8: [(([1, [2]],), {}, ''), (((1, (2,)),), {}, ''), (([1, (2,)],), {}, '')],
        9: [(([2, 1],), {}, ''), (((2, 1),), {}, '')],
        10: [(({'a': 1, 'b': 2},), {}, ''), (({'b': 2, 'a': 1},), {}, 'kwperm')],
        11: [(({'a': 2, 'b': 1},), {}, '')],
        12: [((), {'a': 1, 'b': 2}, ''), ((), {'b': 2, 'a': 1}, 'kwperm')],
        13: [((), {'a': 2, 'b': 1}, '')],
        14: [((1,), {'b': 2}, '')],
        15: [((), {'a': 1}, '')],
        16: [((), {}, '')],
        17: [(('',), {}, '')],
        18: [((0,), {}, '')],
        19: [((-1,), {}, '')],
        20: [((1.5,), {}, '')],
        21: [(('a',), {}, '')],
        22: [(([],), {}, ''), (((),), {}, '')],
        23: [(({},), {}, '')],
        24: [((1, [2, {'k': [3, 'x']}]), {'z': (4, 5)}, ''), ((1, (2, {'k': (3, 'x')})), {'z': [4, 5]}, '')],
        25: [(('x' * 300,), {}, '')],
        26: [((list(range(60)),), {}, ''), ((tuple(range(60)),), {}, '')],
        27: [((False,), {}, '')],
        28: [((0.0,), {}, '')],
        29: [(('é', '日本'), {}, '')],
        # DataMatrix arguments: equal content built twice (same class); one cell / one name / row order differ
        30: [((par,), {}, ''), ((_dm({'a': [1, 2]}),), {}, ''), ((par[:],), {}, '')],
        31: [((edited,), {}, ''), ((_dm({'a': [1, 3]}),), {}, '')],
        32: [((renamed,), {}, ''), ((_dm({'b': [1, 2]}),), {}, '')],
        33: [((par[[1, 0]],), {}, '')],
        34: [((par2,), {}, ''), ((_dm({'a': [1, 2], 'b': ['x', 'y']}),), {}, '')],
        35: [((edited2,), {}, ''), ((_dm({'a': [1, 2], 'b': ['x', 'z']}),), {}, '')],
        36: [((_dm({'a': [1.5, 2.0]}),), {}, '')],
        37: [((_dm({'a': [1, 2]}), 1), {'m': _dm({'a': [1, 3]})}, '')],
        # equal strings that are one object vs two objects (a pickle-derived key tells them apart through its
        # back-references): nested dict keys, and a keyword name that is also a dict key
        38: [(({_K1: {_K1: 1}},), {}, ''), (({_K1: {_K2: 1}},), {}, ''), (({_K2: {_K1: 1}},), {}, '')],
        39: [(({_K1: 2},), {_K1: 3}, ''), (({_K2: 2},), {_K1: 3}, '')],
        # tables that differ only in NaN versus None (versus the text 'None') in one MixedColumn cell
        40: [((_dm({'a': [1, float('nan')]}),), {}, '')],
        41: [((_dm({'a': [1, None]}),), {}, '')],
        42: [((_dm({'a': [1, 'None']}),), {}, '')],
    }
    return B


_K1 = 'hello_world'
_K2 = ''.join(['hello', '_world'])        # equal to _K1, another object
assert _K1 == _K2 and _K1 is not _K2


def _fresh(s):
    """An equal string that is a new object, so that the pickled size of what the body returns does not depend on
    which of the caller's strings happen to be one object."""
    return (s + ' ')[:-1] if isinstance(s, str) else s


def canon(x):
    """Canonical, picklable, mutable description of an argument (what the body returns)."""
    from datamatrix import DataMatrix
    if isinstance(x, bool):
        return ['bool', x]
    if isinstance(x, int):
        return ['int', x]
    if isinstance(x, float):
        return ['float', x]
    if isinstance(x, str):
        return ['str', _fresh(x)]
    if x is None:
        return ['none']
    if isinstance(x, (list, tuple)):
        return ['seq'] + [canon(v) for v in x]
    if isinstance(x, dict):
        return ['map'] + [[_fresh(k), canon(v)] for k, v in sorted(x.items())]
    if isinstance(x, DataMatrix):
        return ['dm', len(x)] + [[name, type(col).__name__, [canon(v) for v in col]] for name, col in x.columns]
    if callable(x):
        return ['callable', getattr(x, '__name__', '?')]
    return ['other', repr(x)]


class World(object):
    """One history: instances, counters, temp folders."""
    KEYMAP = None      # memkey -> class, computed once per process on the first instance; every call re-checks its own key

    def __init__(self, root):
        self.root = root
        self.count = [0]
        self.forced = [0]
        self.B = bases()
        world = self

        def body(*args, **kwargs):
            world.count[0] += 1
            return ['R', canon(args), canon(kwargs)]
        self.body = body
        # expected value of the unwrapped body per base class (form 0), and their sizes
        self.expected = {}
        self.sizes = {}
        for b, forms in self.B.items():
            a, k, _ = forms[0]
            self.expected[b] = repr(['R', canon(a), canon(k)])
            self.sizes[b] = sys.getsizeof(pickle.dumps(['R', canon(a), canon(k)]))
        self.insts = []
        self.opts = []
        self.keymap = World.KEYMAP
        self.evicted = False
        self.prev_keys = {}

    def thunk(self, b, pos, val):
        world = self

        def th():
            world.forced[0] += 1
            return val
        th.__name__ = 'th_%d_%d' % (b, pos)
        return th

    def form(self, cls, fi):
        """concrete (args, kwargs) of class id cls = base + 100*t, form index fi"""
        b, t = cls % 100, cls // 100
        forms = self.B[b]
        a, k, _ = forms[fi % len(forms)]
        a = list(a)
        for pos in range(t):
            a[pos] = self.thunk(b, pos, a[pos])
        return tuple(a), dict(k)

    def folder(self, fid):
        return os.path.join(self.root, 'f%d' % fid)

    def vid(self, obj):
        for b, e in self.expected.items():
            if repr(obj) == e:
                return b
        return UNKNOWN_VALUE

    def build_keymap(self, g):
        """memkey -> class id for the whole alphabet; checks the key derivation is a function of the class
        and injective on classes (kwperm forms are left out here: see D18 in the module docstring of the report)."""
        problems = []
        km = {}
        per_class = {}
        for b, forms in self.B.items():
            nargs = len(forms[0][0])
            for t in range(0, min(2, nargs) + 1):
                cls = b + 100 * t
                for fi, (_a, _k, flag) in enumerate(forms):
                    a, k = self.form(cls, fi)
                    mk = g._memkey(*a, **k)
                    if flag == 'kwperm':
                        km.setdefault(mk, cls)
                        continue
                    if cls in per_class and per_class[cls] != mk:
                        problems.append('equal argument lists of class %d get different keys' % cls)
                    per_class.setdefault(cls, mk)
                    if mk in km and km[mk] != cls:
                        problems.append('distinct argument lists (classes %d and %d) get the same key' % (km[mk], cls))
                    km[mk] = cls
        for s, z in XKEYS.items():
            km[s] = z
        self.keymap = km
        World.KEYMAP = km
        World.KEYPROBLEMS = problems
        return problems


def opts_lit(o):
    x = 'None' if o['key'] is None else '(Some (%d))' % XKEYS[o['key']]
    return '(mo %s %s %s %s %d)' % (L.boolean(o['persistent']), x, L.boolean(o['lazy']), L.z(o['max_size']),
                                    o['folder'])


class C20:
    id = 'C20'
    props_file = 'theories/Props/C20.v'
    kernel_files = ['KMemo.v']
    oracle_vos = ['theories/Run/SC20.vo']
    model_vos = ['theories/Run/RC20.vo']
    oracle_imports = ['From DM Require Import Run.SC20.']
    model_imports = ['From DM Require Import Run.SC20 Run.RC20.']
    exhaustive = False
    rule = ('seeded call histories (4-12 operations quick, 10-40 thorough) over 1-4 memoize instances wrapping one '
            'body: every combination of persistent x key(None/explicit) x lazy x max_size(1 GiB, 0, below one value, '
            '1-4 values) is used as first instance, further instances share or do not share one of 3 temp folders; '
            'operations: call with one of 43 argument classes (int/float/bool/str/None scalars, positional pairs, '
            'lists vs tuples (same class), nested containers, dicts, keyword forms, unicode, DataMatrix values equal / '
            'differing in one cell / one column name / row order / column type), thunk variants in lazy instances, '
            'clear(), new instance (constructed directly or through memoize(**options)(fnc)); the returned object is '
            'mutated after every call (isolation). Observed per call: value id, execution-counter delta, thunk-counter '
            'delta, _cache keys in order, cache_size, files of the folder. non-trivial = the history contains a hit and '
            'a run; distinct by (options, operations). A history uses one keyword/dict insertion order only '
            '(see assumptions)')
    trusted_base = [
        'Coq 8.16.1 kernel (coqc; vm_compute for evaluating cases; no native_compute)',
        'translator /verif/translate/gen_memo.py (+ py2coq.py): _call_without_arguments, _read_cache, _write_cache '
        '-> Gen/KMemo.v incl. its pinned effect statements',
        'harness/c20.py (runner, value/key identification, isolation probe, key-injectivity check on the alphabet), '
        'Run/SC20.v, Run/RC20.v',
        'modelled, not verified: pickle round trip (values are immutable in the model; isolation is probed), '
        'hashlib.md5 / json_tricks-or-shim / to_json as an injective key on the alphabet (checked per run), '
        'sys.getsizeof(pickle.dumps(v)) as size, OrderedDict, os.path.exists/remove/open on the cache folder',
    ]
    assumptions = [
        'all instances of a history wrap the same function; explicit keys differ from every argument-derived key',
        'max_size >= 0; no .tar.xz archives and no old-style DataMatrix pickles in the cache folder; debug=False',
        'keyword order / dict insertion order is NOT varied inside one history in the default streams: the '
        'implementation keys f(a=1,b=2) and f(b=2,a=1) differently (D18, reported); set VERIF_C20_KWORDER=1 to include it',
        'a non-persistent instance sharing a folder with persistent ones deletes the file of the re-executed key on '
        'clear(): modelled (L0 and L1) as the implementation does it',
    ]

    # ---- runner ------------------------------------------------------------
    def _run(self, ops):
        from datamatrix import functional as fnc
        warnings.filterwarnings('ignore')
        base = os.environ.get('VERIF_WORK') or '/verif/.work'
        root = os.path.join(base, 'c20-tmp-%d' % os.getpid())
        shutil.rmtree(root, ignore_errors=True)
        os.makedirs(root)
        pyfail = []
        trace = []
        observed = []
        try:
            w = World(root)
            for op in ops:
                kind = op[0]
                if kind == 'new':
                    o = op[1]
                    kw = dict(key=o['key'], persistent=o['persistent'], lazy=o['lazy'], max_size=o['max_size'],
                              folder=w.folder(o['folder']))
                    if o.get('via') == 'decorator':
                        g = fnc.memoize(**kw)(w.body)
                    else:
                        g = fnc.memoize(w.body, **kw)
                    w.insts.append(g)
                    w.opts.append(o)
                    if w.keymap is None:
                        w.build_keymap(g)
                    pyfail.extend(World.KEYPROBLEMS)
                    trace.append('tN %s' % opts_lit(o))
                    observed.append(['new'])
                elif kind == 'clear':
                    if op[1] < len(w.insts):
                        w.insts[op[1]].clear()
                    trace.append('tX %d' % op[1])
                    observed.append(['clear'])
                elif kind == 'call':
                    i, cls, fi = op[1], op[2], op[3]
                    if i >= len(w.insts):
                        continue
                    g, o = w.insts[i], w.opts[i]
                    a, k = w.form(cls, fi)
                    if o['key'] is None and w.keymap.get(g._memkey(*a, **k)) != cls \
                            and (self.B_flag(w, cls, fi) != 'kwperm' or os.environ.get('VERIF_C20_KWORDER') != '1'):
                        pyfail.append('the key of class %d is not the key this class had on another instance' % cls)
                    c0, f0 = w.count[0], w.forced[0]
                    try:
                        r = g(*a, **k)
                    except Exception as e:      # the property promises a value for every call
                        pyfail.append('call %d of class %d raised %s: %s' % (len(trace), cls, type(e).__name__, e))
                        observed.append(['raised', type(e).__name__])
                        break
                    ran, forced = w.count[0] - c0, w.forced[0] - f0
                    v = w.vid(r)
                    if ran not in (0, 1):
                        pyfail.append('body executed %d times in one call' % ran)
                    # isolation probe: mutate what was returned
                    try:
                        r.append('mutated')
                        r[1].append('mutated')
                    except Exception as e:
                        pyfail.append('returned object is not the plain list the body built: %r' % (e,))
                    keys = [w.keymap.get(mk, UNKNOWN_KEY) for mk in g._cache.keys()]
                    cs = g.cache_size
                    if len(g._cache) != len(keys):
                        pyfail.append('len(_cache) mismatch')
                    fo = w.folder(o['folder'])
                    files = [w.keymap.get(fn, UNKNOWN_KEY) for fn in sorted(os.listdir(fo))] if os.path.isdir(fo) else []
                    own = XKEYS[o['key']] if o['key'] else cls
                    before = [x for x in w.prev_keys.get(i, []) if x != own]
                    if ran >= 1 and not o['persistent'] and len(keys) < len(before) + 1:
                        w.evicted = True
                    w.prev_keys[i] = keys
                    trace.append('tC %d %d (me %d %s %d %s %d %s)' % (
                        i, cls, v, L.boolean(ran >= 1), forced, L.zs(keys), cs, L.zs(files)))
                    observed.append(['call', v, ran, forced, keys, cs, files])
        finally:
            shutil.rmtree(root, ignore_errors=True)
        sizes = L.lst('(%d, %d)' % (b, s) for b, s in sorted(w.sizes.items()))
        return trace, observed, sizes, pyfail, w.evicted

    @staticmethod
    def B_flag(w, cls, fi):
        forms = w.B[cls % 100]
        return forms[fi % len(forms)][2]

    def rerun(self, inp):
        if 'probe' in inp:
            for c in self._lazy_nameless_probes():
                if c['input']['probe'] == inp['probe']:
                    return c
            return None
        ops = inp['ops']
        trace, observed, sizes, pyfail, evicted = self._run(ops)
        tr = L.lst(trace)
        calls = [o for o in observed if o[0] == 'call']
        hit = any(o[2] == 0 for o in calls)
        run = any(o[2] >= 1 for o in calls)
        tags = list(inp.get('tags', []))
        news = [op[1] for op in ops if op[0] == 'new']
        if news:
            o = news[0]
            tags.append('first:%s%s%s' % ('P' if o['persistent'] else 'M', 'K' if o['key'] else '-', 'L' if o['lazy'] else '-'))
            tags.append('max:%s' % ('1GiB' if o['max_size'] >= ONE_GIGABYTE else str(o['max_size'])))
        if any(op[0] == 'clear' for op in ops):
            tags.append('has-clear')
        if evicted:
            tags.append('eviction')
        if len(news) > 1:
            tags.append('multi-instance')
        return {
            'input': inp, 'observed': observed, 'pyfail': '; '.join(sorted(set(pyfail))) or None,
            'oracle': '(oracle %s %s)' % (sizes, tr),
            'model': '(model_agrees %s %s)' % (sizes, tr),
            'nontrivial': hit and run,
            'sig': repr(ops),
            'tags': tags,
        }

    # ---- generator -----------------------------------------------------------
    def _history(self, rng, first, maxlen, kworder_both):
        w_sizes = self._sizes
        lazy_bases = [b for b, forms in self._B.items() if len(forms[0][0]) >= 1]
        orient = rng.randint(0, 1)

        def new_opts(o=None):
            if o is None:
                o = {'persistent': rng.random() < 0.5, 'key': rng.choice([None, None, None, 'k1', 'k2']),
                     'lazy': rng.random() < 0.4, 'max_size': self._pick_max(rng), 'folder': rng.randint(0, 2)}
            o = dict(o)
            o['via'] = rng.choice(['direct', 'decorator'])
            return o
        ops = [['new', new_opts(first)]]
        n_inst = 1
        # a small working set of classes makes hits, evictions and re-executions likely
        pool_b = rng.sample(sorted(self._B), rng.randint(2, 5))
        if rng.random() < 0.5:
            pool_b += rng.sample([30, 31, 32, 33, 34, 35, 36, 37], 2)
        if rng.random() < 0.25:
            pool_b += [30, 31, 33]
        if rng.random() < 0.4:
            pool_b += rng.sample([0, 1, 2, 18, 27, 28, 3], 3)
        if rng.random() < 0.35:
            pool_b += [7, 9, 5, 6]
        if rng.random() < 0.3:
            pool_b += [10, 11, 12, 13, 14, 15]
        n = rng.randint(4, maxlen)
        while len(ops) < n:
            r = rng.random()
            if r < 0.10 and n_inst < 4:
                if rng.random() < 0.5:
                    # same options as an existing instance (persistence across instances), maybe other max_size
                    o = dict(rng.choice([op[1] for op in ops if op[0] == 'new']))
                    if rng.random() < 0.3:
                        o['max_size'] = self._pick_max(rng)
                    ops.append(['new', new_opts(o)])
                else:
                    ops.append(['new', new_opts()])
                n_inst += 1
            elif r < 0.25:
                ops.append(['clear', rng.randrange(n_inst)])
            else:
                i = rng.randrange(n_inst)
                o = [op[1] for op in ops if op[0] == 'new'][i]
                b = rng.choice(pool_b)
                t = 0
                if o['lazy'] and b in lazy_bases and rng.random() < 0.6:
                    t = rng.randint(1, min(2, len(self._B[b][0][0])))
                forms = self._B[b]
                ok = [fi for fi, fm in enumerate(forms) if kworder_both or fm[2] != 'kwperm']
                if not kworder_both and any(fm[2] == 'kwperm' for fm in forms) and orient == 1:
                    ok = [fi for fi, fm in enumerate(forms) if fm[2] == 'kwperm']
                ops.append(['call', i, b + 100 * t, rng.choice(ok)])
        return ops

    def _okform(self, b, fi):
        """form index fi of base b, unless that form is a keyword/dict-order permutation (D18) and those are off"""
        forms = self._B[b]
        if forms[fi % len(forms)][2] == 'kwperm' and os.environ.get('VERIF_C20_KWORDER') != '1':
            return 0
        return fi % len(forms)

    def _pick_max(self, rng):
        s = sorted(self._sizes.values())
        typical = s[len(s) // 2]
        return rng.choice([ONE_GIGABYTE, ONE_GIGABYTE, 0, s[0] - 1, typical, 2 * typical, 2 * typical + 40,
                           3 * typical, 4 * typical + 100, 1000, 5000])

    def _prepare(self):
        from datamatrix import DataMatrix  # noqa: F401
        self._B = bases()
        self._sizes = {}
        for b, forms in self._B.items():
            a, k, _ = forms[0]
            self._sizes[b] = sys.getsizeof(pickle.dumps(['R', canon(a), canon(k)]))

    def generate(self, rng, tier):
        self._prepare()
        both = os.environ.get('VERIF_C20_KWORDER') == '1'
        cases = []
        maxlen = 12 if tier == 'quick' else 40
        reps = 5 if tier == 'quick' else 14
        s = sorted(self._sizes.values())
        typical = s[len(s) // 2]
        maxes = [ONE_GIGABYTE, 0, s[0] - 1, typical + 10, 2 * typical + 20, 3 * typical + 30]
        for persistent in (False, True):
            for key in (None, 'k1'):
                for lazy in (False, True):
                    for mx in maxes:
                        for _ in range(reps):
                            first = {'persistent': persistent, 'key': key, 'lazy': lazy, 'max_size': mx,
                                     'folder': rng.randint(0, 2)}
                            ops = self._history(rng, first, maxlen, both)
                            cases.append(self.rerun({'ops': ops, 'tags': ['combo']}))
        # scripted scenarios of the property text, on random classes
        for _ in range(100 if tier == 'quick' else 400):
            ops = self._scenario(rng)
            cases.append(self.rerun({'ops': ops, 'tags': ['scenario']}))
        for _ in range(600 if tier == 'quick' else 2500):
            ops = self._history(rng, None, maxlen, both)
            cases.append(self.rerun({'ops': ops, 'tags': ['random']}))
        cases.extend(self._lazy_nameless_probes())
        return cases

    def _lazy_nameless_probes(self):
        """lazy=True with callables that have no __name__ (functools.partial, callable objects): they are evaluated only
        when the body runs -- once on a miss, never on a hit -- and the call returns what the unwrapped body returns."""
        import functools
        from datamatrix import functional as fnc
        out = []
        for kind in ('partial', 'object', 'partial_persistent'):
            problem = None
            base = os.environ.get('VERIF_WORK') or '/verif/.work'
            root = os.path.join(base, 'c20-lazy-%d' % os.getpid())
            shutil.rmtree(root, ignore_errors=True)
            try:
                evals = [0]

                def produce(v):
                    evals[0] += 1
                    return v

                class Thunk(object):
                    def __call__(self):
                        return produce(5)
                arg = Thunk() if kind == 'object' else functools.partial(produce, 5)
                runs = [0]

                def body(x):
                    runs[0] += 1
                    return [x, 'r']
                g = fnc.memoize(body, lazy=True, persistent=(kind == 'partial_persistent'), folder=root)
                r1 = g(arg)
                e1, n1 = evals[0], runs[0]
                r2 = g(arg)
                e2, n2 = evals[0], runs[0]
                if r1 != [5, 'r'] or r2 != [5, 'r']:
                    problem = 'lazy call with a nameless callable returned %r then %r' % (r1, r2)
                elif (n1, n2) != (1, 1):
                    problem = 'body ran %d then %d times in total' % (n1, n2)
                elif e1 != 1:
                    problem = 'the callable argument was evaluated %d times for one execution of the body' % e1
                elif e2 != 1:
                    problem = 'the callable argument was evaluated again (%d in total) on a cache hit' % e2
            except Exception as e:      # noqa: BLE001
                problem = 'lazy call with a nameless callable raised %r' % (e,)
            finally:
                shutil.rmtree(root, ignore_errors=True)
            out.append({'input': {'probe': 'lazy_nameless_' + kind}, 'observed': {'problem': problem}, 'pyfail': problem,
                        'oracle': 'true', 'model': 'true', 'nontrivial': True, 'sig': 'probe|lazy_nameless|' + kind,
                        'tags': ['probe', 'probe:lazy_nameless']})
        return out

    def _scenario(self, rng):
        bs = sorted(self._B)
        a, b, c = rng.sample(bs, 3)
        kind = rng.choice(['persist', 'clear', 'fifo', 'xkey', 'lazy', 'equal-forms', 'dm'])
        if kind == 'persist':
            o = {'persistent': True, 'key': None, 'lazy': False, 'max_size': ONE_GIGABYTE, 'folder': 1}
            return [['new', o], ['call', 0, a, 0], ['call', 0, b, 0], ['new', dict(o, via='decorator')],
                    ['call', 1, a, self._okform(a, 1)], ['call', 1, c, 0], ['new', o], ['call', 2, c, 0], ['call', 2, b, 0],
                    ['clear', 2], ['call', 2, a, 0], ['call', 0, a, 0]]
        if kind == 'clear':
            o = {'persistent': rng.random() < 0.5, 'key': None, 'lazy': False, 'max_size': ONE_GIGABYTE, 'folder': 0}
            return [['new', o], ['call', 0, a, 0], ['call', 0, b, 0], ['clear', 0], ['call', 0, a, 0], ['call', 0, a, 0],
                    ['call', 0, b, 0], ['clear', 0], ['clear', 0], ['call', 0, c, 0], ['call', 0, a, 0], ['call', 0, c, 0]]
        if kind == 'fifo':
            sz = self._sizes
            o = {'persistent': False, 'key': None, 'lazy': False, 'max_size': sz[a] + sz[b] + rng.choice([0, -1, 1, 30]),
                 'folder': 0}
            return [['new', o], ['call', 0, a, 0], ['call', 0, b, 0], ['call', 0, a, 0], ['call', 0, c, 0],
                    ['call', 0, a, 0], ['call', 0, b, 0], ['call', 0, c, 0]]
        if kind == 'xkey':
            o = {'persistent': rng.random() < 0.5, 'key': 'k1', 'lazy': False, 'max_size': ONE_GIGABYTE, 'folder': 2}
            return [['new', o], ['call', 0, a, 0], ['call', 0, b, 0], ['clear', 0], ['call', 0, c, 0], ['call', 0, a, 0],
                    ['new', dict(o, key='k2')], ['call', 1, b, 0], ['call', 1, a, 0], ['new', o], ['call', 2, b, 0]]
        if kind == 'lazy':
            lb = [x for x in bs if len(self._B[x][0][0]) >= 1]
            a = rng.choice(lb)
            o = {'persistent': rng.random() < 0.3, 'key': None, 'lazy': True, 'max_size': ONE_GIGABYTE, 'folder': 0}
            return [['new', o], ['call', 0, a + 100, 0], ['call', 0, a + 100, 0], ['call', 0, a, 0], ['call', 0, a, 0],
                    ['clear', 0], ['call', 0, a + 100, 0], ['call', 0, a + 100, 0]]
        if kind == 'equal-forms':
            o = {'persistent': rng.random() < 0.3, 'key': None, 'lazy': rng.random() < 0.3, 'max_size': ONE_GIGABYTE,
                 'folder': 0}
            ops = [['new', o]]
            for x in (7, 8, 22, 24, 26, 30):
                for fi in range(len(self._B[x])):
                    ops.append(['call', 0, x, fi])
            return ops
        o = {'persistent': rng.random() < 0.5, 'key': None, 'lazy': False, 'max_size': ONE_GIGABYTE, 'folder': 1}
        ops = [['new', o]]
        for x in rng.sample([30, 31, 32, 33, 34, 35, 36, 37, 30, 31, 33, 30, 31, 33, 34, 35], 10):
            ops.append(['call', 0, x, rng.randint(0, 2)])
        return ops

    # ---- shrinking / identification -----------------------------------------
    def shrink_candidates(self, inp):
        if 'probe' in inp:
            return
        ops = inp['ops']
        for i in range(len(ops) - 1, -1, -1):
            if ops[i][0] != 'new':
                yield {'ops': ops[:i] + ops[i + 1:], 'tags': inp.get('tags', [])}
        # drop the last instance if nothing refers to it
        news = [j for j, op in enumerate(ops) if op[0] == 'new']
        if len(news) > 1:
            last = len(news) - 1
            if not any(op[0] != 'new' and op[1] == last for op in ops):
                j = news[-1]
                yield {'ops': ops[:j] + ops[j + 1:], 'tags': inp.get('tags', [])}

    def key(self, case):
        import json
        if 'probe' in case['input']:
            return 'memoize probe ' + case['input']['probe']
        return 'memoize ' + json.dumps(case['input']['ops'], separators=(',', ':'), sort_keys=True)


PROP = C20()
