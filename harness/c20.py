"""C20 -- fnc.memoize is transparent, runs once per key, honours clear and max_size.

Call histories over several memoize instances (all wrapping the same body) that may share cache folders
are executed on the real decorator; every call is observed (return value, execution counter, thunk
counter, keys of _cache in order, cache_size, files in the instance's folder) and the observed trace is
(a) judged by the L0 acceptor Spec/Memo.v (Run/SC20.oracle) and (b) compared with the L1 model
Model/Memo.v built on the kernels regenerated from _memoize.py (Run/RC20.model_agrees).

The key derivation is checked separately for every argument class and form (with and without thunks):
(a) L0: the implementation gives two argument lists the same key exactly when Spec/MemoKey.call_eqvb says they are
the same argument list -- all pairs (Run/SC20.key_matrix_ok), and every form against form 0 of its class;
(b) L1: the text Model/MemoKey.memkey_text computes inside Coq equals the text the implementation hashes
(recomputed here with the instance's own _serialize_args / _serialize_kwargs; its md5 must be _memkey's result)."""
import hashlib
import math
import os
import pickle
import re
import shutil
import sys
import warnings

import coqlit as L

ONE_GIGABYTE = 1024 ** 3
# keyword / dict insertion order is varied inside one history (the key no longer depends on it: repaired defect D18);
# VERIF_C20_KWORDER=0 restricts every history to one order
KWORDER = os.environ.get('VERIF_C20_KWORDER', '1') != '0'
# Key collisions of the UNCHANGED tree, outside the alphabet of the key theorems (reported, not in the default stream):
#  - a str made of the two lone surrogates U+D800 U+DC00 and the str chr(0x10000) are serialised alike by
#    json.dumps(ensure_ascii=True) ("\\ud800\\udc00"), so f(a); f(b) returns f(a) twice;
#  - in lazy mode a callable whose __name__ is true / false / null is keyed like the value True / False / None;
#  - two DataMatrix arguments that differ only in their configuration -- the `sorted` flag (columns created in
#    alphabetical order) or default_col_type -- share one key (convert.to_json carries neither): f = lambda dm: dm.sorted
#    returns the first table's answer for the second.  (The property lists cells, column names and row order.)
INCLUDE_PENDING_FINDINGS = False
XKEYS = {'k1': -1, 'k2': -2}
# class id = base + MOD * t: t = number of thunk slots of the base form (in order) that hold a callable
MOD = 1000
UNKNOWN_VALUE = MOD - 1
UNKNOWN_KEY = -99


# ------------------------------------------------------------------ alphabet
def _dm(cols, order=None):
    from datamatrix import DataMatrix
    n = len(next(iter(cols.values())))
    dm = DataMatrix(length=n)
    for name, vals in cols.items():
        dm[name] = vals
    if order is not None:
        dm = dm[order]
    return dm


# numpy prints only 8 significant digits and elides the middle of arrays with more than 1000 elements
LONG_N = 1100
LONG_SERIES_N = 340       # depth 3
DM_NUMERIC = list(range(60, 80))
DM_NEAR_PAIRS = [(60, 61), (62, 63), (62, 64), (30, 62), (65, 66), (67, 68), (69, 70), (71, 72), (73, 74), (75, 76),
                 (77, 78), (60, 79)]
# tables without rows, and tables that differ only in what a serialisation that keeps "the cells" may drop: the depth of a
# series column that has no rows (or whose rows are all zero), the type of a column without cells, the name of such a
# column, the order of the columns of a table with sorted = False
DM_SHAPE_PAIRS = [(110, 111), (110, 112), (111, 112), (113, 114), (114, 115), (113, 115), (113, 117), (115, 116), (118, 119),
                  (120, 121), (122, 123), (124, 125), (110, 116), (126, 127), (110, 126)]
# tables that are the same argument (same cells, names, types, row order, the same columns presented in the same order)
# but whose columns were CREATED in different orders / in different ways: see _order_tables
DM_ORDER_BASES = list(range(150, 157))
DM_SHAPE_PAIRS += [(154, 155)]
DM_NEAR_PAIRS += [(150, 151), (152, 153), (150, 156)]
DM_NEAR_PAIRS += DM_SHAPE_PAIRS
# argument lists for which the unwrapped body RAISES (RAISE, tag): the call raises what the body raises, nothing is
# stored, and the call counts as "the next call" after clear(); see RAISE_BASES
RAISE = '__raise__'
BOOM = '__boom__'
RAISE_BASES = [160, 161, 162]       # body raises ZeroDivisionError / ValueError / KeyError
THUNK_RAISE_BASE = 163              # the LAST callable of the lazily evaluated argument list raises (t = 2); t < 2: returns
RAISE_TAGS = {'zero': ZeroDivisionError, 'value': ValueError, 'key': KeyError}


class Boom(Exception):
    """raised by a callable argument while it is evaluated lazily"""
DM_LONG = (69, 70, 71, 72, 73, 74)
# classes whose body result is falsy or otherwise unusual (see SPECIAL): the argument list names the result
RET = '__ret__'
SPECIAL_BASES = list(range(80, 94)) + list(range(130, 145))
# argument lists with callables below the top level (lazy mode): base -> thunk slots, see NESTED_SLOTS
NESTED_BASES = list(range(100, 110))


def _tdm(kind, vals, name='x'):
    """a table with one IntColumn / FloatColumn / SeriesColumn"""
    import numpy as np
    from datamatrix import DataMatrix, FloatColumn, IntColumn, SeriesColumn
    dm = DataMatrix(length=len(vals))
    if kind == 'series':
        dm[name] = SeriesColumn(depth=len(vals[0]))
        dm[name][:] = np.array(vals, dtype=float)
    else:
        dm[name] = IntColumn if kind == 'int' else FloatColumn
        dm[name] = vals
    return dm


_LONG = []


def _long_tables():
    """the tables of more than 1000 cells, built once per process (neither memoize nor the body changes an argument)"""
    if not _LONG:
        n, m = LONG_N, LONG_SERIES_N
        long_int = list(range(n))
        long_int2 = list(long_int)
        long_int2[n // 2] = -1
        long_fl = [i * 0.5 for i in range(n)]
        long_fl2 = list(long_fl)
        long_fl2[n // 2] += 1e-9
        long_se = [[float(i % 10), 0.5, 1.0] for i in range(m)]
        long_se2 = [list(r) for r in long_se]
        long_se2[m // 2][1] += 1.0
        _LONG.extend([_tdm('int', long_int), _tdm('int', long_int2), _tdm('float', long_fl), _tdm('float', long_fl2),
                      _tdm('series', long_se), _tdm('series', long_se2)])
    return _LONG


def _ret_tables():
    """tag -> function that builds a DataMatrix with non-default configuration / structure (what a memoized function
    may well return): the value that comes back from the cache (a pickle) must be that table again"""
    import numpy as np
    from datamatrix import DataMatrix, FloatColumn, IntColumn, MixedColumn, SeriesColumn

    def unsorted():
        # columns presented as created, created in non-alphabetical order
        dm = DataMatrix(length=3)
        dm.sorted = False
        dm.subject = IntColumn
        dm.subject = [1, 2, 3]
        dm.rt = IntColumn
        dm.rt = [100, 200, 300]
        dm.accuracy = IntColumn
        dm.accuracy = [0, 1, 0]
        return dm

    def created_za():
        # an ordinary (sorted) table created in reverse alphabetical order: np.array(dm) follows the creation order
        dm = DataMatrix(length=2)
        dm.z = [1, 2]
        dm.m = [3, 4]
        dm.a = [5, 6]
        return dm

    def alias():
        # one column known under two names
        dm = DataMatrix(length=2)
        dm.b = [1, 2]
        dm.a = dm.b
        return dm

    def default_float():
        dm = DataMatrix(length=2, default_col_type=FloatColumn)
        dm.x = 1.5
        dm.w = [0.1 + 0.2, 2]
        return dm

    def series3():
        dm = DataMatrix(length=2)
        dm.trace = SeriesColumn(depth=3)
        dm.trace[:] = np.array([[0.1 + 0.2, 1.0, 2.0], [3.0, 4.0, 5.0]])
        dm.i = IntColumn
        dm.i = [7, 8]
        return dm

    def series_zero(depth):
        def build():
            dm = DataMatrix(length=0)
            dm.s = SeriesColumn(depth=depth)
            return dm
        return build

    def int_float_mixed():
        dm = DataMatrix(length=3)
        dm.n = IntColumn
        dm.n = [2 ** 53 + 1, -1, 0]
        dm.f = FloatColumn
        dm.f = [0.1 + 0.2, float('inf'), 5e-324]
        dm.m = MixedColumn
        dm.m = ['x', None, 1.5]
        return dm

    def unsorted_default_int():
        dm = DataMatrix(length=2, default_col_type=IntColumn)
        dm.sorted = False
        dm.b = [1, 2]
        dm.a = [3, 4]
        dm.c = MixedColumn
        dm.c = ['p', 'q']
        return dm

    def row_subset():
        # rows taken out of another table, in another order (row ids 2, 0), columns created b then a, then renamed
        dm = DataMatrix(length=3)
        dm.sorted = False
        dm.q = ['x', 'y', 'z']
        dm.a = [1, 2, 3]
        dm.rename('q', 'b')
        return dm[[2, 0]]

    def zero_rows_typed():
        dm = DataMatrix(length=0)
        dm.sorted = False
        dm.k = IntColumn
        dm.f = FloatColumn
        dm.a = MixedColumn
        return dm

    def empty_selection():
        # what `dm.col > 99` gives when nothing matches: no rows, the columns (and the depth of the series) remain
        dm = series3()
        return dm.i > 99

    return {
        'dm_unsorted': unsorted, 'dm_created_za': created_za, 'dm_alias': alias, 'dm_default_float': default_float,
        'dm_series3': series3, 'dm_series_zero2': series_zero(2), 'dm_series_zero5': series_zero(5),
        'dm_int_float_mixed': int_float_mixed, 'dm_unsorted_default_int': unsorted_default_int,
        'dm_row_subset': row_subset, 'dm_zero_rows_typed': zero_rows_typed, 'dm_empty_selection': empty_selection,
        'list_of_dm': lambda: [unsorted(), 1, series_zero(4)()], 'tuple_of_dm': lambda: (created_za(), None),
        'dm_unsorted_alias': lambda: _unsorted_alias(),
    }


def _unsorted_alias():
    from datamatrix import DataMatrix
    dm = DataMatrix(length=2)
    dm.sorted = False
    dm.y = [1, 2]
    dm.x = dm.y
    dm.w = [1, 2]
    return dm


def _special():
    """tag -> function that builds the result (a new object per call)"""
    from datamatrix import DataMatrix
    d = {
        'none': lambda: None, 'zero': lambda: 0, 'empty_str': lambda: '', 'empty_list': lambda: [],
        'false': lambda: False, 'nan': lambda: float('nan'), 'zero_float': lambda: 0.0, 'empty_dict': lambda: {},
        'empty_tuple': lambda: (), 'empty_dm': lambda: DataMatrix(length=0), 'tuple_none': lambda: (None, 0),
        'empty_bytes': lambda: b'', 'list_none': lambda: [None], 'true': lambda: True,
    }
    d.update(_ret_tables())
    return d


RET_TABLE_TAGS = ['dm_unsorted', 'dm_created_za', 'dm_alias', 'dm_default_float', 'dm_series3', 'dm_series_zero2',
                  'dm_series_zero5', 'dm_int_float_mixed', 'dm_unsorted_default_int', 'dm_row_subset', 'dm_zero_rows_typed',
                  'dm_empty_selection', 'list_of_dm', 'tuple_of_dm', 'dm_unsorted_alias']
RET_TABLE_BASES = list(range(130, 145))
SPECIAL_TAGS = ['none', 'zero', 'empty_str', 'empty_list', 'false', 'nan', 'zero_float', 'empty_dict', 'empty_tuple',
                'empty_dm', 'tuple_none', 'empty_bytes', 'list_none', 'true'] + RET_TABLE_TAGS
assert len(SPECIAL_TAGS) == len(SPECIAL_BASES) and len(RET_TABLE_TAGS) == len(RET_TABLE_BASES)


def plain_body(args, kwargs):
    """the unwrapped body: a description of its arguments, or -- for the argument lists (RET, tag) -- the falsy /
    unusual value the tag names; for the argument lists (RAISE, tag) it raises"""
    if len(args) == 2 and not kwargs and isinstance(args[0], str) and args[0] == RAISE and args[1] in RAISE_TAGS:
        raise RAISE_TAGS[args[1]]('the body raises for this argument list')
    if len(args) == 2 and not kwargs and isinstance(args[0], str) and args[0] == RET and args[1] in SPECIAL_TAGS:
        return _special()[args[1]]()
    return ['R', canon(args), canon(kwargs)]


def _col_shape(col):
    """[length] -- for a series column [length, depth]: the cells do not tell the depth when there are no rows"""
    return [len(col)] + ([int(col.depth)] if hasattr(col, 'depth') else [])


def dm_observe(dm):
    """Everything the property can observe of a returned DataMatrix: length, the sorted flag, the default column type,
    the column names as listed, per column (in the order the table presents them) name, type, shape and every cell, which
    names are one and the same column object, the row ids, and np.array(dm) (which follows the order in which the
    columns were created, also for a sorted table)."""
    cols = list(dm.columns)
    out = ['dm', len(dm), ['sorted', bool(dm.sorted)], ['default', getattr(dm.default_col_type, '__name__', '?')],
           ['names', list(dm.column_names)]]
    out.append(['cols'] + [[name, type(col).__name__, _col_shape(col), [canon(v) for v in col]]
                           for name, col in cols])
    out.append(['same'] + [[m for m, c2 in cols if c2 is col] for _n, col in cols])
    try:
        out.append(['rowid'] + [int(i) for i in dm._rowid])
    except Exception as e:       # noqa: BLE001
        out.append(['rowid', type(e).__name__])
    try:
        import numpy as np
        arr = np.array(dm)
        out.append(['array', list(arr.shape), canon(arr.tolist())])
    except Exception as e:       # noqa: BLE001
        out.append(['array', type(e).__name__])
    return out


def vdesc(obj):
    """identification of a returned value: type and content (0 / 0.0 / False, () / [] and NaN are told apart; a
    DataMatrix -- also inside a list or tuple -- by dm_observe)"""
    from datamatrix import DataMatrix
    if isinstance(obj, DataMatrix):
        return 'DataMatrix:' + repr(dm_observe(obj))
    if isinstance(obj, (list, tuple)) and any(isinstance(v, DataMatrix) for v in obj):
        return type(obj).__name__ + ':[' + ', '.join(vdesc(v) for v in obj) + ']'
    return type(obj).__name__ + ':' + repr(obj)


def bases():
    """base class id -> list of (args, kwargs, flag) forms that the property counts as the same argument list.
    flag 'kwperm' marks a form that differs from form 0 only in keyword/dict insertion order."""
    # a family of related tables: derived tables share the parent's _id (row order / in-place cell edit / rename)
    par = _dm({'a': [1, 2]})
    edited = par[:]
    edited.a[1] = 3
    renamed = par[:]
    renamed.rename('a', 'b')
    par2 = _dm({'a': [1, 2], 'b': ['x', 'y']})
    edited2 = par2[:]
    edited2.b[1] = 'z'
    B = {
        0: [((1,), {}, '')],
        1: [((1.0,), {}, '')],
        2: [((True,), {}, '')],
        3: [(('1',), {}, '')],
        4: [((None,), {}, '')],
        5: [((1, 2), {}, '')],
        6: [((2, 1), {}, '')],
        7: [(([1, 2],), {}, ''), (((1, 2),), {}, '')],
        8: [(([1, [2]],), {}, ''), (((1, (2,)),), {}, ''), (([1, (2,)],), {}, '')],
        9: [(([2, 1],), {}, ''), (((2, 1),), {}, '')],
        10: [(({'a': 1, 'b': 2},), {}, ''), (({'b': 2, 'a': 1},), {}, 'kwperm')],
        11: [(({'a': 2, 'b': 1},), {}, '')],
        12: [((), {'a': 1, 'b': 2}, ''), ((), {'b': 2, 'a': 1}, 'kwperm')],
        13: [((), {'a': 2, 'b': 1}, '')],
        14: [((1,), {'b': 2}, '')],
        15: [((), {'a': 1}, '')],
        16: [((), {}, '')],
        17: [(('',), {}, '')],
        18: [((0,), {}, '')],
        19: [((-1,), {}, '')],
        20: [((1.5,), {}, '')],
        21: [(('a',), {}, '')],
        22: [(([],), {}, ''), (((),), {}, '')],
        23: [(({},), {}, '')],
        24: [((1, [2, {'k': [3, 'x']}]), {'z': (4, 5)}, ''), ((1, (2, {'k': (3, 'x')})), {'z': [4, 5]}, '')],
        25: [(('x' * 300,), {}, '')],
        26: [((list(range(60)),), {}, ''), ((tuple(range(60)),), {}, '')],
        27: [((False,), {}, '')],
        28: [((0.0,), {}, '')],
        29: [(('é', '日本'), {}, '')],
        # DataMatrix arguments: equal content built twice (same class); one cell / one name / row order differ
        30: [((par,), {}, ''), ((_dm({'a': [1, 2]}),), {}, ''), ((par[:],), {}, '')],
        31: [((edited,), {}, ''), ((_dm({'a': [1, 3]}),), {}, '')],
        32: [((renamed,), {}, ''), ((_dm({'b': [1, 2]}),), {}, '')],
        33: [((par[[1, 0]],), {}, '')],
        34: [((par2,), {}, ''), ((_dm({'a': [1, 2], 'b': ['x', 'y']}),), {}, '')],
        35: [((edited2,), {}, ''), ((_dm({'a': [1, 2], 'b': ['x', 'z']}),), {}, '')],
        36: [((_dm({'a': [1.5, 2.0]}),), {}, '')],
        37: [((_dm({'a': [1, 2]}), 1), {'m': _dm({'a': [1, 3]})}, '')],
        # equal strings that are one object vs two objects (a pickle-derived key tells them apart through its
        # back-references): nested dict keys, and a keyword name that is also a dict key
        38: [(({_K1: {_K1: 1}},), {}, ''), (({_K1: {_K2: 1}},), {}, ''), (({_K2: {_K1: 1}},), {}, '')],
        39: [(({_K1: 2},), {_K1: 3}, ''), (({_K2: 2},), {_K1: 3}, '')],
        # tables that differ only in NaN versus None (versus the text 'None') in one MixedColumn cell
        40: [((_dm({'a': [1, float('nan')]}),), {}, '')],
        41: [((_dm({'a': [1, None]}),), {}, '')],
        42: [((_dm({'a': [1, 'None']}),), {}, '')],
        # keyword / dict order at several levels; keys whose repr() order differs from their own order
        # ('a' < 'a!' but "'a!'" < "'a'"), upper case before lower case
        43: [(({'a': 1, 'a!': 2, 'B': 3},), {}, ''), (({'B': 3, 'a!': 2, 'a': 1},), {}, 'kwperm'),
             (({'a!': 2, 'a': 1, 'B': 3},), {}, 'kwperm')],
        44: [((), {'x': 1, 'y': [1, {'p': 1, 'q': 2}], 'z': None}, ''),
             ((), {'z': None, 'y': (1, {'q': 2, 'p': 1}), 'x': 1}, 'kwperm'),
             ((), {'y': [1, {'q': 2, 'p': 1}], 'x': 1, 'z': None}, 'kwperm')],
        45: [((), {'x': 1, 'y': [1, {'p': 2, 'q': 1}], 'z': None}, ''),
             ((), {'z': None, 'x': 1, 'y': (1, {'q': 1, 'p': 2})}, 'kwperm')],
        # strings that need escaping in JSON and / or in repr(), and strings that imitate the separators of the
        # hashed text (outside the alphabet of the injectivity theorem, inside the model of the serialisation)
        46: [(('a"b', "c'd", 'e\\f', 'tab\there', 'nl\nx', '\x7f\x01'), {}, '')],
        47: [(("', '",), {}, '')],
        48: [(('', ''), {}, '')],
        49: [(("1', '2",), {}, '')],
        50: [((-0.0,), {}, '')],
        51: [((1e22, 1.5e-07, -2.5), {}, '')],
        52: [((_dm({'a': ["it's", 'caf\u00e9']}),), {}, '')],
        53: [(([1, 2], 3), {}, ''), (((1, 2), 3), {}, '')],
        54: [(([1], [2, 3]), {}, ''), (((1,), (2, 3)), {}, '')],
        55: [((), {'a': {'b': 1}}, '')],
        56: [(({'a': {'b': 1}},), {}, '')],
        57: [(({'a': 1},), {'b': 2}, '')],
        # equal values under different keys, written in two orders (a sort that does not look at the key alone
        # leaves them in insertion order)
        58: [((), {'p': 1, 'q': 1}, ''), ((), {'q': 1, 'p': 1}, 'kwperm')],
        59: [(({'p': [1], 'q': [1], 'r': (1,)},), {}, ''), (({'r': [1], 'q': (1,), 'p': (1,)},), {}, 'kwperm')],
    }
    # DataMatrix arguments with NumPy-backed columns (IntColumn / FloatColumn / SeriesColumn): tables that differ
    # only beyond the 8th significant digit of one cell, only in the column type, only above 2**53, only in a
    # denormal versus zero, only in one cell in the middle of a column of more than 1000 cells (what an abbreviating printer
    # such as numpy's repr or str() of the table leaves out)
    li, li2, lf, lf2, ls, ls2 = _long_tables()
    B.update({
        60: [((_tdm('float', [0.1 + 0.2, 1.0]),), {}, ''), ((_tdm('float', [0.1 + 0.2, 1.0]),), {}, '')],
        61: [((_tdm('float', [0.3, 1.0]),), {}, '')],
        62: [((_tdm('int', [1, 2], 'a'),), {}, ''), ((_tdm('int', [1, 2], 'a')[:],), {}, '')],
        63: [((_tdm('int', [1, 3], 'a'),), {}, '')],
        64: [((_tdm('float', [1.0, 2.0], 'a'),), {}, '')],
        65: [((_tdm('series', [[0.1 + 0.2, 1.0], [2.0, 3.0]]),), {}, ''),
             ((_tdm('series', [[0.1 + 0.2, 1.0], [2.0, 3.0]]),), {}, '')],
        66: [((_tdm('series', [[0.3, 1.0], [2.0, 3.0]]),), {}, '')],
        67: [((_tdm('int', [2 ** 53, 0]),), {}, '')],
        68: [((_tdm('int', [2 ** 53 + 1, 0]),), {}, '')],
        69: [((li,), {}, ''), ((li[:],), {}, '')],
        70: [((li2,), {}, '')],
        71: [((lf,), {}, '')],
        72: [((lf2,), {}, '')],
        73: [((ls,), {}, '')],
        74: [((ls2,), {}, '')],
        75: [((_tdm('float', [float('nan'), 1.0]),), {}, '')],
        76: [((_tdm('float', [float('inf'), 1.0]),), {}, '')],
        77: [((_tdm('float', [5e-324, 1.0]),), {}, '')],
        78: [((_tdm('float', [0.0, 1.0]),), {}, '')],
        79: [((_tdm('float', [0.1 + 0.2, 1.0], 'y'),), {}, '')],     # (a FloatColumn stores -0.0 as 0.0)
    })
    # the numbers returned by column statistics are floats that are also callable (CallableFloat): the same argument as
    # the plain float, distinct from each other (repaired: all of them were keyed as '__nameless__')
    st = _dm({'a': [1, 2, 6]})
    B.update({
        94: [((st.a.mean,), {}, ''), ((3.0,), {}, '')],
        95: [((st.a.max,), {}, ''), ((6.0,), {}, ''), ((st.a.sum - st.a.mean,), {}, '')],
        96: [((), {'x': st.a.mean}, ''), ((), {'x': 3.0}, '')],
        97: [(([st.a.mean, st.a.max],), {}, ''), (((3.0, 6.0),), {}, '')],
    })
    # argument lists whose result is falsy / unusual (None, 0, '', [], False, NaN, 0.0, {}, (), an empty DataMatrix,
    # a tuple holding None, b'', [None], True)
    for b, tag in zip(SPECIAL_BASES, SPECIAL_TAGS):
        B[b] = [((RET, tag), {}, '')]
    # callables below the top level (lazy mode): the thunk slots of these bases are listed in NESTED_SLOTS; every base
    # keeps non-callable siblings next to the slot at every level
    B.update({
        100: [(({'left': [1], 'right': [2, 10]},), {'extra': [(3, 'x')]}, ''),
              (({'right': (2, 10), 'left': (1,)},), {'extra': ([3, 'x'],)}, 'kwperm')],
        101: [(([1, [2, [3, 'deep']]], 'sib'), {}, ''), (((1, (2, (3, 'deep'))), 'sib'), {}, '')],
        102: [(({'k': ({'m': 5, 'n': 'x'},)},), {}, '')],
        103: [((), {'opt': {'inner': [7, 8]}, 'plain': 1}, ''), ((), {'plain': 1, 'opt': {'inner': (7, 8)}}, 'kwperm')],
        104: [(([9, [10, 11]],), {}, '')],
        105: [(([[12], 13],), {}, ''), ((([12], 13),), {}, '')],
        106: [((0, [[1.5, None], 'x']), {'kw': ({'d': [True]},)}, '')],
        107: [(([[[2, 3], 4]],), {}, '')],
        108: [(([[_dm({'a': [1, 2]}), 5]],), {'t': {'u': (6, 'v')}}, '')],
        109: [(('p', {'a': {'b': {'c': 14}}, 'z': 0}), {}, ''), (('p', {'z': 0, 'a': {'b': {'c': 14}}}), {}, 'kwperm')],
    })
    B.update(_shape_tables())
    B.update(_order_tables())
    for b, tag in zip(RAISE_BASES, sorted(RAISE_TAGS)):
        B[b] = [((RAISE, tag), {}, '')]
    B[THUNK_RAISE_BASE] = [((7, BOOM), {}, '')]
    assert all(b < MOD - 1 for b in B)
    return B


_ORDER = {}


def _order_tables():
    """DataMatrix arguments that differ only in the ORDER / the WAY in which their columns were created (built once per
    process).  A sorted table presents its columns by name, so all of these are one argument; an unsorted table presents
    them in creation order, so only histories that end in the same presented order are one argument (what the unchanged
    implementation does: to_json follows dm.columns)."""
    if _ORDER:
        return {b: list(forms) for b, forms in _ORDER.items()}
    import numpy as np
    from datamatrix import DataMatrix, FloatColumn, IntColumn, MixedColumn, SeriesColumn
    A, Bc, C = [1, 2], ['x', 'y'], [1.5, None]
    cells = {'a': A, 'b': Bc, 'c': C}

    def created(order, vals=cells, sort=True):
        dm = DataMatrix(length=2)
        if not sort:
            dm.sorted = False
        for name in order:
            dm[name] = vals[name]
        return dm

    def typed_then_filled(order, fill):
        dm = DataMatrix(length=2)
        for name in order:
            dm[name] = MixedColumn
        for name in fill:
            dm[name] = cells[name]
        return dm

    def stacked(order1, order2):
        t1, t2 = DataMatrix(length=1), DataMatrix(length=1)
        for name in order1:
            t1[name] = [cells[name][0]]
        for name in order2:
            t2[name] = [cells[name][1]]
        return t1 << t2

    def renamed():
        dm = DataMatrix(length=2)
        dm.zz = Bc
        dm.c = C
        dm.a = A
        dm.rename('zz', 'b')
        return dm

    def recreated():
        dm = DataMatrix(length=2)
        dm.a = [0, 0]
        dm.b = Bc
        dm.c = C
        del dm.a
        dm.a = A
        return dm

    def typed(order, s01=1.0):
        dm = DataMatrix(length=2)
        for name in order:
            if name == 'i':
                dm.i = IntColumn
                dm.i = [1, 2]
            elif name == 'f':
                dm.f = FloatColumn
                dm.f = [0.5, 1.5]
            else:
                dm.s = SeriesColumn(depth=2)
                dm.s[:] = np.array([[0.0, s01], [2.0, 3.0]])
        return dm

    def typed_late(order):
        dm = DataMatrix(length=2)
        for name in order:
            dm[name] = {'i': IntColumn, 'f': FloatColumn, 's': SeriesColumn(depth=2)}[name]
        dm.s[:] = np.array([[0.0, 1.0], [2.0, 3.0]])
        dm.f = [0.5, 1.5]
        dm.i = [1, 2]
        return dm

    def typed_stacked():
        t1, t2 = typed('sfi')[0:1], typed('ifs')[1:2]
        t = DataMatrix(length=1)
        t.f = FloatColumn
        t.f = [1.5]
        t.s = SeriesColumn(depth=2)
        t.s[:] = np.array([[2.0, 3.0]])
        t.i = IntColumn
        t.i = [2]
        return t1 << t

    U = {'a': [7, 8], 'b': [5, 6]}

    def u_renamed():
        dm = DataMatrix(length=2)
        dm.sorted = False
        dm.q = U['b']
        dm.a = U['a']
        dm.rename('q', 'b')
        return dm

    def u_recreated(first, second):
        # `second` is created first, deleted and created again: presented order (first, second)
        dm = DataMatrix(length=2)
        dm.sorted = False
        dm[second] = [0, 0]
        dm[first] = U[first]
        del dm[second]
        dm[second] = U[second]
        return dm

    near = dict(cells, c=[1.5, 0])
    B = _ORDER
    B.update({
        150: [((created('abc'),), {}, ''), ((created('cba'),), {}, ''), ((typed_then_filled('cab', 'bca'),), {}, ''),
              ((DataMatrix(length=2, c=C, b=Bc, a=A),), {}, ''), ((stacked('bca', 'acb'),), {}, ''), ((renamed(),), {}, ''),
              ((recreated(),), {}, ''), ((created('bac')[:],), {}, '')],
        151: [((created('cba', near),), {}, ''), ((created('abc', near),), {}, '')],
        152: [((typed('ifs'),), {}, ''), ((typed('sfi'),), {}, ''), ((typed_late('fsi'),), {}, ''),
              ((typed_stacked(),), {}, '')],
        153: [((typed('sif', 1.25),), {}, ''), ((typed('fis', 1.25),), {}, '')],
        154: [((created('ba', U, sort=False),), {}, ''), ((u_renamed(),), {}, ''), ((u_recreated('b', 'a'),), {}, '')],
        155: [((created('ab', U, sort=False),), {}, ''), ((u_recreated('a', 'b'),), {}, '')],
        # inside a list and as a keyword
        156: [(([created('cba'), 1],), {'m': created('abc', near)}, ''),
              (((recreated(), 1),), {'m': created('bca', near)}, '')],
    })
    return {b: list(forms) for b, forms in B.items()}


_SHAPE = {}


def _shape_tables():
    """built once per process (neither memoize nor the body changes an argument)"""
    if not _SHAPE:
        B = _SHAPE
        # DataMatrix arguments without rows, and pairs that differ only in the shape of an array without cells / of all-zero
        # cells, in the type or the name of a column without cells, in the order of the columns of an unsorted table
        B.update({
            110: [((_zdm([('s', 2)]),), {}, ''), ((_zdm([('s', 2)]),), {}, ''), ((_zdm([('s', 2)], rows=3)[0:0],), {}, '')],
            111: [((_zdm([('s', 5)]),), {}, ''), ((_zdm([('s', 5)], rows=2)[0:0],), {}, '')],
            112: [((_zdm([('s', 3)]),), {}, '')],
            113: [((_zdm([('a', 'int')]),), {}, ''), ((_zdm([('a', 'int')], rows=2)[0:0],), {}, '')],
            114: [((_zdm([('a', 'float')]),), {}, '')],
            115: [((_zdm([('a', 'mixed')]),), {}, '')],
            116: [((_zdm([]),), {}, '')],
            117: [((_zdm([('b', 'int')]),), {}, '')],
            118: [((_zdm([('trial', 'int'), ('trace', 3)]),), {}, ''), ((_empty_selection(3),), {}, '')],
            119: [((_zdm([('trial', 'int'), ('trace', 5)]),), {}, ''), ((_empty_selection(5),), {}, '')],
            120: [((_zdm([('s', 2)], rows=1),), {}, '')],
            121: [((_zdm([('s', 3)], rows=1),), {}, '')],
            122: [((_zdm([('b', 'int'), ('a', 'int')], rows=2, sort=False),), {}, ''),
                  ((_zdm([('b', 'int'), ('a', 'int')], rows=2, sort=False),), {}, '')],
            123: [((_zdm([('a', 'int'), ('b', 'int')], rows=2, sort=False),), {}, '')],
            124: [((_zdm([('s', 2), ('t', 3)]),), {}, '')],
            125: [((_zdm([('s', 3), ('t', 2)]),), {}, '')],
            126: [(([_zdm([('s', 2)])],), {'m': _zdm([('s', 5)])}, '')],
            127: [(([_zdm([('s', 5)])],), {'m': _zdm([('s', 2)])}, '')],
        })
    return {b: list(forms) for b, forms in _SHAPE.items()}


# thunk slots: paths into (args, kwargs) -- 'a' / 'k', then indices / keys -- whose values are replaced by callables, in
# this order, in the thunk variants of a base (class = base + MOD * number of slots taken).  Bases that are not listed:
# their first two positional arguments.  No slot lies inside another one.
NESTED_SLOTS = {
    100: [('a', 0, 'left', 0), ('a', 0, 'right', 0), ('k', 'extra', 0, 0)],      # dict of lists; keyword -> list of pairs
    101: [('a', 0, 1, 1, 0), ('a', 0, 1, 0), ('a', 1)],                          # depth 3, depth 2, a top-level sibling
    102: [('a', 0, 'k', 0, 'm')],                                                # dict -> tuple -> dict
    103: [('k', 'opt', 'inner', 1), ('k', 'opt', 'inner', 0)],                   # keyword -> dict -> list
    104: [('a', 0, 0), ('a', 0, 1, 0)],                                          # a direct member, then one deeper
    105: [('a', 0, 0, 0), ('a', 0, 1)],                                          # a deeper one, then a direct sibling
    106: [('a', 1, 0, 0), ('k', 'kw', 0, 'd', 0), ('a', 0)],
    107: [('a', 0, 0, 0)],                                                       # the value of the callable is a list
    108: [('a', 0, 0, 1), ('a', 0, 0, 0), ('k', 't', 'u', 0)],                   # next to / returning a DataMatrix
    109: [('a', 1, 'a', 'b', 'c')],                                              # three dicts down
}
assert sorted(NESTED_SLOTS) == NESTED_BASES


def slots_of(b, forms):
    if b in NESTED_SLOTS:
        return NESTED_SLOTS[b]
    return [('a', i) for i in range(min(2, len(forms[0][0])))]


def _path_get(x, path):
    for h in path:
        x = x[h]
    return x


def _path_put(x, path, new):
    """a copy of x (tuples stay tuples, dicts keep their insertion order) in which the value at path is new"""
    if not path:
        return new
    h = path[0]
    if isinstance(x, dict):
        return {k: (_path_put(v, path[1:], new) if k == h else v) for k, v in x.items()}
    items = [(_path_put(v, path[1:], new) if i == h else v) for i, v in enumerate(x)]
    return tuple(items) if isinstance(x, tuple) else items


def _zdm(spec, rows=0, sort=True):
    """a table with `rows` rows (default: none) and the columns spec = [(name, 'int' | 'float' | 'mixed' | depth of a
    series column)], created in that order; every cell is the default of its column type (0 / '' / zeros ... -- int
    columns of tables with rows are filled with 1, 2, ...)"""
    from datamatrix import DataMatrix, FloatColumn, IntColumn, MixedColumn, SeriesColumn
    dm = DataMatrix(length=rows)
    if not sort:
        dm.sorted = False
    for name, kind in spec:
        if isinstance(kind, int):
            dm[name] = SeriesColumn(depth=kind)
            if rows:
                dm[name] = 0
        else:
            dm[name] = {'int': IntColumn, 'float': FloatColumn, 'mixed': MixedColumn}[kind]
            if rows:
                dm[name] = list(range(1, rows + 1))
    return dm


def _empty_selection(depth):
    """`dm.trial > 99` on a table with four rows: nothing is selected, the columns remain"""
    import numpy as np
    from datamatrix import DataMatrix, IntColumn, SeriesColumn
    dm = DataMatrix(length=4)
    dm.trial = IntColumn
    dm.trial = [1, 2, 3, 4]
    dm.trace = SeriesColumn(depth=depth)
    dm.trace = np.arange(4 * depth, dtype=float).reshape((4, depth))
    return dm.trial > 99


_K1 = 'hello_world'
_K2 = ''.join(['hello', '_world'])        # equal to _K1, another object
assert _K1 == _K2 and _K1 is not _K2


def _fresh(s):
    """An equal string that is a new object, so that the pickled size of what the body returns does not depend on
    which of the caller's strings happen to be one object."""
    return (s + ' ')[:-1] if isinstance(s, str) else s


def canon(x):
    """Canonical, picklable, mutable description of an argument (what the body returns)."""
    from datamatrix import DataMatrix
    if isinstance(x, bool):
        return ['bool', x]
    if isinstance(x, int):
        return ['int', x]
    if isinstance(x, float):
        return ['float', float(x)]      # a CallableFloat (col.mean ...) is described as the plain float it is
    if isinstance(x, str):
        return ['str', _fresh(x)]
    if x is None:
        return ['none']
    if isinstance(x, (list, tuple)):
        return ['seq'] + [canon(v) for v in x]
    if isinstance(x, dict):
        return ['map'] + [[_fresh(k), canon(v)] for k, v in sorted(x.items())]
    if isinstance(x, DataMatrix):
        # (names and type names as new objects: the size of the pickled description must not depend on which strings of
        # the argument happen to be one object -- that differs between tables built in different ways)
        return ['dm', len(x)] + [[_fresh(name), _fresh(type(col).__name__), _col_shape(col), [canon(v) for v in col]]
                                 for name, col in x.columns]
    if callable(x):
        return ['callable', getattr(x, '__name__', '?')]
    try:
        import numpy as np
        if isinstance(x, np.ndarray):       # a SeriesColumn cell: every element in full precision
            return ['array', str(x.dtype), list(x.shape)] + [canon(v) for v in x.tolist()]
        if isinstance(x, np.generic):
            return ['np', type(x).__name__, canon(x.item())]
    except ImportError:
        pass
    return ['other', repr(x)]


def _cell_text(v):
    try:
        import numpy as np
        if isinstance(v, np.ndarray):
            return 'array' + repr(v.tolist())
        if isinstance(v, np.generic):
            return type(v).__name__ + repr(v.item())
    except ImportError:
        pass
    return repr(v)


def _shape_text(col):
    """the depth of a series column (its cells do not tell it when there are no rows)"""
    return ('x%d' % col.depth) if hasattr(col, 'depth') else ''


def dm_text(x):
    """The content of a DataMatrix for the L0 relation, independent of convert.to_json and of every printer that
    abbreviates: length, then per column (in the order in which the table presents its columns) its name, its type, for
    a series column its depth, and every cell (repr of the Python scalar: 1 / 1.0 / True / '1' / None / nan differ,
    floats in full precision; a SeriesColumn cell as the nested list of its floats)."""
    return 'dm(%d;%s)' % (len(x), ';'.join(
        '%r:%s%s:[%s]' % (name, type(col).__name__, _shape_text(col), ','.join(_cell_text(v) for v in col))
        for name, col in x.columns))


# ------------------------------------------------------------------ key derivation: literals and accessors
RESERVED_NAMES = ('true', 'false', 'null', '__nameless__')


def prehash_text(g, args, kwargs):
    """The text _memkey hashes, recomputed with the instance's own serialisers (the accessor /repo does not have)."""
    return repr([g._fnc.__name__, g._serialize_args(args), g._serialize_kwargs(kwargs)])


def _plain(s):
    return all(0x20 <= ord(c) <= 0x7e for c in s)


def in_alphabet_arg(x):
    """The harness' reading of Model/MemoKey.arg_okb (the alphabet on which key injectivity is proved)."""
    from datamatrix import DataMatrix, convert as cnv
    if x is None or isinstance(x, (bool, int)):
        return True
    if isinstance(x, float):
        return math.isfinite(x)
    if isinstance(x, str):
        return _plain(x)
    if isinstance(x, (list, tuple)):
        return all(in_alphabet_arg(v) for v in x)
    if isinstance(x, dict):
        return all(isinstance(k, str) and _plain(k) and in_alphabet_arg(v) for k, v in x.items())
    if isinstance(x, DataMatrix):
        t = cnv.to_json(x)
        return t.startswith('{') and _plain(t)
    if callable(x):
        n = getattr(x, '__name__', None)
        return n is None or (re.fullmatch(r'[A-Za-z_][A-Za-z0-9_]*', n) is not None and n not in RESERVED_NAMES)
    return False


def in_alphabet(name, args, kwargs):
    return _plain(name) and in_alphabet_arg(tuple(args)) and in_alphabet_arg(dict(kwargs))


def arg_lit(x, for_model, floats):
    """Python value -> Spec/MemoKey.arg.  A DataMatrix is its content text: for the L1 model the text of
    convert.to_json (what the implementation serialises), for the L0 oracle the description dm_text() built here,
    independent of convert.to_json."""
    from datamatrix import DataMatrix, convert as cnv
    if isinstance(x, bool):
        return '(ABool %s)' % L.boolean(x)
    if isinstance(x, int):
        return '(AInt %s)' % L.z(x)
    if isinstance(x, float):
        floats[L.fl(x)] = repr(x)
        return '(AFloat %s)' % L.fl(x)
    if isinstance(x, str):
        return '(AStr %s)' % L.string(x)
    if x is None:
        return 'ANone'
    if isinstance(x, (list, tuple)):
        return '(%s %s)' % ('AList' if isinstance(x, list) else 'ATuple', L.lst(arg_lit(v, for_model, floats) for v in x))
    if isinstance(x, dict):
        if not all(isinstance(k, str) for k in x):
            raise ValueError('dict key outside the alphabet')
        return '(ADict %s)' % L.lst('(%s, %s)' % (L.string(k), arg_lit(v, for_model, floats)) for k, v in x.items())
    if isinstance(x, DataMatrix):
        return '(ADM %s)' % L.string(cnv.to_json(x) if for_model else dm_text(x))
    if callable(x):
        n = getattr(x, '__name__', None)
        return '(AFun %s)' % ('None' if n is None else '(Some %s)' % L.string(n))
    raise ValueError('argument outside the alphabet: %r' % (x,))


def call_lit(args, kwargs, for_model, floats):
    return '(mkcall %s %s)' % (L.lst(arg_lit(v, for_model, floats) for v in args),
                               L.lst('(%s, %s)' % (L.string(k), arg_lit(v, for_model, floats)) for k, v in kwargs.items()))


_EXPECTED = {}


def expected_and_sizes(B):
    """base class -> description of what the unwrapped body returns for form 0, and -> size of its pickle.
    bases() is deterministic, so this is computed once per process (the long tables make it expensive)."""
    if not _EXPECTED:
        exp, sizes = {}, {}
        for b, forms in B.items():
            a, k, _ = forms[0]
            if b in RAISE_BASES:        # the body raises: there is no value (and nothing to store)
                exp[b], sizes[b] = 'raises:%s' % a[1], 0
                continue
            exp[b] = vdesc(plain_body(a, k))
            sizes[b] = sys.getsizeof(pickle.dumps(plain_body(a, k)))
        _EXPECTED['exp'], _EXPECTED['sizes'] = exp, sizes
    return dict(_EXPECTED['exp']), dict(_EXPECTED['sizes'])


def expected_exception(cls):
    """the exception class a call of argument class cls raises when it is not served from the store (None: it returns)"""
    b, t = cls % MOD, cls // MOD
    if b in RAISE_BASES:
        return RAISE_TAGS[sorted(RAISE_TAGS)[RAISE_BASES.index(b)]]
    if b == THUNK_RAISE_BASE and t == 2:
        return Boom
    return None


class World(object):
    """One history: instances, counters, temp folders."""
    KEYMAP = None      # memkey -> class, computed once per process on the first instance; every call re-checks its own key

    def __init__(self, root):
        self.root = root
        self.count = [0]
        self.forced = [0]
        self.B = bases()
        world = self

        def body(*args, **kwargs):
            world.count[0] += 1
            return plain_body(args, kwargs)
        self.body = body
        # expected value of the unwrapped body per base class (form 0), and their sizes
        self.expected, self.sizes = expected_and_sizes(self.B)
        self.by_desc = {e: b for b, e in self.expected.items()}
        assert len(self.by_desc) == len(self.expected)
        self.insts = []
        self.opts = []
        self.keymap = World.KEYMAP
        self.evicted = False
        self.prev_keys = {}

    def thunk(self, b, pos, val):
        world = self

        def th():
            world.forced[0] += 1
            if isinstance(val, str) and val == BOOM:        # this callable raises when it is evaluated
                raise Boom('evaluating this callable argument raises')
            return val
        th.__name__ = 'th_%d_%d' % (b, pos)
        th.value = val
        return th

    def form(self, cls, fi):
        """concrete (args, kwargs) of class id cls = base + MOD*t, form index fi: the first t thunk slots of the base
        (top-level positions, or the paths of NESTED_SLOTS) hold a callable that returns the value of the slot"""
        b, t = cls % MOD, cls // MOD
        forms = self.B[b]
        a, k, _ = forms[fi % len(forms)]
        x = {'a': tuple(a), 'k': dict(k)}
        for pos, path in enumerate(slots_of(b, forms)[:t]):
            x = _path_put(x, path, self.thunk(b, pos, _path_get(x, path)))
        return tuple(x['a']), dict(x['k'])

    def nslots(self, b):
        return len(slots_of(b, self.B[b]))

    def folder(self, fid):
        return os.path.join(self.root, 'f%d' % fid)

    def vid(self, obj):
        try:
            return self.by_desc.get(vdesc(obj), UNKNOWN_VALUE)
        except Exception:       # noqa: BLE001  (an object that cannot even be described is not the expected value)
            return UNKNOWN_VALUE

    def build_keymap(self, g):
        """memkey -> class id for the whole alphabet; checks the key derivation is a function of the class
        (all forms, keyword/dict order permutations included) and injective on classes."""
        problems = []
        km = {}
        per_class = {}
        for b, forms in self.B.items():
            for t in range(0, self.nslots(b) + 1):
                cls = b + MOD * t
                for fi, (_a, _k, flag) in enumerate(forms):
                    a, k = self.form(cls, fi)
                    try:
                        mk = g._memkey(*a, **k)
                    except Exception as e:      # noqa: BLE001  (an observation, not a crash)
                        problems.append('deriving the key of class %d raised %s: %s' % (cls, type(e).__name__, e))
                        continue
                    if cls in per_class and per_class[cls] != mk:
                        problems.append('equal argument lists of class %d get different keys' % cls)
                    per_class.setdefault(cls, mk)
                    if mk in km and km[mk] != cls:
                        problems.append('distinct argument lists (classes %d and %d) get the same key' % (km[mk], cls))
                    km[mk] = cls
        for s, z in XKEYS.items():
            km[s] = z
        self.keymap = km
        World.KEYMAP = km
        World.KEYPROBLEMS = problems
        return problems


def _mutate_table(dm):
    """isolation probe: change what was handed out -- a new column, the first cell of every column, the flags"""
    dm.mutated = 1
    if len(dm):
        for _name, col in dm.columns:
            col[0] = 77
    dm.sorted = not dm.sorted


def opts_lit(o):
    x = 'None' if o['key'] is None else '(Some (%d))' % XKEYS[o['key']]
    return '(mo %s %s %s %s %d)' % (L.boolean(o['persistent']), x, L.boolean(o['lazy']), L.z(o['max_size']),
                                    o['folder'])


class C20:
    id = 'C20'
    props_file = 'theories/Props/C20.v'
    kernel_files = ['KMemo.v']
    oracle_vos = ['theories/Run/SC20.vo']
    model_vos = ['theories/Run/RC20.vo']
    oracle_imports = ['From DM Require Import Run.SC20.']
    model_imports = ['From DM Require Import Run.SC20 Run.RC20.']
    exhaustive = False
    rule = ('seeded call histories (4-12 operations quick, 10-40 thorough) over 1-4 memoize instances wrapping one '
            'body: every combination of persistent x key(None/explicit) x lazy x max_size(1 GiB, 0, below one value, '
            '1-4 values) is used as first instance, further instances share or do not share one of 3 temp folders; '
            'operations: call with one of 152 argument classes (int/float/bool/str/None scalars, positional pairs, '
            'lists vs tuples (same class), nested containers, dicts, keyword forms and dicts written in several orders '
            '(same class), unicode, strings that need escaping or imitate the separators of the hashed text, -0.0, '
            'DataMatrix values equal / differing in one cell / one column name / row order / column type / NaN vs None; '
            'DataMatrix values with IntColumn / FloatColumn / SeriesColumn (NumPy-backed) columns in nearly equal pairs: '
            '0.1+0.2 vs 0.3, 2**53 vs 2**53+1, 5e-324 vs 0.0, NaN vs inf, IntColumn vs FloatColumn vs MixedColumn of '
            'equal numbers, one cell in the middle of a column of 1100 cells (int, float) or of a 340x3 series; '
            '14 argument lists for which the body returns a falsy / unusual value: None, 0, \'\', [], False, NaN, 0.0, '
            '{}, (), an empty DataMatrix, (None, 0), b\'\', [None], True -- in every option combination, in the '
            'persist / clear / fifo scenarios and in a scenario with a second instance on the same or another folder); '
            '15 argument lists for which the body RETURNS a DataMatrix with non-default configuration / structure '
            '(sorted = False with columns created in non-alphabetical order, a sorted table created in reverse order, a column '
            'known under two names, default_col_type Float / Int, series columns of depth 3 and -- without rows -- 2 / 4 / 5, '
            'Int / Float / Mixed columns with 2**53+1, inf, 5e-324, None, rows taken out of another table in another order, '
            'typed columns without rows, an empty selection, tables inside a list / tuple): the value of the first call, of a '
            'hit and of a persistent hit in a new instance is identified by everything the property can observe of it (length, '
            'sorted flag, default column type, names and columns as listed, types, shapes, every cell, which names are one '
            'column object, row ids, np.array(dm) which follows creation order), and the table handed out is mutated (new '
            'column, first cell of every column, sorted flag); 18 DataMatrix ARGUMENTS without rows or differing only in what a '
            'lossy serialisation drops (depth of a series column without rows or with all-zero rows, Int / Float / Mixed / no '
            'column without cells, the name of such a column, empty selections `dm.col > 99` of tables with series of depth 3 / '
            '5, column order of unsorted tables, two series columns with swapped depths, such tables inside a list and as a '
            'keyword) in nearly-equal pairs; 10 argument lists with values below the top level (depth 2-4 inside lists / '
            'tuples / dicts / keyword values, next to non-callable siblings, a DataMatrix sibling, a list-valued slot) whose '
            'thunk variants put callables there in lazy instances (class = base + 1000 x number of callables); '
            '7 classes of DataMatrix ARGUMENTS that are one argument although their columns were CREATED in different orders / '
            'ways (a sorted table presents its columns by name): created a-b-c / c-b-a, columns typed first and filled in '
            'another order, the keyword constructor DataMatrix(length, c=, b=, a=), two tables stacked with <<, a column '
            'renamed into place, a column deleted and created again, a copy; Int / Float / Series columns created in three '
            'orders, typed first, stacked; unsorted tables (they present creation order) whose histories end in the same '
            'presented order (same class) or in the other order (another class: what the unchanged implementation does); '
            'such tables inside a list and as a keyword; nearly-equal pairs; a scenario calls every form of 4 of them one '
            'after the other (one execution per table); 3 argument lists for which the BODY RAISES (ZeroDivisionError / ValueError / '
            'KeyError) and one whose second callable argument raises while it is evaluated lazily: the call must raise '
            'that exception, nothing is stored, the entries of the other argument lists stay, and a raising call that '
            'follows clear() IS the next call -- the call after it is served from the cache (scenario: call a, b, clear(), '
            'raising call, b, a, raising call again, clear(), ...; memory / persistent, lazy / not, explicit key, a second '
            'instance on the same folder; raising classes also enter the random histories); such histories are judged by '
            'Spec/MemoExn.accept_x and compared with Model/MemoExn.wrun_x; '
            'thunk variants in lazy instances, clear(), new instance (constructed directly or through '
            'memoize(**options)(fnc)); the returned object is mutated after every call (isolation). Observed per call: '
            'value id, execution-counter delta, thunk-counter delta, _cache keys in order, cache_size, files of the '
            'folder. non-trivial = the history contains a hit and a run; distinct by (options, operations). '
            'Key derivation: for every class (but the 6 tables of more than 1000 cells, whose texts exceed what a Coq '
            'string literal can hold: they are compared pairwise at L0 only, same key iff same table, and enter the '
            'histories), form and thunk variant (383 argument lists) the text hashed by _memkey '
            '(recomputed with the instance\'s own serialisers, its md5 compared with _memkey) is compared with the text '
            'the L1 model computes inside Coq, and key equality is compared with the L0 relation "same argument list" '
            'for all pairs at once and for every form against form 0 of its class. '
            'Lazy evaluation: 154 single executions of a recording body (every thunk variant and form of the bases with '
            'callables below the top level, lazy and non-lazy; form 0 with all slots taken of the other bases): what the body '
            'received and the number of callables evaluated are judged by Spec/MemoLazy.lazy_observed_ok (every callable '
            'evaluated once, no callable received, received = arguments with callables replaced by their values up to tuple ~ '
            'list) and compared exactly with Model/MemoLazy.lazy_call on the regenerated k_lazy_obj; the second call must be a '
            'hit that evaluates nothing')
    trusted_base = [
        'Coq 8.16.1 kernel (coqc; vm_compute for evaluating cases; no native_compute)',
        'translator /verif/translate/gen_memo.py (+ py2coq.py): _call_without_arguments, _read_cache, _write_cache, '
        '_serialize_obj (dispatch chain), _lazy_evaluation_obj (dispatch chain; the comprehensions of _lazy_evaluation_args '
        '/ _lazy_evaluation_kwargs pinned), the sort key of _serialize_kwargs, the list hashed by _memkey '
        '-> Gen/KMemo.v incl. its pinned statements (effects, comprehensions, json_tricks.dumps / to_json / repr / md5 calls)',
        'harness/c20.py (runner, value/key identification, isolation probe, literals of the argument lists, the '
        'accessor that recomputes the hashed text, dm_text() as the content of a DataMatrix for the L0 relation, '
        'vdesc() = type name + repr as the identity of a returned value), '
        'Run/SC20.v, Run/RC20.v',
        'modelled, not verified (tied by the correspondence on every argument class): what callable / isinstance / '
        'hasattr answer for the objects of the alphabet, json.dumps on scalars (float.__repr__ is supplied by the '
        'harness per float), unicode_repr / list_repr / dict_repr, stability and code-point order of sorted(); '
        'pickle round trip (loads (dumps v) = v; isolation of returned objects is probed, a by-value model cannot '
        'express aliasing), hashlib.md5 (injective on the hashed texts: hypothesis md5_injective), '
        'convert.to_json determines the table (C17_json_injective), sys.getsizeof(pickle.dumps(v)) as size, '
        'OrderedDict, os.path.exists/remove/open on the cache folder',
    ]
    assumptions = [
        'all instances of a history wrap the same function; explicit keys differ from every argument-derived key',
        'a call whose body (or, in lazy mode, whose callable argument) raises: the exception is not a value -- nothing is '
        'stored, so the same argument list re-executes on every call (exceptions are not memoised: at-most-once is '
        'about calls that return); being the call that follows clear() it uses the clear() up, as the unchanged '
        'implementation does (the flag is reset by the lookup of that call) and as the property says (exactly the next '
        'call re-executes); the callable that raises is the last one of its argument list',
        'max_size >= 0; no .tar.xz archives and no old-style DataMatrix pickles in the cache folder; debug=False',
        'Section hypotheses that appear as premises of the key theorems: md5_injective (md5 is injective on the '
        'hashed texts); float_repr_inj and float_repr_shape (float.__repr__ is injective on finite floats and '
        'writes digits, sign, point, exponent only, starting with a digit or a minus sign, with a point or an '
        'exponent); body_respects (the wrapped function does not tell a tuple from a list of equal content, nor one '
        'keyword order from another: the quantifier counts them as the same argument); loads_dumps (pickle round '
        'trip, only for the simulation between the serialised-store model and the by-value model)',
        'alphabet of key_injective / key_complete (call_okb): every string (str arguments, dict keys, keyword '
        'names, function name, JSON text of a DataMatrix) is printable ASCII 32..126, quote characters and '
        'backslash included; finite floats; dict keys are strings; callable names are identifiers other than true / '
        'false / null / __nameless__. Strings with control or non-ASCII characters are inside the model and the '
        'correspondence (5 of the 250 argument lists), not inside the injectivity proof; json.dumps writes a lone '
        'surrogate pair and the astral character alike (a genuine collision outside the alphabet)',
        'a DataMatrix enters the L0 relation by its content as described by the harness (length, column names in '
        'order, column types, cells; every cell by the repr of its Python scalar, a series cell by the list of its floats: '
        'no printer that abbreviates) and the L1 model by the text of convert.to_json (which also holds the row ids)',
        'a returned value is identified by its type name and repr (a DataMatrix -- also inside a list / tuple -- by '
        'dm_observe(): length, sorted flag, default column type, names / columns as listed, types, shapes, cells, aliasing of '
        'columns, row ids, np.array(dm)): results that differ only in object identity (or the _id of a table) or in the '
        'payload of a NaN are one value',
        'lazy evaluation: the values of the callables of an argument list hold no callables (values are not evaluated '
        'again -- as the implementation does it); a CallableFloat (col.mean) is a number of the argument datatype',
        'a non-persistent instance sharing a folder with persistent ones deletes the file of the re-executed key on '
        'clear(): modelled (L0 and L1) as the implementation does it',
    ]

    # ---- runner ------------------------------------------------------------
    def _run(self, ops):
        from datamatrix import functional as fnc
        warnings.filterwarnings('ignore')
        base = os.environ.get('VERIF_WORK') or '/verif/.work'
        root = os.path.join(base, 'c20-tmp-%d' % os.getpid())
        shutil.rmtree(root, ignore_errors=True)
        os.makedirs(root)
        pyfail = []
        trace = []
        observed = []
        raised = False
        try:
            w = World(root)
            for op in ops:
                kind = op[0]
                if kind == 'new':
                    o = op[1]
                    kw = dict(key=o['key'], persistent=o['persistent'], lazy=o['lazy'], max_size=o['max_size'],
                              folder=w.folder(o['folder']))
                    if o.get('via') == 'decorator':
                        g = fnc.memoize(**kw)(w.body)
                    else:
                        g = fnc.memoize(w.body, **kw)
                    w.insts.append(g)
                    w.opts.append(o)
                    if w.keymap is None:
                        w.build_keymap(g)
                    pyfail.extend(World.KEYPROBLEMS)
                    trace.append('tN %s' % opts_lit(o))
                    observed.append(['new'])
                elif kind == 'clear':
                    if op[1] < len(w.insts):
                        w.insts[op[1]].clear()
                    trace.append('tX %d' % op[1])
                    observed.append(['clear'])
                elif kind == 'call':
                    i, cls, fi = op[1], op[2], op[3]
                    if i >= len(w.insts):
                        continue
                    g, o = w.insts[i], w.opts[i]
                    a, k = w.form(cls, fi)
                    if o['key'] is None:
                        try:
                            same = w.keymap.get(g._memkey(*a, **k)) == cls
                        except Exception:       # noqa: BLE001  (the call below raises as well and is judged there)
                            same = True
                        if not same:
                            pyfail.append('the key of class %d is not the key this class had on another instance' % cls)
                    c0, f0 = w.count[0], w.forced[0]
                    try:
                        r = g(*a, **k)
                    except Exception as e:      # noqa: BLE001
                        ran, forced = w.count[0] - c0, w.forced[0] - f0
                        want = expected_exception(cls)
                        if want is None or type(e) is not want:
                            # the property promises a value for every call whose body returns one
                            pyfail.append('call %d of class %d raised %s: %s' % (len(trace), cls, type(e).__name__, e))
                            observed.append(['raised', type(e).__name__])
                            break
                        # the body (or a lazily evaluated callable argument) raises for this argument list: the call
                        # raises the same exception; what the instance holds afterwards is observed and judged
                        if ran not in (0, 1):
                            pyfail.append('body executed %d times in one call' % ran)
                        keys = [w.keymap.get(mk, UNKNOWN_KEY) for mk in g._cache.keys()]
                        cs = g.cache_size
                        fo = w.folder(o['folder'])
                        files = ([w.keymap.get(fn, UNKNOWN_KEY) for fn in sorted(os.listdir(fo))]
                                 if os.path.isdir(fo) else [])
                        w.prev_keys[i] = keys
                        raised = True
                        trace.append('xR %d %d (mx %s %d %s %d %s)' % (
                            i, cls, L.boolean(ran >= 1), forced, L.zs(keys), cs, L.zs(files)))
                        observed.append(['call-raised', type(e).__name__, ran, forced, keys, cs, files])
                        continue
                    ran, forced = w.count[0] - c0, w.forced[0] - f0
                    v = w.vid(r)
                    if ran not in (0, 1):
                        pyfail.append('body executed %d times in one call' % ran)
                    # isolation probe: mutate what was returned
                    # (with an explicit key: whatever class was stored first; a value that is not the expected value of
                    # any class is judged through its id, and probed by its type)
                    if v in SPECIAL_BASES or v == UNKNOWN_VALUE:
                        try:
                            if isinstance(r, list):
                                r.append('mutated')
                            elif isinstance(r, dict):
                                r['mutated'] = 1
                            elif type(r).__name__ == 'DataMatrix':
                                _mutate_table(r)
                            if isinstance(r, (list, tuple)):
                                for x in r:
                                    if type(x).__name__ == 'DataMatrix':
                                        _mutate_table(x)
                        except Exception:       # noqa: BLE001  (a wrong result was identified by vid above)
                            pass
                    else:
                        try:
                            r.append('mutated')
                            r[1].append('mutated')
                        except Exception as e:
                            pyfail.append('returned object is not the plain list the body built: %r' % (e,))
                    keys = [w.keymap.get(mk, UNKNOWN_KEY) for mk in g._cache.keys()]
                    cs = g.cache_size
                    if len(g._cache) != len(keys):
                        pyfail.append('len(_cache) mismatch')
                    fo = w.folder(o['folder'])
                    files = [w.keymap.get(fn, UNKNOWN_KEY) for fn in sorted(os.listdir(fo))] if os.path.isdir(fo) else []
                    own = XKEYS[o['key']] if o['key'] else cls
                    before = [x for x in w.prev_keys.get(i, []) if x != own]
                    if ran >= 1 and not o['persistent'] and len(keys) < len(before) + 1:
                        w.evicted = True
                    w.prev_keys[i] = keys
                    trace.append('tC %d %d (me %d %s %d %s %d %s)' % (
                        i, cls, v, L.boolean(ran >= 1), forced, L.zs(keys), cs, L.zs(files)))
                    observed.append(['call', v, ran, forced, keys, cs, files])
        finally:
            shutil.rmtree(root, ignore_errors=True)
        # sizes of the values this history can store or return (the other value ids are not referred to)
        used = {op[2] % MOD for op in ops if op[0] == 'call'}
        sizes = L.lst('(%d, %d)' % (b, s) for b, s in sorted(w.sizes.items()) if b in used)
        if raised:      # a history with a raising call: the trace type of Spec/MemoExn.v
            trace = [t if t.startswith('xR ') else 'xT (%s)' % t for t in trace]
        return trace, observed, sizes, pyfail, w.evicted

    @staticmethod
    def B_flag(w, cls, fi):
        forms = w.B[cls % MOD]
        return forms[fi % len(forms)][2]

    def rerun(self, inp):
        if 'keytext' in inp or 'keypair' in inp or 'keymatrix' in inp:
            return self._key_rerun(inp)
        if 'lazyeval' in inp:
            return self._lazyeval_case(*inp['lazyeval'])
        if 'probe' in inp:
            for c in self._lazy_nameless_probes() + (self._pending_probes() if inp['probe'].startswith('pending_') else []):
                if c['input']['probe'] == inp['probe']:
                    return c
            return None
        ops = inp['ops']
        trace, observed, sizes, pyfail, evicted = self._run(ops)
        tr = L.lst(trace)
        x = '_x' if any(t.startswith('xR ') for t in trace) else ''
        calls = [o for o in observed if o[0] == 'call']
        hit = any(o[2] == 0 for o in calls)
        run = any(o[2] >= 1 for o in calls)
        tags = list(inp.get('tags', []))
        news = [op[1] for op in ops if op[0] == 'new']
        if news:
            o = news[0]
            tags.append('first:%s%s%s' % ('P' if o['persistent'] else 'M', 'K' if o['key'] else '-', 'L' if o['lazy'] else '-'))
            tags.append('max:%s' % ('1GiB' if o['max_size'] >= ONE_GIGABYTE else str(o['max_size'])))
        if any(op[0] == 'clear' for op in ops):
            tags.append('has-clear')
        if evicted:
            tags.append('eviction')
        if len(news) > 1:
            tags.append('multi-instance')
        if x:
            tags.append('has-raising-call')
            kinds = [o[0] for o in observed]
            for j, kd in enumerate(kinds):
                if kd == 'call-raised':
                    prev = [q for q in kinds[:j] if q != 'new']
                    tags.append('raise:' + ('after-clear' if prev and prev[-1] == 'clear' else 'ordinary'))
                    tags.append('raise:' + ('in-body' if observed[j][2] else 'in-lazy-evaluation'))
                    if news:
                        tags.append('raise:%s%s' % ('persistent' if news[0]['persistent'] else 'memory',
                                                    '-lazy' if news[0]['lazy'] else ''))
        return {
            'input': inp, 'observed': observed, 'pyfail': '; '.join(sorted(set(pyfail))) or None,
            'oracle': '(oracle%s %s %s)' % (x, sizes, tr),
            'model': '(model_agrees%s %s %s)' % (x, sizes, tr),
            'nontrivial': hit and run,
            'sig': repr(ops),
            'tags': tags,
        }

    # ---- generator -----------------------------------------------------------
    def _history(self, rng, first, maxlen, kworder_both):
        w_sizes = self._sizes
        lazy_bases = [b for b, forms in self._B.items() if slots_of(b, forms)]
        orient = rng.randint(0, 1)

        def new_opts(o=None):
            if o is None:
                o = {'persistent': rng.random() < 0.5, 'key': rng.choice([None, None, None, 'k1', 'k2']),
                     'lazy': rng.random() < 0.4, 'max_size': self._pick_max(rng), 'folder': rng.randint(0, 2)}
            o = dict(o)
            o['via'] = rng.choice(['direct', 'decorator'])
            return o
        ops = [['new', new_opts(first)]]
        n_inst = 1
        # a small working set of classes makes hits, evictions and re-executions likely
        pool_b = rng.sample(sorted(self._B), rng.randint(2, 5))
        if rng.random() < 0.5:
            pool_b += rng.sample([30, 31, 32, 33, 34, 35, 36, 37], 2)
        if rng.random() < 0.25:
            pool_b += [30, 31, 33]
        if rng.random() < 0.4:
            pool_b += rng.sample([0, 1, 2, 18, 27, 28, 3], 3)
        if rng.random() < 0.35:
            pool_b += [7, 9, 5, 6]
        if rng.random() < 0.3:
            pool_b += [10, 11, 12, 13, 14, 15]
        # NumPy-backed tables that are nearly equal (both members of a pair), falsy / unusual results
        if rng.random() < 0.3:
            for pair in rng.sample(DM_NEAR_PAIRS, 2):
                pool_b += list(pair)
        if rng.random() < 0.25:
            for pair in rng.sample(DM_SHAPE_PAIRS, 2):
                pool_b += list(pair)
        if rng.random() < (0.5 if first is not None and first['lazy'] else 0.15):
            pool_b += rng.sample(NESTED_BASES, 2)
        if rng.random() < 0.3:
            pool_b += rng.sample(RET_TABLE_BASES, rng.randint(1, 3))
        if rng.random() < 0.35:
            pool_b += rng.sample(SPECIAL_BASES, rng.randint(1, 3))
            if rng.random() < 0.5:
                pool_b.append(SPECIAL_BASES[0])         # None: what a lookup returns for "nothing there"
        # tables whose columns were created in different orders / ways (the form is drawn per call)
        if rng.random() < 0.3:
            pool_b += rng.sample(DM_ORDER_BASES, 2)
        # argument lists for which the body (or, in lazy instances, a callable argument) raises
        if rng.random() < 0.3:
            pool_b += rng.sample(RAISE_BASES, rng.randint(1, 2)) + [THUNK_RAISE_BASE]
        n = rng.randint(4, maxlen)
        while len(ops) < n:
            r = rng.random()
            if r < 0.10 and n_inst < 4:
                if rng.random() < 0.5:
                    # same options as an existing instance (persistence across instances), maybe other max_size
                    o = dict(rng.choice([op[1] for op in ops if op[0] == 'new']))
                    if rng.random() < 0.3:
                        o['max_size'] = self._pick_max(rng)
                    ops.append(['new', new_opts(o)])
                else:
                    ops.append(['new', new_opts()])
                n_inst += 1
            elif r < 0.25:
                ops.append(['clear', rng.randrange(n_inst)])
            else:
                i = rng.randrange(n_inst)
                o = [op[1] for op in ops if op[0] == 'new'][i]
                b = rng.choice(pool_b)
                t = 0
                if o['lazy'] and b in lazy_bases and rng.random() < 0.6:
                    t = rng.randint(1, len(slots_of(b, self._B[b])))
                forms = self._B[b]
                ok = [fi for fi, fm in enumerate(forms) if kworder_both or fm[2] != 'kwperm']
                if not kworder_both and any(fm[2] == 'kwperm' for fm in forms) and orient == 1:
                    ok = [fi for fi, fm in enumerate(forms) if fm[2] == 'kwperm']
                ops.append(['call', i, b + MOD * t, rng.choice(ok)])
        return ops

    def _okform(self, b, fi):
        """form index fi of base b, unless that form is a keyword/dict-order permutation (D18) and those are off"""
        forms = self._B[b]
        if forms[fi % len(forms)][2] == 'kwperm' and not KWORDER:
            return 0
        return fi % len(forms)

    def _value_sizes(self):
        """sizes of the values the body returns (a raising argument list has none)"""
        return sorted(v for b, v in self._sizes.items() if b not in RAISE_BASES)

    def _pick_max(self, rng):
        s = self._value_sizes()
        typical = s[len(s) // 2]
        return rng.choice([ONE_GIGABYTE, ONE_GIGABYTE, 0, s[0] - 1, typical, 2 * typical, 2 * typical + 40,
                           3 * typical, 4 * typical + 100, 1000, 5000])

    def _prepare(self):
        from datamatrix import DataMatrix  # noqa: F401
        self._B = bases()
        self._sizes = expected_and_sizes(self._B)[1]

    def generate(self, rng, tier):
        self._prepare()
        both = KWORDER
        cases = []
        maxlen = 12 if tier == 'quick' else 40
        reps = 5 if tier == 'quick' else 14
        s = self._value_sizes()
        typical = s[len(s) // 2]
        maxes = [ONE_GIGABYTE, 0, s[0] - 1, typical + 10, 2 * typical + 20, 3 * typical + 30]
        for persistent in (False, True):
            for key in (None, 'k1'):
                for lazy in (False, True):
                    for mx in maxes:
                        for _ in range(reps):
                            first = {'persistent': persistent, 'key': key, 'lazy': lazy, 'max_size': mx,
                                     'folder': rng.randint(0, 2)}
                            ops = self._history(rng, first, maxlen, both)
                            cases.append(self.rerun({'ops': ops, 'tags': ['combo']}))
        # scripted scenarios of the property text, on random classes
        for _ in range(100 if tier == 'quick' else 400):
            ops = self._scenario(rng)
            cases.append(self.rerun({'ops': ops, 'tags': ['scenario']}))
        for _ in range(600 if tier == 'quick' else 2500):
            ops = self._history(rng, None, maxlen, both)
            cases.append(self.rerun({'ops': ops, 'tags': ['random']}))
        cases.extend(self._lazy_nameless_probes())
        cases.extend(self._lazyeval_cases())
        cases.extend(self._key_cases())
        if INCLUDE_PENDING_FINDINGS:
            cases.extend(self._pending_probes())
        return cases

    def _lazy_nameless_probes(self):
        """lazy=True with callables that have no __name__ (functools.partial, callable objects): they are evaluated only
        when the body runs -- once on a miss, never on a hit -- and the call returns what the unwrapped body returns."""
        import functools
        from datamatrix import functional as fnc
        out = []
        for kind in ('partial', 'object', 'partial_persistent'):
            problem = None
            base = os.environ.get('VERIF_WORK') or '/verif/.work'
            root = os.path.join(base, 'c20-lazy-%d' % os.getpid())
            shutil.rmtree(root, ignore_errors=True)
            try:
                evals = [0]

                def produce(v):
                    evals[0] += 1
                    return v

                class Thunk(object):
                    def __call__(self):
                        return produce(5)
                arg = Thunk() if kind == 'object' else functools.partial(produce, 5)
                runs = [0]

                def body(x):
                    runs[0] += 1
                    return [x, 'r']
                g = fnc.memoize(body, lazy=True, persistent=(kind == 'partial_persistent'), folder=root)
                r1 = g(arg)
                e1, n1 = evals[0], runs[0]
                r2 = g(arg)
                e2, n2 = evals[0], runs[0]
                if r1 != [5, 'r'] or r2 != [5, 'r']:
                    problem = 'lazy call with a nameless callable returned %r then %r' % (r1, r2)
                elif (n1, n2) != (1, 1):
                    problem = 'body ran %d then %d times in total' % (n1, n2)
                elif e1 != 1:
                    problem = 'the callable argument was evaluated %d times for one execution of the body' % e1
                elif e2 != 1:
                    problem = 'the callable argument was evaluated again (%d in total) on a cache hit' % e2
            except Exception as e:      # noqa: BLE001
                problem = 'lazy call with a nameless callable raised %r' % (e,)
            finally:
                shutil.rmtree(root, ignore_errors=True)
            out.append({'input': {'probe': 'lazy_nameless_' + kind}, 'observed': {'problem': problem}, 'pyfail': problem,
                        'oracle': 'true', 'model': 'true', 'nontrivial': True, 'sig': 'probe|lazy_nameless|' + kind,
                        'tags': ['probe', 'probe:lazy_nameless']})
        return out

    # ---- lazy evaluation: what the body receives -------------------------------------
    def _lazyeval_cases(self):
        """One execution of the body per argument list that holds callables: every thunk variant and form of the bases
        with callables below the top level (NESTED_SLOTS), in a lazy and in a non-lazy instance; of the other bases form 0
        with all their slots taken, lazy."""
        w = World(None)
        out = []
        for b in sorted(w.B):
            if b in DM_LONG:
                continue
            n = w.nslots(b)
            if b in NESTED_SLOTS:
                for t in range(1, n + 1):
                    for fi in range(len(w.B[b])):
                        out.append(self._lazyeval_case(b + MOD * t, fi, True))
                    out.append(self._lazyeval_case(b + MOD * t, 0, False))
            elif n and b not in RET_TABLE_BASES and b not in RAISE_BASES and b != THUNK_RAISE_BASE:
                out.append(self._lazyeval_case(b + MOD * n, 0, True))
        return out

    def _lazyeval_case(self, cls, fi, lazy):
        """The argument list (cls, fi) is passed to a fresh memoize instance whose body records what it is given.
        L0 (lazy instances; Spec/MemoLazy.v): every callable -- wherever it stands -- was evaluated exactly once, the body
        received no callable, and it received the argument list with every callable replaced by its value; the call
        returns what the unwrapped body returns for those arguments; a second call is a hit that evaluates nothing.
        L1 (Model/MemoLazy.v on the regenerated k_lazy_obj): the model's evaluated argument list is exactly what the body
        received (a rebuilt sequence is a list), and it evaluates as many callables.  In a non-lazy instance callables are
        outside the property's quantifier: only the model is compared (nothing is evaluated, nothing is rebuilt)."""
        from datamatrix import functional as fnc
        warnings.filterwarnings('ignore')
        w = World(None)
        a, k = w.form(cls, fi)
        got = []

        def body(*args, **kwargs):
            got.append((args, kwargs))
            return plain_body(args, kwargs)
        pyfail = []
        observed = {}
        f0 = w.forced[0]
        try:
            g = fnc.memoize(body, lazy=lazy)
            r = g(*a, **k)
            forced = w.forced[0] - f0
            r2 = g(*a, **k)
            forced2 = w.forced[0] - f0 - forced
            observed = {'forced': forced, 'forced_on_hit': forced2, 'runs': len(got), 'value': vdesc(r)[:200]}
            if len(got) != 1:
                pyfail.append('the body ran %d times in two calls with the same arguments' % len(got))
            if forced2 != 0:
                pyfail.append('%d callables were evaluated on a cache hit' % forced2)
            if lazy and (vdesc(r) != w.expected[cls % MOD] or vdesc(r2) != w.expected[cls % MOD]):
                pyfail.append('the call does not return what the unwrapped body returns for the evaluated arguments')
        except Exception as e:      # noqa: BLE001  (the property promises a value for every call)
            pyfail.append('the call raised %s: %s' % (type(e).__name__, e))
        inp = {'lazyeval': [cls, fi, bool(lazy)]}
        case = {'input': inp, 'observed': observed, 'pyfail': '; '.join(pyfail) or None, 'oracle': 'true', 'model': 'true',
                'nontrivial': True, 'sig': 'lazyeval|%d|%d|%s' % (cls, fi, lazy),
                'tags': ['lazyeval', 'lazyeval:nested' if cls % MOD in NESTED_SLOTS else 'lazyeval:top',
                         'lazyeval:lazy' if lazy else 'lazyeval:not-lazy']}
        if not got:
            case['model'] = 'false'
            return case

        def thunks_in(x, acc):
            if isinstance(x, dict):
                for v in x.values():
                    thunks_in(v, acc)
            elif isinstance(x, (list, tuple)):
                for v in x:
                    thunks_in(v, acc)
            elif callable(x) and hasattr(x, 'value'):
                acc.append(x)
            return acc
        ths = thunks_in([a, k], [])
        ra, rk = got[0]
        try:
            for for_model in (False, True):
                fl = {}
                tab = L.lst('(%s, %s)' % (L.string(th.__name__), arg_lit(th.value, for_model, fl)) for th in ths)
                c = call_lit(a, k, for_model, fl)
                rec = call_lit(ra, rk, for_model, fl)
                if for_model:
                    case['model'] = '(lazy_agrees %s %s %s %s %d)' % (tab, L.boolean(lazy), c, rec, observed['forced'])
                elif lazy:
                    case['oracle'] = '(lazy_ok %s %s %s %d)' % (tab, c, rec, observed['forced'])
        except ValueError as e:     # the body received something outside the argument alphabet
            case['pyfail'] = '; '.join(pyfail + ['the body received %s' % e])
        return case

    def _scenario(self, rng):
        bs = sorted(self._B)
        a, b, c = rng.sample(bs, 3)
        kind = rng.choice(['persist', 'clear', 'fifo', 'xkey', 'lazy', 'equal-forms', 'dm', 'dm-near', 'falsy', 'falsy',
                           'raise', 'raise', 'dm-order'])
        if kind == 'raise':
            # clear() followed by a call that RAISES (in the body / in the lazy evaluation of an argument): that call is
            # the next call -- the cached results of the other argument lists are served from the cache afterwards;
            # a raising call that does not follow clear(); the same on a second instance sharing the folder
            ok = [x for x in bs if x not in RAISE_BASES and x != THUNK_RAISE_BASE]
            a, b, c = rng.sample(ok, 3)
            o = {'persistent': rng.random() < 0.5, 'key': rng.choice([None, None, None, 'k1']), 'lazy': rng.random() < 0.5,
                 'max_size': ONE_GIGABYTE, 'folder': rng.randint(0, 2)}

            def raising():
                x = rng.choice(RAISE_BASES)
                if o['lazy']:
                    x = rng.choice([x, x + MOD * rng.randint(1, 2), THUNK_RAISE_BASE + 2 * MOD, THUNK_RAISE_BASE + 2 * MOD])
                return x
            x, y = raising(), raising()
            ops = [['new', o], ['call', 0, a, 0], ['call', 0, b, 0]]
            if rng.random() < 0.5:
                ops.append(['call', 0, b, 0])
            if rng.random() < 0.3:
                ops.append(['call', 0, x, 0])           # an ordinary raising call
            ops += [['clear', 0], ['call', 0, x, 0], ['call', 0, b, 0], ['call', 0, a, 0]]
            if rng.random() < 0.5:
                ops += [['call', 0, y, 0], ['call', 0, a, 0]]
            if o['lazy'] and rng.random() < 0.5:
                ops += [['call', 0, THUNK_RAISE_BASE + MOD, 0], ['call', 0, THUNK_RAISE_BASE, 0]]
            ops += [['clear', 0], ['call', 0, rng.choice([a, c]), 0], ['call', 0, a, 0], ['call', 0, b, 0]]
            if rng.random() < 0.6:
                o2 = dict(o, via='decorator')
                if rng.random() < 0.3:
                    o2['persistent'] = not o['persistent']
                ops += [['new', o2], ['call', 1, b, 0], ['call', 1, c, 0], ['clear', 1], ['call', 1, y, 0], ['call', 1, c, 0],
                        ['call', 1, b, 0], ['call', 0, b, 0], ['clear', 0], ['clear', 1], ['call', 0, x, 0], ['call', 1, b, 0],
                        ['call', 0, a, 0]]
            return ops
        if kind == 'dm-order':
            # the same table built in every way, one after the other: one execution of the body per table
            o = {'persistent': rng.random() < 0.5, 'key': None, 'lazy': rng.random() < 0.25, 'max_size': ONE_GIGABYTE,
                 'folder': rng.randint(0, 2)}
            ops = [['new', o]]
            for x in rng.sample(DM_ORDER_BASES, 4):
                fis = list(range(len(self._B[x])))
                rng.shuffle(fis)
                for fi in fis[:4]:
                    ops.append(['call', 0, x, fi])
            if rng.random() < 0.5:
                x = rng.choice(DM_ORDER_BASES)
                ops += [['new', dict(o, via='decorator')], ['call', 1, x, rng.randrange(len(self._B[x]))],
                        ['call', 1, x, rng.randrange(len(self._B[x]))]]
            return ops
        if kind == 'falsy' or (kind in ('persist', 'clear', 'fifo') and rng.random() < 0.3):
            # the same scenarios on argument lists whose result is None / 0 / '' / [] / False / NaN / ...
            a, b, c = rng.sample(RET_TABLE_BASES if rng.random() < 0.5 else SPECIAL_BASES, 3)
            if rng.random() < 0.4 and SPECIAL_BASES[0] not in (b, c) and a not in RET_TABLE_BASES:
                a = SPECIAL_BASES[0]        # None
        if kind == 'falsy':
            # every option combination, a second instance on the same folder, clear()
            sz = self._sizes
            o = {'persistent': rng.random() < 0.6, 'key': rng.choice([None, None, None, 'k1']), 'lazy': rng.random() < 0.3,
                 'max_size': rng.choice([ONE_GIGABYTE, ONE_GIGABYTE, sz[a] + sz[b], sz[a] + sz[b] + sz[c], sz[a]]),
                 'folder': rng.randint(0, 2)}
            t = MOD * rng.randint(0, 2) if o['lazy'] else 0
            o2 = dict(o, via='decorator')
            if rng.random() < 0.3:
                o2['folder'] = (o['folder'] + 1) % 3
            return [['new', o], ['call', 0, a + t, 0], ['call', 0, a + t, 0], ['call', 0, b, 0], ['call', 0, a, 0],
                    ['new', o2], ['call', 1, a, 0], ['call', 1, b + t, 0], ['call', 1, c, 0], ['call', 0, c, 0],
                    ['clear', 1], ['call', 1, a, 0], ['call', 1, a, 0], ['call', 0, a, 0], ['call', 0, b, 0]]
        if kind == 'dm-near':
            # tables that differ in what an abbreviating printer leaves out: every pair, both orders
            o = {'persistent': rng.random() < 0.5, 'key': None, 'lazy': rng.random() < 0.25, 'max_size': ONE_GIGABYTE,
                 'folder': 1}
            ops = [['new', o]]
            for x, y in rng.sample(DM_NEAR_PAIRS, 4):
                if rng.random() < 0.5:
                    x, y = y, x
                t = MOD if o['lazy'] and rng.random() < 0.5 else 0
                ops += [['call', 0, x + t, 0], ['call', 0, y + t, rng.randint(0, 1)], ['call', 0, x, rng.randint(0, 1)]]
            return ops
        if kind == 'persist':
            o = {'persistent': True, 'key': None, 'lazy': False, 'max_size': ONE_GIGABYTE, 'folder': 1}
            return [['new', o], ['call', 0, a, 0], ['call', 0, b, 0], ['new', dict(o, via='decorator')],
                    ['call', 1, a, self._okform(a, 1)], ['call', 1, c, 0], ['new', o], ['call', 2, c, 0], ['call', 2, b, 0],
                    ['clear', 2], ['call', 2, a, 0], ['call', 0, a, 0]]
        if kind == 'clear':
            o = {'persistent': rng.random() < 0.5, 'key': None, 'lazy': False, 'max_size': ONE_GIGABYTE, 'folder': 0}
            return [['new', o], ['call', 0, a, 0], ['call', 0, b, 0], ['clear', 0], ['call', 0, a, 0], ['call', 0, a, 0],
                    ['call', 0, b, 0], ['clear', 0], ['clear', 0], ['call', 0, c, 0], ['call', 0, a, 0], ['call', 0, c, 0]]
        if kind == 'fifo':
            sz = self._sizes
            o = {'persistent': False, 'key': None, 'lazy': False, 'max_size': sz[a] + sz[b] + rng.choice([0, -1, 1, 30]),
                 'folder': 0}
            return [['new', o], ['call', 0, a, 0], ['call', 0, b, 0], ['call', 0, a, 0], ['call', 0, c, 0],
                    ['call', 0, a, 0], ['call', 0, b, 0], ['call', 0, c, 0]]
        if kind == 'xkey':
            o = {'persistent': rng.random() < 0.5, 'key': 'k1', 'lazy': False, 'max_size': ONE_GIGABYTE, 'folder': 2}
            return [['new', o], ['call', 0, a, 0], ['call', 0, b, 0], ['clear', 0], ['call', 0, c, 0], ['call', 0, a, 0],
                    ['new', dict(o, key='k2')], ['call', 1, b, 0], ['call', 1, a, 0], ['new', o], ['call', 2, b, 0]]
        if kind == 'lazy':
            lb = [x for x in bs if slots_of(x, self._B[x])]
            a = rng.choice(NESTED_BASES if rng.random() < 0.5 else lb)
            n = len(slots_of(a, self._B[a]))
            # every number of callables the base has slots for (below the top level: NESTED_SLOTS), all forms
            t1 = MOD * rng.randint(1, n)
            t2 = MOD * rng.randint(1, n)
            f1, f2 = self._okform(a, rng.randint(0, 2)), self._okform(a, rng.randint(0, 2))
            o = {'persistent': rng.random() < 0.3, 'key': None, 'lazy': True, 'max_size': ONE_GIGABYTE, 'folder': 0}
            return [['new', o], ['call', 0, a + t1, f1], ['call', 0, a + t1, f2], ['call', 0, a, 0], ['call', 0, a, f1],
                    ['call', 0, a + t2, f2], ['clear', 0], ['call', 0, a + t1, 0], ['call', 0, a + t1, f1],
                    ['new', dict(o, via='decorator')], ['call', 1, a + t2, f2], ['call', 1, a + MOD * n, f1]]
        if kind == 'equal-forms':
            o = {'persistent': rng.random() < 0.3, 'key': None, 'lazy': rng.random() < 0.3, 'max_size': ONE_GIGABYTE,
                 'folder': 0}
            ops = [['new', o]]
            for x in (7, 8, 22, 24, 26, 30):
                for fi in range(len(self._B[x])):
                    ops.append(['call', 0, x, fi])
            return ops
        o = {'persistent': rng.random() < 0.5, 'key': None, 'lazy': False, 'max_size': ONE_GIGABYTE, 'folder': 1}
        ops = [['new', o]]
        for x in rng.sample([30, 31, 32, 33, 34, 35, 36, 37, 30, 31, 33, 30, 31, 33, 34, 35, 60, 61, 62, 63, 64, 36]
                            + list(range(110, 128)) + DM_ORDER_BASES, 10):
            ops.append(['call', 0, x, rng.randint(0, 7)])
        return ops


    def _pending_probes(self):
        from datamatrix import functional as fnc
        warnings.filterwarnings('ignore')
        out = []

        def probe(name, lazy, a, b, plain):
            problem = None
            try:
                g = fnc.memoize(lambda x: ['r', plain(x)], lazy=lazy)
                ra, rb = g(a), g(b)
                if ra != ['r', plain(a() if lazy and callable(a) else a)] or rb != ['r', plain(b() if lazy and callable(b) else b)]:
                    problem = 'two different argument lists share one key: the second call returned %r' % (rb,)
            except Exception as e:      # noqa: BLE001
                problem = 'raised %r' % (e,)
            out.append({'input': {'probe': 'pending_' + name}, 'observed': {'problem': problem}, 'pyfail': problem,
                        'oracle': 'true', 'model': 'true', 'nontrivial': True, 'sig': 'probe|pending|' + name,
                        'tags': ['probe', 'probe:pending']})

        probe('lone_surrogates', False, chr(0xd800) + chr(0xdc00), chr(0x10000), len)

        def true():
            return 'evaluated'
        probe('callable_named_true', True, True, true, repr)
        from datamatrix import DataMatrix, FloatColumn
        t1, t2 = _dm({'x': [1, 2], 'y': [3, 4]}), _dm({'x': [1, 2], 'y': [3, 4]})
        t2.sorted = False
        probe('dm_sorted_flag', False, t1, t2, lambda dm: bool(dm.sorted))
        t3 = DataMatrix(length=2, default_col_type=FloatColumn)
        t3.x = [1, 2]
        t4 = _tdm('float', [1, 2])
        probe('dm_default_col_type', False, t3, t4, lambda dm: dm.default_col_type.__name__)
        return out

    # ---- key derivation cases ---------------------------------------------------
    def _key_world(self):
        from datamatrix import functional as fnc
        warnings.filterwarnings('ignore')
        w = World(None)
        return w, fnc.memoize(w.body)

    @staticmethod
    def _key_forms(w):
        out = []
        for b in sorted(w.B):
            if b in DM_LONG:        # their texts are too long for Coq string literals: see _long_pair_cases
                continue
            forms = w.B[b]
            # (the argument lists (RET, tag) of the returned tables differ from those of the falsy results in the tag only:
            # their thunk variants enter the histories and build_keymap, not the text comparison)
            for t in range(0, (0 if b in RET_TABLE_BASES else len(slots_of(b, forms))) + 1):
                for fi in range(len(forms)):
                    out.append((b + MOD * t, fi))
        return out

    @staticmethod
    def _memkey_of(g, a, k):
        """(memkey, None) or (None, description of the exception): an exception is an observation, not a crash"""
        try:
            return g._memkey(*a, **k), None
        except Exception as e:      # noqa: BLE001
            return None, '%s: %s' % (type(e).__name__, e)

    def _keypair_case(self, w, g, x, y, tags):
        """L0 only: the implementation gives the forms x and y the same key iff they are the same argument list."""
        (a, k), (a2, k2) = w.form(*x), w.form(*y)
        mk, err = self._memkey_of(g, a, k)
        mk2, err2 = self._memkey_of(g, a2, k2)
        fl = {}
        pyfail = None
        if err or err2:
            pyfail = 'deriving the key of an argument list of the alphabet raised %s' % (err or err2)
        return {'input': {'keypair': [list(x), list(y)]}, 'observed': {'keys': [mk, mk2]}, 'pyfail': pyfail,
                'oracle': '(key_pair_ok %s %s %s)' % (call_lit(a, k, False, fl), call_lit(a2, k2, False, fl),
                                                      L.boolean(mk == mk2)),
                'model': 'true', 'nontrivial': True, 'sig': 'keypair|%r|%r' % (x, y), 'tags': tags}

    def _keytext_case(self, w, g, cls, fi):
        """One form: L0 against form 0 of its class; L1 text against the text the implementation hashes."""
        c = self._keypair_case(w, g, (cls, 0), (cls, fi), ['key', 'key:text'])
        a, k = w.form(cls, fi)
        mk = c['observed']['keys'][1]
        name = getattr(g._fnc, '__name__', '?')
        try:
            text = prehash_text(g, a, k)
            consistent = hashlib.md5(text.encode('utf-8')).hexdigest() == mk
        except Exception as e:      # noqa: BLE001  (the accessor relies on the implementation's own serialisers)
            text, consistent = None, False
            c['observed']['accessor'] = '%s: %s' % (type(e).__name__, e)
        if text is None or mk is None:
            model = 'false'
        else:
            fl = {}
            lit = call_lit(a, k, True, fl)
            tab = L.lst('(%s, %s)' % (f, L.string(r)) for f, r in sorted(fl.items()))
            inside = in_alphabet(name, a, k)
            c['tags'] = c['tags'] + ['key:alphabet-in' if inside else 'key:alphabet-out']
            model = '(andb %s (keytext_agrees %s %s %s %s %s))' % (
                L.boolean(consistent), tab, L.string(name), lit, L.string(text), L.boolean(inside))
        c['input'] = {'keytext': [cls, fi]}
        c['observed']['text'] = text
        c['model'] = model
        c['sig'] = 'keytext|%d|%d' % (cls, fi)
        return c

    def _keymatrix_case(self, w, g):
        """All pairs of forms at once (one Coq term): same key iff same argument list."""
        ids, items, fl, errs = {}, [], {}, []
        for cls, fi in self._key_forms(w):
            a, k = w.form(cls, fi)
            mk, err = self._memkey_of(g, a, k)
            if err:
                errs.append('class %d form %d: %s' % (cls, fi, err))
                continue
            items.append('(%s, %d)' % (call_lit(a, k, False, fl), ids.setdefault(mk, len(ids))))
        return {'input': {'keymatrix': 'all'}, 'observed': {'forms': len(items), 'distinct_keys': len(ids)},
                'pyfail': ('deriving the key raised: ' + '; '.join(errs[:3])) if errs else None,
                'oracle': '(key_matrix_ok %s)' % L.lst(items), 'model': 'true', 'nontrivial': True,
                'sig': 'keymatrix', 'tags': ['key', 'key:matrix']}

    def _key_cases(self):
        w, g = self._key_world()
        cases = [self._keytext_case(w, g, cls, fi) for cls, fi in self._key_forms(w)]
        cases.append(self._keymatrix_case(w, g))
        cases.extend(self._long_pair_cases(w, g))
        return cases

    def _long_pair_cases(self, w, g):
        """L0 only, for the tables of more than 1000 cells: same key iff same table (one cell in the middle differs /
        the same table built twice).  Their keys also enter build_keymap and the call histories."""
        pairs = [((69, 0), (70, 0)), ((69, 0), (69, 1)), ((71, 0), (72, 0)), ((73, 0), (74, 0))]
        return [self._keypair_case(w, g, x, y, ['key', 'key:pair', 'key:long-table']) for x, y in pairs]

    def _key_rerun(self, inp):
        w, g = self._key_world()
        if 'keytext' in inp:
            return self._keytext_case(w, g, inp['keytext'][0], inp['keytext'][1])
        if 'keypair' in inp:
            return self._keypair_case(w, g, tuple(inp['keypair'][0]), tuple(inp['keypair'][1]), ['key', 'key:pair'])
        return self._keymatrix_case(w, g)

    def _key_shrink(self, inp):
        """a failing matrix: the pairs on which the implementation's keys and the harness' classes disagree"""
        if 'keymatrix' not in inp:
            return
        w, g = self._key_world()
        forms = self._key_forms(w)
        keys = {f: self._memkey_of(g, *w.form(*f))[0] for f in forms}
        for i, x in enumerate(forms):
            for y in forms[i + 1:]:
                if (keys[x] == keys[y]) != (x[0] == y[0]):
                    yield {'keypair': [list(x), list(y)]}

    # ---- shrinking / identification -----------------------------------------
    def shrink_candidates(self, inp):
        if 'keytext' in inp or 'keypair' in inp or 'keymatrix' in inp:
            for c in self._key_shrink(inp):
                yield c
            return
        if 'probe' in inp or 'lazyeval' in inp:
            return
        ops = inp['ops']
        for i in range(len(ops) - 1, -1, -1):
            if ops[i][0] != 'new':
                yield {'ops': ops[:i] + ops[i + 1:], 'tags': inp.get('tags', [])}
        # drop the last instance if nothing refers to it
        news = [j for j, op in enumerate(ops) if op[0] == 'new']
        if len(news) > 1:
            last = len(news) - 1
            if not any(op[0] != 'new' and op[1] == last for op in ops):
                j = news[-1]
                yield {'ops': ops[:j] + ops[j + 1:], 'tags': inp.get('tags', [])}

    def key(self, case):
        import json
        if 'probe' in case['input']:
            return 'memoize probe ' + case['input']['probe']
        if 'ops' not in case['input']:
            return 'memoize key ' + json.dumps(case['input'], separators=(',', ':'), sort_keys=True)
        return 'memoize ' + json.dumps(case['input']['ops'], separators=(',', ':'), sort_keys=True)


PROP = C20()
