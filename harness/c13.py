"""C13 -- column arithmetic is element-wise and respects operand order."""
import json
import math
import operator
import warnings

import numpy as np

import os

import coqlit as L
import pyobs

# which binary64 implementation the IEEE oracle / model run on: '' = Coq's primitive floats (default),
# '_spec' = the standard library's pure specification SpecFloat (VERIF_C13_FLOAT=spec; slower, closed terms)
FSUF = '_spec' if os.environ.get('VERIF_C13_FLOAT') == 'spec' else ''

KINDS = ['KMixed', 'KFloat', 'KInt']
OPS = ['Add', 'Sub', 'Mul', 'Truediv', 'Floordiv', 'Mod', 'Pow']
PYOP = {'Add': operator.add, 'Sub': operator.sub, 'Mul': operator.mul, 'Truediv': operator.truediv,
        'Floordiv': operator.floordiv, 'Mod': operator.mod, 'Pow': operator.pow}
SYM = {'Add': '+', 'Sub': '-', 'Mul': '*', 'Truediv': '/', 'Floordiv': '//', 'Mod': '%', 'Pow': '**'}
NAN = float('nan')


INF = float('inf')
# values on which binary64 rounding, overflow, subnormals and signed zeros are visible
RFLOATS = [0.1, 0.2, 0.3, 1 / 3, 0.7, 1.5, 2.5, -2.5, 10.4, 1e-5, 123456.789, -0.1, 1e16, 2.0 ** 53, 2.0 ** 53 - 1,
           2.0 ** 53 + 2, 5e-324, -5e-324, 1.5e-323, 2.2250738585072014e-308, 2.225073858507201e-308, 1e308, -1e308,
           1.7976931348623157e308, 1e300, 1e-300, INF, -INF, NAN, 0.0, -0.0, 1.0, -1.0, 3.0, 10.0, 1e22, 4.35]
RINTS = [1, -1, 2, 3, -3, 7, 10, 2 ** 53 - 1, 2 ** 53, 2 ** 53 + 1, -(2 ** 53 + 1), 10 ** 16 + 1, 0]
ROPS = ['Add', 'Sub', 'Mul', 'Truediv', 'Floordiv', 'Mod']
# Finding on the unchanged tree (reported, not decided): x / IntColumn with an int beyond 2**53 on either side.
# NumPy's true_divide converts both int64 operands to float64 first, so -(2**53 + 1) / IntColumn([3]) holds
# -3002399751580330 where Python's -(2**53 + 1) / 3 is -3002399751580331.0 (int: ...331).  The exact instance judges
# such rows (the quotient is a binary64 value) and reports them; they are kept out of the default stream.
INCLUDE_PENDING_FINDINGS = False


def coltype(kind):
    from datamatrix import MixedColumn, FloatColumn, IntColumn
    return {'KMixed': MixedColumn, 'KFloat': FloatColumn, 'KInt': IntColumn}[kind]


def kind_of(col):
    from datamatrix import MixedColumn, FloatColumn, IntColumn
    for k, t in (('KMixed', MixedColumn), ('KFloat', FloatColumn), ('KInt', IntColumn)):
        if type(col) is t:
            return k
    return None


def isnum(x):
    return isinstance(x, (int, float, np.integer, np.floating)) and not isinstance(x, (bool, np.bool_))


# functions mapped over a column (they must accept Python and NumPy scalars, text and None)
FUNCS = {
    'id': lambda x: x,
    'neg': lambda x: -x if isnum(x) else x,
    'double': lambda x: x * 2 if isnum(x) else x,
    'half': lambda x: x / 2 if isnum(x) else x,
    'plus_half': lambda x: x + 0.5 if isnum(x) else x,
    'square': lambda x: x * x if isnum(x) else x,
    'const7': lambda x: 7,
    'const2_5': lambda x: 2.5,
    'constNone': lambda x: None,
    'conststr': lambda x: 'q',
    'tag': lambda x: 'n' if isnum(x) else 't',
    'isnum': lambda x: 1 if isnum(x) else 0,
    # results of different types for different cells (an int for some, a float for others): the column must hold
    # f(cell) for every cell whichever cell comes first
    'int_or_float': lambda x: (0 if x < 0 else x * 0.5 + 0.25) if (isnum(x) and x == x) else x,
    'float_or_int': lambda x: (x + 0.5 if x < 1 else 3) if (isnum(x) and x == x) else x,
}


def same_lits(a, b):
    return [pyobs.val(x) for x in a] == [pyobs.val(x) for x in b]


def same_vals(a, b):
    """equal up to Python equality of the stored values (NaN ~ NaN, 0.0 ~ -0.0), same type"""
    if len(a) != len(b):
        return False
    for x, y in zip(a, b):
        if type(x) is not type(y):
            return False
        if not (x == y or (x != x and y != y)):
            return False
    return True


def floats_in(values, out):
    for v in values:
        if isinstance(v, (float, np.floating)):
            out.append(float(v))
        elif type(v) is str:
            try:
                out.append(float(v))
            except ValueError:
                pass


def fstr_table(values):
    fs, seen, items = [], set(), []
    floats_in(values, fs)
    for f in fs:
        lit = L.fl(f)
        if lit in seen:
            continue
        seen.add(lit)
        items.append('(%s, %s)' % (lit, L.string(str(f))))
    return L.lst(items)


def col_lit(kind, ids, cells):
    lits = [pyobs.val(c) for c in cells]
    if any(l is None for l in lits):
        return None
    return '(Col %s %s %s)' % (kind, L.lst(L.N(int(i)) for i in ids), L.lst(lits))


class C13:
    id = 'C13'
    props_file = 'theories/Props/C13.v'
    kernel_files = ['KArith.v', 'KCheck.v']
    oracle_vos = ['theories/Run/SC13.vo']
    model_vos = ['theories/Run/RC13.vo']
    oracle_imports = ['From DM Require Import Run.SC13.']
    model_imports = ['From DM Require Import Run.SC13 Run.RC13.']
    exhaustive = False
    rule = ('grid: 3 column types x 7 operators x both operand orders x operand forms (int, float, bool, numeric text, '
            'other text, None, NumPy scalar, list, tuple, column of each type) x 4 row orders (natural, reversed, '
            'random selection, sorted by a key column), cells drawn from small ints and dyadic fractions (so that '
            '+ - * // % are exact, / and ** often), NaN, text and None cells for Mixed/Float assignment; plus random '
            'cases (incl. list-indexed column slices and derived, unattached columns), wrong-length and ill-typed operands '
            '(model only), col @ f / map_(f, col) for 12 functions, and SeriesColumn o scalar / per-row / per-sample / '
            'full-matrix / Float-/IntColumn operands in both orders, on whole columns and on column-level slices / index '
            'lists of a longer table (mostly with as many rows as the depth, where per-row must win over per-sample). '
            'Observed: result type, row ids, cells; operands before/after; the cells read row-wise after dm.r = result. '
            'Every case is judged twice inside Coq: by the exact dyadic instance (rows whose exact result is a binary64 value; '
            'non-dyadic quotients, non-integer exponents, infinities are skipped by it) AND by the IEEE-754 binary64 instance '
            '(Spec/ArithIeee.v on Base/Float64Py.v, Coq primitive floats under vm_compute), which judges every row of + - * / // % '
            'with its rounding, overflow to inf, inf - inf, subnormals. A family of rounding-visible values (0.1, 0.2, 0.3, 1/3, 2**53 +- 1 '
            'as int and float, 10**16 + 1, 5e-324, the largest double, 1e308 * 10, +-inf, nan, +-0.0; scalar / NumPy scalar / numeric text / '
            'list / tuple / column operands, both orders, Mixed / Float / Int columns and SeriesColumns) exercises it. A row counts as '
            'having left the model only if neither instance judges it: ** outside the exact instance, zero divisors (outside the '
            'quantifier; a MixedColumn raising ZeroDivisionError is compared in the L1 correspondence), int64 overflow, '
            'x / IntColumn beyond 2**53. non-trivial = the result differs from the source cells; distinct by full input')
    trusted_base = [
        'Coq 8.16.1 kernel (coqc; vm_compute for evaluating cases; no native_compute)',
        'translator /verif/translate/gen_arith.py (operator table, per-cell code of BaseColumn/NumericColumn/IntColumn._operate, '
        '_map) -> Gen/KArith.v, and gen_checktype.py -> Gen/KCheck.v',
        'Spec/Arith.v exact_op: hand-written exact model of Python/NumPy scalar arithmetic on ints and dyadics (result type, '
        'int -> float promotion, floor semantics of // and %, IEEE pow units), exercised by the correspondence; str(float) supplied by '
        'CPython as a table',
        'Base/Float64Py.v + Spec/ArithIeee.v: hand-written model of Python float semantics (float(int), int / int as one rounding of the '
        'exact quotient, CPython float_divmod = NumPy npy_divmod transcribed, fmod / floor / rounding on Z) over the four basic '
        'operations. Coq primitive floats (PrimFloat.add/sub/mul/div, of_uint63, ldshiftexp, frshiftexp, normfr_mantissa, opp, abs, '
        'eqb, ltb, float; PrimInt63 int/lsl/lsr/lor/land/eqb -- the 19 names Print Assumptions lists for oracle_op_ieee, kernel primitives, no axiom) are TRUSTED to '
        'implement IEEE-754 binary64 round-to-nearest-even (they are the C double operations of the machine running coqc). Cross-checks: '
        'the standard library SpecFloat (pure Gallina) gives bit-identical results on a 51 x 51 x 6 grid (Example in Props/C13.v) and the '
        'whole correspondence can be re-run on it (VERIF_C13_FLOAT=spec, same verdicts)',
        'NumPy / CPython are trusted to use the platform IEEE-754 binary64 arithmetic (round to nearest even, no x87 double rounding, '
        'no flush-to-zero) and a correctly working fmod',
        'hand-written NumPy cast models (Model/Store.v, Model/Arith.v: array promotion int64->float64, astype(int), np.array(dtype=))',
        'harness/c13.py, harness/pyobs.py, harness/coqlit.py',
    ]
    assumptions = [
        'IEEE rounding of + - * / // % is modelled (binary64, round to nearest even); ** is judged only where its exact result is a '
        'binary64 value (libm pow is not correctly rounded)',
        'consistency of the two instances (where exact_op yields a binary64 value, ieee_op yields it too) is TESTED on the grid and on '
        'every generated case (both verdicts are required), not proved for all inputs',
        'zero divisors, int64 overflow, x / IntColumn with |int| > 2**53 (NumPy divides the rounded float64 views) are not judged',
        'signed zeros are identified (comparison up to Python ==, NaN ~ NaN); everything else bit for bit',
        'fastnumbers is not installed',
        'NumPy scalars / arrays as LEFT operand are outside the claim (NumPy, not the column, handles them)',
        'operands-unchanged and "result is a new object" are observed on the Python side (pyfail), by-value model in Coq',
        'SeriesColumn: scalar / per-row / per-sample / full-matrix operands of numbers; NumPy broadcasting is hand-modelled',
    ]

    # ---- building the table ---------------------------------------------
    def _build(self, inp):
        from datamatrix import DataMatrix, operations as ops
        n = len(inp['cells'])
        dm = DataMatrix(length=n)
        dm.c = coltype(inp['kind'])
        dm.c = [pyobs.dec(v) for v in inp['cells']]
        opd = inp.get('operand')
        if opd and opd['t'] == 'col':
            dm.o = coltype(opd['kind'])
            dm.o = [pyobs.dec(v) for v in opd['cells']]
        order = inp.get('order', ['natural'])
        if order[0] == 'reversed':
            dm = dm[list(range(n - 1, -1, -1))]
        elif order[0] == 'perm':
            dm = dm[list(order[1])]
        elif order[0] == 'sorted':
            dm.key = list(order[1])
            dm = ops.sort(dm, by=dm.key)
        return dm

    def _cols(self, inp, dm):
        """the column operand (and the operand column): whole columns of dm, or slices of them (order 'colslice'),
        optionally turned into a derived, unattached column first (pre: col * 1.0, Mixed cells 3 -> 3.0)"""
        order = inp.get('order', ['natural'])
        col = dm.c
        ocol = dm.o if (inp.get('operand') or {}).get('t') == 'col' else None
        if order[0] == 'colslice':
            col = col[list(order[1])]
            if ocol is not None:
                ocol = ocol[list(order[1])]
        if inp.get('pre'):
            col = col * 1.0
        return col, ocol

    def _operand(self, inp, ocol):
        opd = inp['operand']
        if opd['t'] == 'scalar':
            v = pyobs.dec(opd['v'])
            return v, [v], '(OScalar %s)' % pyobs.pyv(v)
        if opd['t'] == 'seq':
            vs = [pyobs.dec(v) for v in opd['vs']]
            obj = tuple(vs) if opd.get('as') == 'tuple' else list(vs)
            return obj, vs, '(OSeq %s)' % L.lst(pyobs.pyv(v) for v in vs)
        cells = list(ocol)
        lits = [pyobs.val(c) for c in cells]
        return ocol, cells, '(OCol %s %s)' % (opd['kind'], L.lst(lits))

    def rerun(self, inp):
        with warnings.catch_warnings():
            warnings.simplefilter('ignore')
            old = np.seterr(all='ignore')
            try:
                if inp.get('mode') == 'map':
                    c = self._rerun_map(inp)
                elif inp.get('mode') == 'series':
                    c = self._rerun_series(inp)
                else:
                    c = self._rerun_op(inp)
            finally:
                np.seterr(**old)
            if c is not None and not c.get('oracle_vec'):
                # [oracle; every row of the case is judged]
                c['oracle_vec'] = '[%s; %s]' % (c['oracle'], c.get('aux') or 'true')
            return c

    def _rerun_op(self, inp):
        from datamatrix._datamatrix._basecolumn import BaseColumn
        kind, op, refl = inp['kind'], inp['op'], bool(inp['refl'])
        try:
            dm = self._build(inp)
        except Exception:
            return None                     # the column itself cannot hold these cells
        try:
            col, ocol = self._cols(inp, dm)
        except Exception:
            return None
        if kind_of(col) != kind:
            return None
        cells0 = list(col)
        ids0 = [int(i) for i in col._rowid]
        x, xvals, o_lit = self._operand(inp, ocol)
        xsnap = list(xvals)
        c_lit = col_lit(kind, ids0, cells0)
        if c_lit is None:
            return None
        pyfail = None
        assigned_lit = None
        try:
            r = PYOP[op](x, col) if refl else PYOP[op](col, x)
            out = ('ok', r)
        except Exception as e:      # noqa: BLE001
            out = ('exn', pyobs.exn_name(e))
        observed = {}
        nontrivial = True
        if out[0] == 'exn':
            obs_lit = '(Raise %s)' % out[1]
            observed = {'raises': out[1]}
        else:
            r = out[1]
            if not isinstance(r, BaseColumn):
                pyfail = 'the result of %s is not a column but %s' % (self.key({'input': inp}), type(r).__name__)
                obs_lit = '(Raise OtherError)'
                observed = {'not_a_column': type(r).__name__}
            else:
                rk = kind_of(r)
                rcells = list(r)
                if any(isinstance(v, complex) for v in rcells):
                    return None             # negative base, fractional exponent: outside the quantifier
                rids = [int(i) for i in r._rowid]
                observed = {'type': type(r).__name__, 'rowid': rids, 'cells': [pyobs.jsonable(v) for v in rcells]}
                r_lit = col_lit(rk, rids, rcells) if rk else None
                if r_lit is None:
                    pyfail = 'result is not a Mixed/Float/IntColumn of plain int/float/str/None cells: %s %r' % (
                        type(r).__name__, [type(v).__name__ for v in rcells])
                    obs_lit = '(Raise OtherError)'
                else:
                    obs_lit = '(Ok %s)' % r_lit
                    nontrivial = not same_lits(rcells, cells0)
                if r is col or r._seq is col._seq:
                    pyfail = pyfail or 'the result shares its cells with the source column'
                # assigning the result back: row i of the table reads result i
                # (only for whole columns of dm: a permuted column slice assigned to dm is copied by position by
                #  DataMatrix._set_col, which is not this property's subject -- reported separately)
                if pyfail is None and inp.get('order', ['natural'])[0] != 'colslice':
                    try:
                        dm.r = r
                        assigned = [dm[i].r for i in range(len(dm))]
                        a_lits = [pyobs.val(v) for v in assigned]
                        if any(l is None for l in a_lits):
                            pyfail = 'cells read after assigning the result back are not plain values'
                        else:
                            observed['assigned_rowwise'] = [pyobs.jsonable(v) for v in assigned]
                            # A column assigned to the table is copied and type-checked like any assigned value (C05):
                            # row i must read what assigning the plain list of the result's cells, in order, gives.
                            from datamatrix import DataMatrix as _DM
                            refdm = _DM(length=len(rcells))
                            refdm.r = type(r)
                            refdm.r = list(rcells)
                            if not same_vals(assigned, list(refdm.r)):
                                pyfail = ('assigning the result back puts %r into the rows, assigning its cells as a list '
                                          'gives %r' % (assigned, list(refdm.r)))
                            elif same_lits(assigned, rcells):
                                # no cell was re-typed by the assignment: judged in Coq against the specified cells too
                                assigned_lit = (L.lst(L.N(int(i)) for i in dm._rowid), L.lst(a_lits))
                        src_rowwise = [dm[i].c for i in range(len(dm))]
                        if col is dm.c and not same_lits(src_rowwise, cells0):
                            pyfail = pyfail or 'the source column changed when the result was assigned back'
                    except Exception as e:      # noqa: BLE001
                        pyfail = 'assigning the result back failed: %r' % (e,)
        # operands unchanged
        if not same_lits(list(col), cells0) or [int(i) for i in col._rowid] != ids0:
            pyfail = pyfail or 'the column operand was changed by the operation'
        if inp['operand']['t'] == 'col':
            now = list(ocol)
        elif inp['operand']['t'] == 'seq':
            now = list(x)
        else:
            now = [x]
        if not same_lits(now, xsnap):
            pyfail = pyfail or 'the other operand was changed by the operation'
        tab = fstr_table(list(cells0) + list(xsnap))
        args = '%s O%s %s %s %s' % (tab, op, L.boolean(refl), c_lit, o_lit)
        judge = inp.get('judge', True)
        if judge:
            # both instances of the scalar arithmetic on the same literals: exact (rows it computes), IEEE binary64 (every row)
            asg = 'None' if assigned_lit is None else '(Some (%s, %s))' % assigned_lit
            oracle = '(oracle_c13%s %s %s %s)' % (FSUF, args, obs_lit, asg)
            vec = '(vec_c13%s %s %s %s)' % (FSUF, args, obs_lit, asg)
            model = '(model_c13%s %s %s)' % (FSUF, args, obs_lit)
            aux = '(judged_ieee %s)' % args
        else:
            oracle = 'true'
            vec = None
            model = '(model_outcome %s %s)' % (args, obs_lit)
            aux = 'false'
        cls = set()
        for v in cells0:
            cls.add('cell:' + ('nan' if isinstance(v, float) and math.isnan(v) else type(v).__name__))
        return {
            'input': inp, 'observed': observed, 'pyfail': pyfail, 'oracle': oracle, 'model': model, 'aux': aux,
            'oracle_vec': vec, 'nontrivial': nontrivial, 'sig': json.dumps(inp, sort_keys=True),
            'tags': [kind, op, 'x_o_col' if refl else 'col_o_x', 'operand:' + self._opclass(inp['operand']),
                     'order:' + inp.get('order', ['natural'])[0], 'rows:%d' % len(cells0)] + (['derived_column'] if inp.get('pre') else []) + (
                     ['family:' + inp['family']] if inp.get('family') else []) + [
                     'outcome:' + ('raise' if out[0] == 'exn' else 'ok')] + sorted(cls) + ([] if judge else ['malformed']),
        }

    def _opclass(self, opd):
        if opd['t'] == 'scalar':
            t = opd['v']['t']
            if t == 'str':
                try:
                    float(opd['v']['v'])
                    return 'numeric_text'
                except ValueError:
                    return 'text'
            return t if t != 'np' else 'np_' + opd['v']['dtype']
        if opd['t'] == 'seq':
            return opd.get('as', 'list')
        return 'col_' + opd['kind']

    def _rerun_map(self, inp):
        from datamatrix import functional as fnc
        from datamatrix._datamatrix._basecolumn import BaseColumn
        kind = inp['kind']
        f = FUNCS[inp['f']]
        try:
            dm = self._build(inp)
        except Exception:
            return None
        try:
            col, _o = self._cols(inp, dm)
        except Exception:
            return None
        if kind_of(col) != kind:
            return None
        cells0 = list(col)
        ids0 = [int(i) for i in col._rowid]
        c_lit = col_lit(kind, ids0, cells0)
        if c_lit is None:
            return None
        calls = []

        def g(x):
            calls.append(x)
            return f(x)
        pyfail = None
        try:
            r = (col @ g) if inp.get('via') == 'matmul' else fnc.map_(g, col)
            out = ('ok', r)
        except Exception as e:      # noqa: BLE001
            out = ('exn', pyobs.exn_name(e))
        if out[0] == 'exn':
            obs_lit = '(Raise %s)' % out[1]
            observed = {'raises': out[1]}
        else:
            r = out[1]
            rk = kind_of(r) if isinstance(r, BaseColumn) else None
            rcells = list(r) if rk else []
            r_lit = col_lit(rk, [int(i) for i in r._rowid], rcells) if rk else None
            observed = {'type': type(r).__name__, 'cells': [pyobs.jsonable(v) for v in rcells]}
            if r_lit is None:
                pyfail = 'map result is not a column of plain cells: %s' % type(r).__name__
                obs_lit = '(Raise OtherError)'
            else:
                obs_lit = '(Ok %s)' % r_lit
            if r is col:
                pyfail = pyfail or 'map returned the source column itself'
        if not same_lits(list(col), cells0) or [int(i) for i in col._rowid] != ids0:
            pyfail = pyfail or 'the column was changed by map'
        # f on the cells, evaluated independently of the library
        items, seen = [], set()
        for v in cells0:
            lit = pyobs.val(v)
            if lit in seen:
                continue
            seen.add(lit)
            items.append('(%s, %s)' % (lit, pyobs.pyv(f(v))))
        tab = L.lst(items)
        return {
            'input': inp, 'observed': observed, 'pyfail': pyfail,
            'oracle': '(oracle_map %s %s %s)' % (tab, c_lit, obs_lit),
            'model': '(model_map %s %s %s)' % (tab, c_lit, obs_lit),
            'nontrivial': inp['f'] != 'id', 'sig': json.dumps(inp, sort_keys=True),
            'tags': [kind, 'map', 'f:' + inp['f'], 'via:' + inp.get('via', 'map_'),
                     'order:' + inp.get('order', ['natural'])[0], 'outcome:' + ('raise' if out[0] == 'exn' else 'ok')],
        }

    # ---- SeriesColumn -----------------------------------------------------
    def _rerun_series(self, inp):
        from datamatrix import DataMatrix, SeriesColumn, FloatColumn, IntColumn, operations as ops
        from datamatrix._datamatrix._seriescolumn import _SeriesColumn
        rows = [[pyobs.dec(v) for v in row] for row in inp['rows']]
        n, depth, op, refl = len(rows), inp['depth'], inp['op'], bool(inp['refl'])
        dm = DataMatrix(length=n)
        dm.s = SeriesColumn(depth=depth)
        for i, row in enumerate(rows):
            dm.s[i] = row
        opd = inp['operand']
        if opd['t'] == 'col':
            dm.o = FloatColumn if opd['kind'] == 'KFloat' else IntColumn
            dm.o = [pyobs.dec(v) for v in opd['vs']]
        order = inp.get('order', ['natural'])
        if order[0] == 'reversed':
            dm = dm[list(range(n - 1, -1, -1))]
        elif order[0] == 'perm':
            dm = dm[list(order[1])]
        elif order[0] == 'sorted':
            dm.key = list(order[1])
            dm = ops.sort(dm, by=dm.key)
        col = dm.s
        ocol = dm.o if opd['t'] == 'col' else None
        # column-level slices / index lists: the series column stays attached to the (longer) table
        if order[0] == 'colslice':
            col = col[list(order[1])]
            ocol = ocol[list(order[1])] if ocol is not None else None
        elif order[0] == 'colrange':
            col = col[order[1]:order[2]]
            ocol = ocol[order[1]:order[2]] if ocol is not None else None
        if not isinstance(col, _SeriesColumn):
            return None
        n = len(col)
        rows0 = [[float(v) for v in col._seq[i]] for i in range(n)]
        ids0 = [int(i) for i in col._rowid]

        def numlit(v):
            if isinstance(v, (int, np.integer)) and not isinstance(v, bool):
                return '(NInt %s)' % L.z(int(v))
            return '(NFlt %s)' % L.fl(float(v))
        if opd['t'] == 'scalar':
            x = pyobs.dec(opd['v'])
            o_lit = '(SScalar %s)' % numlit(x)
            snap = [x]
        elif opd['t'] == 'vec':
            vs = [pyobs.dec(v) for v in opd['vs']]
            x = {'list': list, 'tuple': tuple, 'array': lambda l: np.array(l, dtype=float)}[opd.get('as', 'list')](vs)
            o_lit = '(SVec %s)' % L.lst(numlit(v) for v in vs)
            snap = list(vs)
        elif opd['t'] == 'col':
            x = ocol
            vs = list(ocol)
            o_lit = '(SVec %s)' % L.lst(numlit(v) for v in vs)
            snap = list(vs)
        else:
            vss = [[pyobs.dec(v) for v in row] for row in opd['vss']]
            x = np.array(vss, dtype=float) if opd.get('as') == 'array' else [list(r) for r in vss]
            o_lit = '(SMat %s)' % L.lst(L.lst(numlit(v) for v in row) for row in vss)
            snap = [v for row in vss for v in row]
        c_lit = '(SCol %s %s %s)' % (L.nat(depth), L.lst(L.N(i) for i in ids0), L.lst(L.lst(L.fl(v) for v in row) for row in rows0))
        pyfail = None
        try:
            r = PYOP[op](x, col) if refl else PYOP[op](col, x)
            out = ('ok', r)
        except Exception as e:      # noqa: BLE001
            out = ('exn', pyobs.exn_name(e))
        if out[0] == 'exn':
            obs_lit = '(Raise %s)' % out[1]
            observed = {'raises': out[1]}
        else:
            r = out[1]
            if not isinstance(r, _SeriesColumn) or r._seq.ndim != 2:
                pyfail = 'the result is not a SeriesColumn but %s' % type(r).__name__
                obs_lit = '(Raise OtherError)'
                observed = {'not_a_series': type(r).__name__}
            else:
                rrows = [[float(v) for v in r._seq[i]] for i in range(len(r))]
                rids = [int(i) for i in r._rowid]
                observed = {'depth': int(r.depth), 'rowid': rids, 'rows': [[v.hex() for v in row] for row in rrows]}
                obs_lit = '(Ok (SCol %s %s %s))' % (L.nat(int(r.depth)), L.lst(L.N(i) for i in rids),
                                                   L.lst(L.lst(L.fl(v) for v in row) for row in rrows))
                if r is col or r._seq is col._seq or np.shares_memory(r._seq, col._seq):
                    pyfail = 'the result shares its samples with the source column'
                if pyfail is None and len(r) == len(dm) and order[0] not in ('colslice', 'colrange'):
                    try:
                        dm.r = r
                        for i in range(len(dm)):
                            if not np.array_equal(np.asarray(dm[i].r, dtype=float), np.array(rrows[i]), equal_nan=True):
                                pyfail = 'after dm.r = result, row %d does not hold result %d' % (i, i)
                        if [int(i) for i in dm._rowid] != rids:
                            pyfail = pyfail or 'the result rows are not the rows of the table'
                    except Exception as e:      # noqa: BLE001
                        pyfail = 'assigning the result back failed: %r' % (e,)
        now = [[float(v) for v in col._seq[i]] for i in range(n)]
        if [[L.fl(v) for v in row] for row in now] != [[L.fl(v) for v in row] for row in rows0] or [int(i) for i in col._rowid] != ids0:
            pyfail = pyfail or 'the series column was changed by the operation'
        if opd['t'] == 'col':
            after = list(ocol)
        elif opd['t'] == 'scalar':
            after = [x]
        elif opd['t'] == 'vec':
            after = list(x)
        else:
            after = [v for row in x for v in row]
        if [L.fl(float(v)) for v in after] != [L.fl(float(v)) for v in snap]:
            pyfail = pyfail or 'the other operand was changed by the operation'
        args = 'O%s %s %s %s' % (op, L.boolean(refl), c_lit, o_lit)
        return {
            'input': inp, 'observed': observed, 'pyfail': pyfail,
            'oracle': '(oracle_series_c13%s %s %s)' % (FSUF, args, obs_lit),
            'oracle_vec': '(vec_series_c13%s %s %s)' % (FSUF, args, obs_lit),
            'model': '(model_series_c13%s %s %s)' % (FSUF, args, obs_lit),
            'aux': '(judged_series_ieee %s)' % args, 'nontrivial': True, 'sig': json.dumps(inp, sort_keys=True),
            'tags': ['Series', op, 'x_o_col' if refl else 'col_o_x',
                     'operand:series_' + opd['t'] + ('_' + opd.get('as', '') if opd.get('as') else '') +
                     ('_per_row' if opd['t'] == 'vec' and len(opd['vs']) == n else '_per_sample' if opd['t'] == 'vec' else ''),
                     'series_rows_eq_depth' if n == depth else 'series_rows_ne_depth',
                     'order:' + order[0], 'outcome:' + ('raise' if out[0] == 'exn' else 'ok')] + (
                     ['family:' + inp['family']] if inp.get('family') else []),
        }

    def _series_case(self, rng, op, refl, form, order):
        n = rng.choice([2, 3, 4])
        depth = rng.choice([2, 3, 4, 5])
        ordv = None
        m = n
        if order in ('colslice', 'colrange'):
            # a column-level slice of a longer table; often exactly `depth` rows long (a per-row operand then has the
            # length of a per-sample operand: per row must win)
            n = rng.choice([3, 4, 5, 6])
            m = rng.choice([2, 3, min(n - 1, 4)])
            depth = m if rng.random() < 0.7 else rng.choice([2, 3, 4, 5])
            if order == 'colslice':
                idx = list(range(n))
                rng.shuffle(idx)
                ordv = ['colslice', idx[:m]]
            else:
                a = rng.randint(0, n - m)
                ordv = ['colrange', a, a + m]
        if form == 'vec_sample':
            while depth == m:
                depth = rng.choice([2, 3, 4, 5])

        def val(pos):
            # pos: 'cell' or 'x'; divisors non-zero (mostly powers of two for /), small integer exponents
            second = (pos == 'x') != refl
            if op == 'Pow':
                return rng.choice([0, 1, 2, 3, -1, 2.0]) if second else rng.choice([2, -2, 4, 0.5, 1, 3, -1.5, 8])
            if second and op == 'Truediv':
                return rng.choice([1, 2, -2, 4, 0.5, -0.25, 8, 3])
            v = self._num(rng, 'KFloat', nonzero=second and op in ('Floordiv', 'Mod'))
            return v
        rows = [[float(val('cell')) if rng.random() > 0.08 else NAN for _ in range(depth)] for _ in range(n)]
        if form == 'scalar':
            opd = {'t': 'scalar', 'v': pyobs.enc(val('x'))}
        elif form in ('vec_row', 'vec_sample'):
            k = m if form == 'vec_row' else depth
            opd = {'t': 'vec', 'as': rng.choice(['list', 'tuple'] + ([] if refl else ['array'])),
                   'vs': [pyobs.enc(val('x')) for _ in range(k)]}
        elif form in ('col_KFloat', 'col_KInt'):
            vs = [val('x') for _ in range(n)]
            if form == 'col_KInt':
                vs = [int(v) or 1 for v in vs]
            opd = {'t': 'col', 'kind': form[4:], 'vs': [pyobs.enc(v) for v in vs]}
        else:
            opd = {'t': 'mat', 'as': 'list' if refl else rng.choice(['list', 'array']),
                   'vss': [[pyobs.enc(val('x')) for _ in range(depth)] for _ in range(m)]}
        return {'mode': 'series', 'depth': depth, 'rows': [[pyobs.enc(v) for v in row] for row in rows], 'op': op,
                'refl': refl, 'operand': opd, 'order': ordv or self._order(rng, n, order)}

    # ---- generator ------------------------------------------------------
    def _num(self, rng, kind, nonzero=False, small=False):
        while True:
            c = rng.random()
            if kind == 'KInt' or c < 0.45:
                v = rng.choice([rng.randint(-6, 6), rng.randint(-12, 12), rng.choice([1, 2, -2, 4, 8, -1, 3])])
            elif c < 0.9:
                v = rng.randint(-40, 40) / float(rng.choice([2, 4, 8]))
            else:
                v = float(rng.choice([2, 4, -2, 0.5, 0.25, 1, -1, 3, -8]))
            if small and abs(v) > 4:
                continue
            if nonzero and v == 0:
                continue
            return v

    def _cells(self, rng, kind, n, op, refl):
        """cells of the column: for / // % as divisor (refl) they are non-zero; for ** exponents are small ints"""
        out = []
        for _ in range(n):
            c = rng.random()
            if kind == 'KMixed' and c < 0.3:
                out.append(rng.choice(['a', 'b c', '', 'é', None, None, NAN, 'x']))
                continue
            if kind == 'KFloat' and c < 0.2:
                out.append(rng.choice([NAN, None, 'a']))          # all stored as NaN
                continue
            divisor = refl and op in ('Truediv', 'Floordiv', 'Mod')
            if op == 'Pow':
                if refl:      # cells are exponents
                    v = rng.choice([0, 1, 2, 3, 2, 1]) if kind == 'KInt' else rng.choice([0, 1, 2, 3, -1, -2, 2.0, 0.5])
                else:
                    v = self._num(rng, kind, small=True)
                    if rng.random() < 0.3:
                        v = rng.choice([2, -2, 4, 1, -1, 0.5, 8] if kind != 'KInt' else [2, -2, 4, 1, -1, 3])
            elif divisor and op == 'Truediv' and rng.random() < 0.75:
                v = rng.choice([1, 2, -2, 4, 8, -1, -4] if kind == 'KInt' else [1, 2, -2, 4, 0.5, -0.25, 8, -1, 1.0, -4.0])
            else:
                v = self._num(rng, kind, nonzero=divisor)
            out.append(v)
        return out

    def _scalar(self, rng, kind, op, refl, cls):
        divisor = (not refl) and op in ('Truediv', 'Floordiv', 'Mod')
        if op == 'Pow' and not refl:
            n = rng.choice([0, 1, 2, 3, 2]) if kind == 'KInt' else rng.choice([0, 1, 2, 3, -1, -2])
        elif op == 'Pow':
            n = rng.choice([2, -2, 4, 1, 3, 0.5, -1]) if kind != 'KInt' else rng.choice([2, -2, 1, 3, -1])
        elif divisor and op == 'Truediv' and rng.random() < 0.75:
            n = rng.choice([1, 2, -2, 4, 8, -1, -4] if (kind == 'KInt' or cls in ('int', 'np_int64', 'bool'))
                           else [1, 2, -2, 4, 0.5, -0.25, 8, -1, 1.0, -4.0])
        else:
            n = self._num(rng, 'KInt' if cls in ('int', 'np_int64', 'bool') else kind, nonzero=divisor)
        if cls == 'int':
            return int(n) if float(n) == int(n) else (int(n) or 1)
        if cls == 'float':
            return float(n) if op == 'Pow' else (float(n) if rng.random() < 0.5 else self._num(rng, 'KFloat', nonzero=divisor) * 1.0)
        if cls == 'bool':
            return True
        if cls == 'numeric_text':
            return rng.choice(['%s', ' %s', '%s ']) % (repr(n) if rng.random() < 0.7 else repr(float(n)))
        if cls == 'text':
            return rng.choice(['x', 'é', '', 'p q'])
        if cls == 'none':
            return None
        if cls == 'np_int64':
            return np.int64(int(n) or 1)
        if cls == 'np_float64':
            return np.float64(n)
        if cls == 'np_float32':
            return np.float32(n)
        raise AssertionError(cls)

    def _order(self, rng, n, which):
        if which == 'natural' or n == 0:
            return ['natural']
        if which == 'reversed':
            return ['reversed']
        if which == 'perm':
            p = list(range(n))
            rng.shuffle(p)
            return ['perm', p]
        if which == 'colslice':
            idx = [i for i in range(n) if rng.random() < 0.7]
            rng.shuffle(idx)
            return ['colslice', idx]
        keys = list(range(n))
        rng.shuffle(keys)
        return ['sorted', keys]

    def _case(self, rng, kind, op, refl, form, order, n, judge=True):
        cells = self._cells(rng, kind, n, op, refl)
        ordv = self._order(rng, n, order)
        m = len(ordv[1]) if ordv[0] == 'colslice' else n
        if form in ('list', 'tuple'):
            vs = [self._scalar(rng, kind, op, refl, rng.choice(
                ['int', 'float', 'int', 'float', 'numeric_text'] + (['text', 'none'] if kind != 'KInt' else [])))
                for _ in range(m)]
            opd = {'t': 'seq', 'as': form, 'vs': [pyobs.enc(v) for v in vs]}
        elif form.startswith('col_'):
            k2 = form[4:]
            # the operand column's cells: divisors / exponents like a scalar operand
            vs = []
            for _ in range(n):
                v = self._scalar(rng, k2 if k2 != 'KMixed' else kind, op, refl, 'int' if k2 == 'KInt' else rng.choice(['int', 'float']))
                if k2 == 'KMixed' and kind != 'KInt' and rng.random() < 0.2:
                    v = rng.choice(['t', None, 'u v'])
                if k2 == 'KFloat' and kind != 'KInt' and rng.random() < 0.1:
                    v = NAN
                vs.append(v)
            opd = {'t': 'col', 'kind': k2, 'cells': [pyobs.enc(v) for v in vs]}
        else:
            opd = {'t': 'scalar', 'v': pyobs.enc(self._scalar(rng, kind, op, refl, form))}
        inp = {'kind': kind, 'cells': [pyobs.enc(v) for v in cells], 'op': op, 'refl': refl, 'operand': opd,
               'order': ordv}
        if kind == 'KMixed' and order == 'colslice' and rng.random() < 0.5 or kind == 'KMixed' and rng.random() < 0.08:
            inp['pre'] = True
        if not judge:
            inp['judge'] = False
        return inp

    # ---- values on which IEEE rounding is visible (judged by the IEEE instance; the exact one skips most) ----
    def _rnum(self, rng, cls, divisor=False, nobig=False):
        """cls: 'int' | 'float' | 'any'; a zero divisor is kept in ~6 % of the draws (judged by the L1 model only);
        nobig: no finite float beyond 2^63 (a MixedColumn stores an integral float as an int: 1e308 would be a
        309-digit int literal, which costs Coq's number parser ~0.1 s each)"""
        while True:
            if cls == 'int' or (cls == 'any' and rng.random() < 0.3):
                v = rng.choice(RINTS) if rng.random() < 0.8 else rng.randint(-9, 9)
            else:
                v = rng.choice(RFLOATS)
                if rng.random() < 0.15:
                    v = v * rng.choice([3.0, 0.1, -7.0, 1e-3])
            if divisor and v == 0 and rng.random() > 0.06:
                continue
            if nobig and isinstance(v, float) and 2.0 ** 63 <= abs(v) < INF:
                continue
            return v

    def _rcells(self, rng, kind, n, divisor):
        out = []
        for _ in range(n):
            c = rng.random()
            if kind == 'KMixed' and c < 0.12:
                out.append(rng.choice(['a', '', None, 'x y']))
            elif kind == 'KInt':
                out.append(self._rnum(rng, 'int', divisor))
            else:
                out.append(self._rnum(rng, 'any', divisor, nobig=(kind == 'KMixed')))
        return out

    def _round_case(self, rng, kind, op, refl, form, order, n):
        cell_div = refl and op in ('Truediv', 'Floordiv', 'Mod')
        x_div = (not refl) and op in ('Truediv', 'Floordiv', 'Mod')
        cells = self._rcells(rng, kind, n, cell_div)
        ordv = self._order(rng, n, order)
        m = len(ordv[1]) if ordv[0] == 'colslice' else n

        nobig = kind == 'KMixed' or form == 'col_KMixed'
        # x / IntColumn: ints within 2**53 unless the pending finding is switched on
        small_ints = kind == 'KInt' and op == 'Truediv' and refl and not INCLUDE_PENDING_FINDINGS
        if small_ints:
            cells = [c if abs(c) <= 2 ** 53 else rng.choice([3, -7, 10]) for c in cells]

        def xval(cls):
            v = self._rnum(rng, cls, x_div, nobig=nobig)
            while small_ints and abs(v) > 2 ** 53:
                v = self._rnum(rng, cls, x_div, nobig=nobig)
            if kind == 'KInt' and isinstance(v, float) and (v != v or abs(v) == INF or abs(v) >= 2.0 ** 62):
                v = 0.7                     # IntColumn refuses nan / inf operands (C05's business)
            return v
        if form in ('list', 'tuple'):
            opd = {'t': 'seq', 'as': form, 'vs': [pyobs.enc(xval('any')) for _ in range(m)]}
        elif form.startswith('col_'):
            k2 = form[4:]
            vs = [xval('int' if k2 == 'KInt' else 'any') for _ in range(n)]
            if k2 == 'KInt':
                vs = [int(v) for v in vs]
            opd = {'t': 'col', 'kind': k2, 'cells': [pyobs.enc(v) for v in vs]}
        else:
            v = xval('int' if form in ('int', 'np_int64') else 'float')
            if form == 'np_int64':
                v = np.int64(v)
            elif form == 'np_float64':
                v = np.float64(v)
            elif form == 'np_float32':
                v = np.float32(v if abs(v) < 1e38 or v != v or abs(v) == INF else 0.1)
            elif form == 'numeric_text':
                v = repr(v) if (v == v and abs(v) != INF) else '0.1'
            opd = {'t': 'scalar', 'v': pyobs.enc(v)}
        return {'kind': kind, 'cells': [pyobs.enc(v) for v in cells], 'op': op, 'refl': refl, 'operand': opd,
                'order': ordv, 'family': 'rounding'}

    def _round_series_case(self, rng, op, refl, form, order):
        n, depth = rng.choice([2, 3]), rng.choice([2, 4])
        x_div = (not refl) and op in ('Truediv', 'Floordiv', 'Mod')
        cell_div = refl and op in ('Truediv', 'Floordiv', 'Mod')
        rows = [[float(self._rnum(rng, 'float', cell_div)) for _ in range(depth)] for _ in range(n)]
        if form == 'scalar':
            opd = {'t': 'scalar', 'v': pyobs.enc(self._rnum(rng, 'any', x_div))}
        elif form in ('vec_row', 'vec_sample'):
            if form == 'vec_sample':
                depth = 4 if n != 4 else 5
                rows = [[float(self._rnum(rng, 'float', cell_div)) for _ in range(depth)] for _ in range(n)]
            k = n if form == 'vec_row' else depth
            opd = {'t': 'vec', 'as': rng.choice(['list', 'tuple'] + ([] if refl else ['array'])),
                   'vs': [pyobs.enc(self._rnum(rng, 'any', x_div)) for _ in range(k)]}
        elif form in ('col_KFloat', 'col_KInt'):
            vs = [self._rnum(rng, 'int' if form == 'col_KInt' else 'any', x_div) for _ in range(n)]
            opd = {'t': 'col', 'kind': form[4:], 'vs': [pyobs.enc(v) for v in vs]}
        else:
            opd = {'t': 'mat', 'as': 'list' if refl else rng.choice(['list', 'array']),
                   'vss': [[pyobs.enc(float(self._rnum(rng, 'float', x_div))) for _ in range(depth)] for _ in range(n)]}
        return {'mode': 'series', 'depth': depth, 'rows': [[pyobs.enc(v) for v in row] for row in rows], 'op': op,
                'refl': refl, 'operand': opd, 'order': self._order(rng, n, order), 'family': 'rounding'}

    def round_forms(self, refl):
        fs = ['int', 'float', 'float', 'numeric_text', 'list', 'tuple']
        if not refl:
            fs += ['np_int64', 'np_float64', 'np_float32', 'col_KMixed', 'col_KFloat', 'col_KInt']
        return fs

    def forms(self, kind, op, refl):
        fs = ['int', 'float', 'bool', 'numeric_text', 'list', 'tuple']
        if refl and op == 'Mod':
            fs.remove('numeric_text')   # 'x' % col is string formatting, not the column's method
        else:
            fs.append('text')
        if kind != 'KInt' or True:
            fs.append('none')
        if not refl:
            fs += ['np_int64', 'np_float64', 'np_float32', 'col_KMixed', 'col_KFloat', 'col_KInt']
        return fs

    def generate(self, rng, tier):
        import datamatrix._datamatrix._basecolumn as bc
        import datamatrix._datamatrix._numericcolumn as nc
        assert not bc.fastnumbers and nc.fastnumbers is None, 'fastnumbers present: kernels assume it is not'
        cases = []

        def add(inp):
            c = self.rerun(inp)
            if c is not None:
                cases.append(c)
        orders = ['natural', 'reversed', 'perm', 'sorted']
        reps = 1 if tier == 'quick' else 4
        for kind in KINDS:
            for op in OPS:
                for refl in (False, True):
                    for form in self.forms(kind, op, refl):
                        for order in orders:
                            for _ in range(reps):
                                n = rng.choice([3, 4, 5]) if tier == 'quick' else rng.choice([1, 2, 4, 6, 9, 14])
                                if refl and form == 'text' and op == 'Mod':
                                    continue
                                add(self._case(rng, kind, op, refl, form, order, n))
        # free random cases (more rows, any combination)
        for _ in range(600 if tier == 'quick' else 6000):
            kind = rng.choice(KINDS)
            op = rng.choice(OPS)
            refl = rng.random() < 0.5
            form = rng.choice(self.forms(kind, op, refl))
            n = rng.choice([0, 1, 2, 3, 5, 8]) if tier == 'quick' else rng.choice([0, 1, 3, 7, 12, 20, 33])
            add(self._case(rng, kind, op, refl, form, rng.choice(orders + ['colslice']), n))
        # outside the quantifier (only the model is compared): wrong lengths
        for _ in range(120 if tier == 'quick' else 1200):
            kind = rng.choice(KINDS)
            op = rng.choice(OPS)
            refl = rng.random() < 0.5
            n = rng.choice([1, 2, 3, 4])
            inp = self._case(rng, kind, op, refl, rng.choice(['list', 'tuple']), 'natural', n, judge=False)
            vs = inp['operand']['vs']
            if rng.random() < 0.5 or not vs:
                vs.append(pyobs.enc(rng.choice([1, 2.5, 'zz', None])))
                if rng.random() < 0.3:
                    vs.append(pyobs.enc('zz'))
            else:
                vs.pop()
            add(inp)
        # IntColumn ** with negative exponents (NumPy refuses): model only
        for _ in range(30 if tier == 'quick' else 200):
            refl = rng.random() < 0.5
            inp = self._case(rng, 'KInt', 'Pow', refl, 'int', 'natural', 3, judge=False)
            if refl:
                inp['cells'][rng.randrange(3)] = pyobs.enc(-rng.randint(1, 3))
            else:
                inp['operand'] = {'t': 'scalar', 'v': pyobs.enc(-rng.randint(1, 3))}
            add(inp)
        # values on which IEEE rounding / overflow / subnormals / signed zeros are visible: every row is judged by the
        # IEEE-754 instance (0.1 + 0.2, 1 / 3, 2**53 + 1 as int and float, 5e-324, 1e308 * 10, inf - inf, 0.0 * inf)
        for kind in KINDS:
            for op in ROPS:
                for refl in (False, True):
                    for form in self.round_forms(refl):
                        for _ in range(1 if tier == 'quick' else 5):
                            if refl and form == 'numeric_text' and op == 'Mod':
                                continue            # 'x' % col is string formatting
                            add(self._round_case(rng, kind, op, refl, form, rng.choice(orders + ['colslice']),
                                                 rng.choice([3, 4, 6])))
        for op in ROPS:
            for refl in (False, True):
                for form in ['scalar', 'vec_row', 'vec_sample', 'mat'] + ([] if refl else ['col_KFloat', 'col_KInt']):
                    for _ in range(2 if tier == 'quick' else 8):
                        add(self._round_series_case(rng, op, refl, form, rng.choice(orders)))
        # SeriesColumn: scalar, per-row, per-sample, column and full-matrix operands
        for op in OPS:
            for refl in (False, True):
                for form in ['scalar', 'vec_row', 'vec_sample', 'mat'] + ([] if refl else ['col_KFloat', 'col_KInt']):
                    for order in orders + ['colslice', 'colrange']:
                        for _ in range(1 if tier == 'quick' else 6):
                            add(self._series_case(rng, op, refl, form, order))
        # col @ f and map_(f, col)
        for kind in KINDS:
            for fname in sorted(FUNCS):
                for via in ('matmul', 'map_'):
                    for order in (orders if tier == 'thorough' else ['natural', 'perm']):
                        for _rep in range(4 if '_or_' in fname else 1):
                            n = rng.choice([0, 3, 4, 6]) if _rep == 0 else rng.choice([3, 4, 6])
                            cells = self._cells(rng, kind, n, 'Add', False)
                            add({'mode': 'map', 'kind': kind, 'cells': [pyobs.enc(v) for v in cells], 'f': fname, 'via': via,
                                 'order': self._order(rng, n, order)})
        return cases

    # ---- shrinking / reporting --------------------------------------------
    def shrink_candidates(self, inp):
        if inp.get('mode') == 'series':
            if inp.get('order', ['natural'])[0] not in ('natural', 'colslice', 'colrange'):
                c = dict(inp)
                c['order'] = ['natural']
                yield c
            return
        n = len(inp['cells'])
        if inp.get('order', ['natural'])[0] != 'natural':
            c = dict(inp)
            c['order'] = ['natural']
            yield c
        if inp.get('pre'):
            c = dict(inp)
            del c['pre']
            yield c
        if inp.get('order', ['natural'])[0] == 'colslice':
            return
        for i in range(n):
            c = json.loads(json.dumps(inp))
            del c['cells'][i]
            opd = c.get('operand')
            if opd and opd['t'] == 'seq':
                del opd['vs'][i]
            if opd and opd['t'] == 'col':
                del opd['cells'][i]
            o = c.get('order', ['natural'])
            if o[0] in ('perm', 'sorted'):
                c['order'] = ['reversed']
            yield c

    def key(self, case):
        i = case['input']
        if i.get('mode') == 'map':
            return 'map kind=%s f=%s via=%s' % (i['kind'], i['f'], i.get('via'))
        if i.get('mode') == 'series':
            return 'series %s operand=%s' % (('x %s col' if i['refl'] else 'col %s x') % SYM[i['op']], i['operand']['t'])
        return 'arith kind=%s %s operand=%s' % (i['kind'], ('x %s col' if i['refl'] else 'col %s x') % SYM[i['op']],
                                               self._opclass(i['operand']))


PROP = C13()
