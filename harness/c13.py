"""C13 -- column arithmetic is element-wise and respects operand order."""
import json
import math
import operator
import warnings

import numpy as np

import os

import coqlit as L
import pyobs

# which binary64 implementation the IEEE oracle / model run on: '' = Coq's primitive floats (default),
# '_spec' = the standard library's pure specification SpecFloat (VERIF_C13_FLOAT=spec; slower, closed terms)
FSUF = '_spec' if os.environ.get('VERIF_C13_FLOAT') == 'spec' else ''

KINDS = ['KMixed', 'KFloat', 'KInt']
OPS = ['Add', 'Sub', 'Mul', 'Truediv', 'Floordiv', 'Mod', 'Pow']
PYOP = {'Add': operator.add, 'Sub': operator.sub, 'Mul': operator.mul, 'Truediv': operator.truediv,
        'Floordiv': operator.floordiv, 'Mod': operator.mod, 'Pow': operator.pow}
SYM = {'Add': '+', 'Sub': '-', 'Mul': '*', 'Truediv': '/', 'Floordiv': '//', 'Mod': '%', 'Pow': '**'}
NAN = float('nan')


INF = float('inf')
# values on which binary64 rounding, overflow, subnormals and signed zeros are visible
RFLOATS = [0.1, 0.2, 0.3, 1 / 3, 0.7, 1.5, 2.5, -2.5, 10.4, 1e-5, 123456.789, -0.1, 1e16, 2.0 ** 53, 2.0 ** 53 - 1,
           2.0 ** 53 + 2, 5e-324, -5e-324, 1.5e-323, 2.2250738585072014e-308, 2.225073858507201e-308, 1e308, -1e308,
           1.7976931348623157e308, 1e300, 1e-300, INF, -INF, NAN, 0.0, -0.0, 1.0, -1.0, 3.0, 10.0, 1e22, 4.35]
RINTS = [1, -1, 2, 3, -3, 7, 10, 2 ** 53 - 1, 2 ** 53, 2 ** 53 + 1, -(2 ** 53 + 1), 10 ** 16 + 1, 0]
ROPS = ['Add', 'Sub', 'Mul', 'Truediv', 'Floordiv', 'Mod']
# Finding on the unchanged tree (reported, not decided): x / IntColumn with an int beyond 2**53 on either side.
# NumPy's true_divide converts both int64 operands to float64 first, so -(2**53 + 1) / IntColumn([3]) holds
# -3002399751580330 where Python's -(2**53 + 1) / 3 is -3002399751580331.0 (int: ...331).  The exact instance judges
# such rows (the quotient is a binary64 value) and reports them; they are kept out of the default stream.
INCLUDE_PENDING_FINDINGS = False
# Observation on the unchanged tree (reported, not decided): a DERIVED MixedColumn whose cells are NumPy integers
# (dm.x @ np.abs, not assigned in between) raised to a negative integer power raises NumPy's ValueError ("Integers to
# negative integer powers are not allowed") where the same column with Python int cells holds the float 1 / cell**k.
# Kept out of the default stream: the exponents of that family are made non-negative.
INCLUDE_PENDING_NP_NEGPOW = False

# MixedColumn `+` with text on one side and a number on the other: the text of the number is its Python str() --
# exact decimal digits for an int of any size (64-bit ids, ns timestamps: not binary64 values), shortest round-trip
# repr for a float (17 significant digits where needed), an integral float as the int it is stored as
TBIGINTS = [2 ** 53 + 1, -(2 ** 53 + 1), 2 ** 53 + 3, 2 ** 54 + 2, 10 ** 16 + 1, 10 ** 17 + 1, -(10 ** 17 + 1), 2 ** 62 + 1,
            -(2 ** 62) - 3, 1700000000123456789, 2 ** 60 + 1, -(2 ** 60) - 1, 10 ** 18 + 7, 2 ** 63 - 1, -(2 ** 63) + 1,
            9007199254740993, 123456789012345678]
TBEYOND = [2 ** 63 + 1, 2 ** 64 + 1, -(2 ** 64) - 1, 10 ** 20 + 1, 10 ** 22 + 1, -(10 ** 19) - 3]    # Python ints only
TFLOATS = [0.1 + 0.2, 1 / 3, 0.1, 2.5, -2.5, -0.0, 0.0, 1e22, 1e16, 2.0 ** 53, 2.0 ** 53 + 2, -(2.0 ** 62), NAN, INF, -INF,
           5e-324, 123456789.12345679, 1e-07, 1.0000000000000002, 4.35 * 100, 2.0 ** 70, 1e21, 1e-5, 9007199254740993.0,
           0.1 * 3, 1.1 * 1.1, -1e300 * 1e-290]
TTEXTS = ['id', 'a', '', 'é', 'x y', '_x', '#', '-', '1e', 'n°']


def coltype(kind):
    from datamatrix import MixedColumn, FloatColumn, IntColumn
    return {'KMixed': MixedColumn, 'KFloat': FloatColumn, 'KInt': IntColumn}[kind]


def kind_of(col):
    from datamatrix import MixedColumn, FloatColumn, IntColumn
    for k, t in (('KMixed', MixedColumn), ('KFloat', FloatColumn), ('KInt', IntColumn)):
        if type(col) is t:
            return k
    return None


def isnum(x):
    return isinstance(x, (int, float, np.integer, np.floating)) and not isinstance(x, (bool, np.bool_))


# functions mapped over a column (they must accept Python and NumPy scalars, text and None)
FUNCS = {
    'id': lambda x: x,
    'neg': lambda x: -x if isnum(x) else x,
    'double': lambda x: x * 2 if isnum(x) else x,
    'half': lambda x: x / 2 if isnum(x) else x,
    'plus_half': lambda x: x + 0.5 if isnum(x) else x,
    'square': lambda x: x * x if isnum(x) else x,
    'const7': lambda x: 7,
    'const2_5': lambda x: 2.5,
    'constNone': lambda x: None,
    'conststr': lambda x: 'q',
    'tag': lambda x: 'n' if isnum(x) else 't',
    'isnum': lambda x: 1 if isnum(x) else 0,
    # results of different types for different cells (an int for some, a float for others): the column must hold
    # f(cell) for every cell whichever cell comes first
    'int_or_float': lambda x: (0 if x < 0 else x * 0.5 + 0.25) if (isnum(x) and x == x) else x,
    'float_or_int': lambda x: (x + 0.5 if x < 1 else 3) if (isnum(x) and x == x) else x,
    # functions that tell apart cells which compare (and hash) equal: +0.0 / -0.0, 3 / 3.0.  A column must hold
    # f(cell_i) for every cell, not f(some cell equal to cell_i)
    'copysign': lambda x: math.copysign(1.0, x) if (isnum(x) and x == x) else x,
    'atan2': lambda x: math.atan2(x, -1.0) if (isnum(x) and x == x) else x,       # atan2(+0, -1) = pi, atan2(-0, -1) = -pi
    'signbit': lambda x: (1 if math.copysign(1.0, x) < 0 else 0) if (isnum(x) and x == x) else x,
    'kindname': lambda x: ('i' if isinstance(x, (int, np.integer)) else 'f') if isnum(x) else 't',
}
SIGN_FUNCS = ['copysign', 'atan2', 'signbit', 'kindname']

# functions used to DERIVE a column (col @ f / map_(f, col)) on which the judged operation is then applied directly,
# without assigning it to the table first: the cells of a derived MixedColumn are whatever f returned (NumPy scalars,
# Python floats with an integral value), those of a Float-/IntColumn come out of the array.  All of them keep text and
# None, keep non-zero numbers non-zero and small numbers small.
PREFUNCS = {
    'np_abs': lambda x: np.abs(x) if isnum(x) else x,
    'np_neg': lambda x: np.negative(x) if isnum(x) else x,
    'np_scalar': lambda x: (np.int64(x) if isinstance(x, (int, np.integer)) else np.float64(x)) if isnum(x) else x,
    'np_int_only': lambda x: np.int64(x) if (isinstance(x, (int, np.integer)) and not isinstance(x, bool)) else x,
    'np_double': lambda x: np.multiply(x, 2) if isnum(x) else x,
    'pyfloat': lambda x: float(x) if isnum(x) else x,
}

# functions mapped over a SERIES column (`col @ f`, map_(f, col): f receives one row, a float64 array, and returns a
# series) to DERIVE the column the judged operation is applied to directly.  What f returns is not a float64 array for
# most of them: bool / int64 / float32 arrays, Python lists of floats / ints / bools -- the mapped column must hold
# f(cell_i) as numbers (True = 1.0) and behave like any series column in arithmetic.  (name -> (f, depth of the result))
def _rank(a):
    return np.argsort(np.argsort(a)) + 1


SFUNCS = {
    'gt': (lambda a: a > 0.5, lambda d: d),                                             # bool array
    'isnan': (lambda a: np.isnan(a), lambda d: d),                                      # bool array
    'rank': (_rank, lambda d: d),                                                       # int64 array, 1 .. depth
    'sign_int': (lambda a: np.where(a > 0, 1, -1), lambda d: d),                        # int64 array
    'int8': (lambda a: np.where(a > 0, 3, 2).astype(np.int8), lambda d: d),             # int8 array
    'f32': (lambda a: a.astype(np.float32), lambda d: d),                               # float32 array
    'third32': (lambda a: (a / 3).astype(np.float32), lambda d: d),                     # float32 values that are not float16 / short
    'list2': (lambda a: list(a * 2), lambda d: d),                                      # list of NumPy floats
    'pyfloats': (lambda a: [float(v) + 0.5 for v in a], lambda d: d),                   # list of Python floats
    'pyints': (lambda a: [int(v) if abs(v) < 1e9 else 7 for v in np.nan_to_num(a)], lambda d: d),   # list of Python ints
    'pybools': (lambda a: [bool(v > 0) for v in a], lambda d: d),                       # list of Python bools
    'tuple': (lambda a: tuple(float(v) for v in a), lambda d: d),
    'double': (lambda a: a * 2, lambda d: d),                                           # float64 array
    'neg': (lambda a: -a, lambda d: d),
    'half_depth': (lambda a: a[:len(a) // 2 + 1] > 0, lambda d: d // 2 + 1),            # bool array, another depth
    'twice_depth': (lambda a: np.concatenate([_rank(a), _rank(a)]), lambda d: 2 * d),   # int array, another depth
}
SFUNCS_SAME_DEPTH = sorted(k for k in SFUNCS if k not in ('half_depth', 'twice_depth'))
# Finding on the UNCHANGED tree (reported, not decided): `col @ f` / map_(f, col) on a DETACHED SLICE of a series
# column (dm.s[1:3], dm.s[[4, 0]]) of a longer table returns a series column with as many rows as the TABLE and the
# table's row ids, f(cell_i) sitting in the first len(col) rows and NaN below (_SeriesColumn._map builds the result
# from self.dm).  Derived series columns are therefore made from whole columns of the (re-ordered) table and sliced
# afterwards; mapping a detached slice is kept out of the default stream.
INCLUDE_PENDING_SERIES_MAP_SLICE = False


def plain(v):
    """the Python number a NumPy scalar stands for (cells of a derived MixedColumn)"""
    if isinstance(v, np.integer) and not isinstance(v, np.bool_):
        return int(v)
    if isinstance(v, np.float64):
        return float(v)
    return v


def has_np(values):
    return any(isinstance(v, np.generic) for v in values)


def same_lits(a, b):
    return [pyobs.val(x) for x in a] == [pyobs.val(x) for x in b]


def same_vals(a, b):
    """equal up to Python equality of the stored values (NaN ~ NaN, 0.0 ~ -0.0), same type"""
    if len(a) != len(b):
        return False
    for x, y in zip(a, b):
        if type(x) is not type(y):
            return False
        if not (x == y or (x != x and y != y)):
            return False
    return True


def floats_in(values, out):
    for v in values:
        if isinstance(v, (float, np.floating)):
            out.append(float(v))
        elif type(v) is str:
            try:
                out.append(float(v))
            except ValueError:
                pass


def fstr_table(values):
    fs, seen, items = [], set(), []
    floats_in(values, fs)
    for f in fs:
        lit = L.fl(f)
        if lit in seen:
            continue
        seen.add(lit)
        items.append('(%s, %s)' % (lit, L.string(str(f))))
    return L.lst(items)


def col_lit(kind, ids, cells):
    lits = [pyobs.val(c) for c in cells]
    if any(l is None for l in lits):
        return None
    return '(Col %s %s %s)' % (kind, L.lst(L.N(int(i)) for i in ids), L.lst(lits))


class C13:
    id = 'C13'
    props_file = 'theories/Props/C13.v'
    kernel_files = ['KArith.v', 'KCheck.v', 'KCsv.v']
    oracle_vos = ['theories/Run/SC13.vo']
    model_vos = ['theories/Run/RC13.vo']
    oracle_imports = ['From DM Require Import Run.SC13.']
    model_imports = ['From DM Require Import Run.SC13 Run.RC13.']
    exhaustive = False
    rule = ('grid: 3 column types x 7 operators x both operand orders x operand forms (int, float, bool, numeric text, '
            'other text, None, NumPy scalar, list, tuple, column of each type) x 4 row orders (natural, reversed, '
            'random selection, sorted by a key column), cells drawn from small ints and dyadic fractions (so that '
            '+ - * // % are exact, / and ** often), NaN, text and None cells for Mixed/Float assignment; plus random '
            'cases (incl. list-indexed column slices and derived, unattached columns), wrong-length and ill-typed operands '
            '(model only), col @ f / map_(f, col) for 12 functions, and SeriesColumn o scalar / per-row / per-sample / '
            'full-matrix / Float-/IntColumn operands in both orders, on whole columns and on column-level slices / index '
            'lists of a longer table (mostly with as many rows as the depth, where per-row must win over per-sample). '
            'Observed: result type, row ids, cells; operands before/after; the cells read row-wise after dm.r = result. '
            'Every case is judged twice inside Coq: by the exact dyadic instance (rows whose exact result is a binary64 value; '
            'non-dyadic quotients, non-integer exponents, infinities are skipped by it) AND by the IEEE-754 binary64 instance '
            '(Spec/ArithIeee.v on Base/Float64Py.v, Coq primitive floats under vm_compute), which judges every row of + - * / // % '
            'with its rounding, overflow to inf, inf - inf, subnormals. A family of rounding-visible values (0.1, 0.2, 0.3, 1/3, 2**53 +- 1 '
            'as int and float, 10**16 + 1, 5e-324, the largest double, 1e308 * 10, +-inf, nan, +-0.0; scalar / NumPy scalar / numeric text / '
            'list / tuple / column operands, both orders, Mixed / Float / Int columns and SeriesColumns) exercises it. A row counts as '
            'having left the model only if neither instance judges it: ** outside the exact instance, zero divisors (outside the '
            'quantifier; a MixedColumn raising ZeroDivisionError is compared in the L1 correspondence), int64 overflow, '
            'x / IntColumn beyond 2**53. Three families of states reached through other operations first: (a) ** with integer '
            'results between 2**53 and 2**62 (7**20, 3**35, (-3)**39: exact in int64 / Python ints, not binary64 values) for Int- and '
            'MixedColumn, both operand orders, scalar / NumPy scalar / list / tuple / column operands, every row order; (b) the '
            'operation (and col @ f / map_) applied directly to a DERIVED column that was not assigned in between -- col @ np.abs, '
            'map_(np.int64, col), col * signs ...: MixedColumn cells that are NumPy scalars (judged as the numbers they stand for; '
            'small values, non-negative integer exponents, where NumPy and Python scalar arithmetic coincide) or integral Python '
            'floats, FloatColumn cells that are negative zeros; (c) col @ f / map_(f, col) with functions that tell equal cells apart '
            '(copysign, atan2(x, -1), sign bit, int-or-float) on columns holding +0.0 and -0.0, k and float(k) side by side (such '
            'cells cannot be assigned; they are produced by per-row factors). '
            'Family textcat: MixedColumn + with text on one side and a number on the other whose str() a float conversion would '
            'change -- ints beyond 2**53 and beyond 2**63, floats with 17 significant digits, -0.0, 1e22, 2.0**70, nan, +-inf -- as '
            'cell, scalar, NumPy scalar, numeric text, list / tuple item and Mixed- / Int- / FloatColumn operand, both operand orders, '
            'all row orders, also on derived columns with NumPy-scalar cells. Family assignback: the result (of col o x, x o col, '
            'col @ f, map_, SeriesColumn o x) is assigned back ON THE SAME TABLE under the name of the column operand, of the operand '
            'column, or of a second name (dm.b = dm.c) of one of them, while the harness holds the operand column objects: the rows '
            'read the result (judged in Coq like dm.r = result) and the held objects / the other name still read the original cells. '
            'Family derived_series: the operation applied directly to a DERIVED SeriesColumn that was never assigned to the table -- '
            'the result of col @ f / map_(f, col) with f returning bool / int64 / int8 / float32 arrays, Python lists of floats / ints / '
            'bools, tuples, arrays of another depth (each mapped column is first checked on the Python side to have the rows and row '
            'ids of its source and to hold f(cell_i)), of another operator, of series.endlock / window / downsample, of a sample slice, '
            'then sliced at column level -- as LEFT and RIGHT operand, 7 operators, with scalar / per-row / per-sample / matrix / '
            'Float- / IntColumn operands and with ANOTHER SERIES COLUMN of the table (plain, derived the same way, or the very same '
            'object: mapped + mapped, mapped - mapped, rank ** -1), judged by the same Coq terms from the samples read from the '
            'derived objects.  In family `derived` the operand COLUMN of a plain column is derived too (col + (other @ np.abs), '
            'NumPy-scalar cells on the right-hand side). '
            'non-trivial = the result differs from the source cells; distinct by full input')
    trusted_base = [
        'Coq 8.16.1 kernel (coqc; vm_compute for evaluating cases; no native_compute)',
        'translator /verif/translate/gen_arith.py (operator table, per-cell code of BaseColumn/NumericColumn/IntColumn._operate, '
        '_map) -> Gen/KArith.v, gen_checktype.py -> Gen/KCheck.v, and gen_csv.py -> Gen/KCsv.v (k_safe_decode: the decision chain '
        'of py3compat.safe_decode, which BaseColumn._operate turns both operands of a text + into text with)',
        'Spec/Arith.v exact_op: hand-written exact model of Python/NumPy scalar arithmetic on ints and dyadics (result type, '
        'int -> float promotion, floor semantics of // and %, IEEE pow units), exercised by the correspondence; str(float) of finite '
        'non-integral floats supplied by CPython as a table; Base/CsvPy.v b_str / show_int / show_flt: hand-written str() of the '
        'classified objects',
        'Base/Float64Py.v + Spec/ArithIeee.v: hand-written model of Python float semantics (float(int), int / int as one rounding of the '
        'exact quotient, CPython float_divmod = NumPy npy_divmod transcribed, fmod / floor / rounding on Z) over the four basic '
        'operations. Coq primitive floats (PrimFloat.add/sub/mul/div, of_uint63, ldshiftexp, frshiftexp, normfr_mantissa, opp, abs, '
        'eqb, ltb, float; PrimInt63 int/lsl/lsr/lor/land/eqb -- the 19 names Print Assumptions lists for oracle_op_ieee, kernel primitives, no axiom) are TRUSTED to '
        'implement IEEE-754 binary64 round-to-nearest-even (they are the C double operations of the machine running coqc). Cross-checks: '
        'the standard library SpecFloat (pure Gallina) gives bit-identical results on a 51 x 51 x 6 grid (Example in Props/C13.v) and the '
        'whole correspondence can be re-run on it (VERIF_C13_FLOAT=spec, same verdicts)',
        'NumPy / CPython are trusted to use the platform IEEE-754 binary64 arithmetic (round to nearest even, no x87 double rounding, '
        'no flush-to-zero) and a correctly working fmod',
        'hand-written NumPy cast models (Model/Store.v, Model/Arith.v: array promotion int64->float64, astype(int), np.array(dtype=))',
        'harness/c13.py, harness/pyobs.py, harness/coqlit.py',
    ]
    assumptions = [
        'IEEE rounding of + - * / // % is modelled (binary64, round to nearest even); ** is judged only where its exact result is a '
        'binary64 value (libm pow is not correctly rounded)',
        'consistency of the two instances (where exact_op yields a binary64 value, ieee_op yields it too) is TESTED on the grid and on '
        'every generated case (both verdicts are required), not proved for all inputs',
        'zero divisors, int64 overflow, x / IntColumn with |int| > 2**53 (NumPy divides the rounded float64 views) are not judged',
        'signed zeros are identified in RESULTS (comparison up to Python ==, NaN ~ NaN); everything else bit for bit; source '
        'cells keep their sign (a function mapped over the column sees it)',
        'NumPy-scalar cells of a derived MixedColumn are read as Python numbers of the same value (the generator keeps them '
        'where both arithmetics agree: |value| small, no negative integer exponent, no zero divisor)',
        'fastnumbers is not installed',
        'NumPy scalars / arrays as LEFT operand are outside the claim (NumPy, not the column, handles them)',
        'operands-unchanged and "result is a new object" are observed on the Python side (pyfail), by-value model in Coq',
        'SeriesColumn: scalar / per-row / per-sample / full-matrix operands of numbers and other series columns; NumPy broadcasting '
        'is hand-modelled; the samples of a (derived) series column are read from its buffer as float(sample): that the buffer of a '
        'column made by col @ f / map_ is float64 is PINNED (gen_arith.py: _SeriesColumn._map writes every f(cell) through newcol[i] = a) '
        'and exercised by family derived_series; col @ f on a DETACHED SLICE of a series column is kept out (pending finding, '
        'INCLUDE_PENDING_SERIES_MAP_SLICE)',
    ]

    # ---- building the table ---------------------------------------------
    def _build(self, inp):
        from datamatrix import DataMatrix, operations as ops
        n = len(inp['cells'])
        dm = DataMatrix(length=n)
        dm.c = coltype(inp['kind'])
        dm.c = [pyobs.dec(v) for v in inp['cells']]
        opd = inp.get('operand')
        if opd and opd['t'] == 'col':
            dm.o = coltype(opd['kind'])
            dm.o = [pyobs.dec(v) for v in opd['cells']]
        order = inp.get('order', ['natural'])
        if order[0] == 'reversed':
            dm = dm[list(range(n - 1, -1, -1))]
        elif order[0] == 'perm':
            dm = dm[list(order[1])]
        elif order[0] == 'sorted':
            dm.key = list(order[1])
            dm = ops.sort(dm, by=dm.key)
        return dm

    def _cols(self, inp, dm):
        """the column operand (and the operand column): whole columns of dm, or slices of them (order 'colslice'),
        optionally turned into a derived, unattached column first (pre: col * 1.0, Mixed cells 3 -> 3.0)"""
        order = inp.get('order', ['natural'])
        col = dm.c
        ocol = dm.o if (inp.get('operand') or {}).get('t') == 'col' else None
        if order[0] == 'colslice':
            col = col[list(order[1])]
            if ocol is not None:
                ocol = ocol[list(order[1])]
        if inp.get('pre'):
            col = self._apply_pre(col, inp['pre'])
        if ocol is not None and inp['operand'].get('pre'):
            # the OTHER operand is a derived column as well (col + (other @ f)), not assigned in between
            ocol = self._apply_pre(ocol, inp['operand']['pre'])
        return col, ocol

    def _apply_pre(self, col, pre):
        """pre = True: col * 1.0; or a list of steps {'k': 'map', 'f': name of PREFUNCS, 'via': 'matmul' | 'map_'} /
        {'k': 'op', 'op': .., 'refl': .., 'x': {'t': 'scalar', 'v': ..} | {'t': 'seq', 'vs': [..]}}, applied in turn"""
        from datamatrix import functional as fnc
        if pre is True:
            return col * 1.0
        for st in pre:
            if st['k'] == 'map':
                f = PREFUNCS[st['f']]
                col = fnc.map_(f, col) if st.get('via') == 'map_' else (col @ f)
            else:
                x = st['x']
                v = pyobs.dec(x['v']) if x['t'] == 'scalar' else [pyobs.dec(e) for e in x['vs']]
                col = PYOP[st['op']](v, col) if st.get('refl') else PYOP[st['op']](col, v)
        return col

    def _operand(self, inp, ocol):
        opd = inp['operand']
        if opd['t'] == 'scalar':
            v = pyobs.dec(opd['v'])
            return v, [v], '(OScalar %s)' % pyobs.pyv(v)
        if opd['t'] == 'seq':
            vs = [pyobs.dec(v) for v in opd['vs']]
            obj = tuple(vs) if opd.get('as') == 'tuple' else list(vs)
            return obj, vs, '(OSeq %s)' % L.lst(pyobs.pyv(v) for v in vs)
        cells = [plain(c) for c in ocol]
        lits = [pyobs.val(c) for c in cells]
        return ocol, cells, '(OCol %s %s)' % (opd['kind'], L.lst(lits))

    def rerun(self, inp):
        with warnings.catch_warnings():
            warnings.simplefilter('ignore')
            old = np.seterr(all='ignore')
            try:
                if inp.get('mode') == 'map':
                    c = self._rerun_map(inp)
                elif inp.get('mode') == 'series':
                    c = self._rerun_series(inp)
                else:
                    c = self._rerun_op(inp)
            finally:
                np.seterr(**old)
            if c is not None and not c.get('oracle_vec'):
                # [oracle; every row of the case is judged]
                c['oracle_vec'] = '[%s; %s]' % (c['oracle'], c.get('aux') or 'true')
            return c

    def _rerun_op(self, inp):
        from datamatrix._datamatrix._basecolumn import BaseColumn
        kind, op, refl = inp['kind'], inp['op'], bool(inp['refl'])
        try:
            dm = self._build(inp)
        except Exception:
            return None                     # the column itself cannot hold these cells
        assign = inp.get('assign')
        try:
            self._alias(dm, assign, 'c')
            col, ocol = self._cols(inp, dm)
        except Exception:
            return None
        if kind_of(col) != kind:
            return None
        target = self._target(assign, 'c')
        raw0 = list(col)
        # a derived column whose cells are NumPy scalars (col @ np.abs): the cells are judged as the numbers they stand for
        relaxed = has_np(raw0) or (ocol is not None and has_np(list(ocol)))
        cells0 = [plain(v) for v in raw0]
        ids0 = [int(i) for i in col._rowid]
        if ocol is not None and kind_of(ocol) != inp['operand']['kind']:
            return None
        x, xvals, o_lit = self._operand(inp, ocol)
        if inp['operand']['t'] == 'col' and any(pyobs.val(c) is None for c in xvals):
            return None                     # a derived operand column holding cells outside the classified universe
        xsnap = list(xvals)
        c_lit = col_lit(kind, ids0, cells0)
        if c_lit is None:
            return None
        pyfail = None
        assigned_lit = None
        try:
            r = PYOP[op](x, col) if refl else PYOP[op](col, x)
            out = ('ok', r)
        except Exception as e:      # noqa: BLE001
            out = ('exn', pyobs.exn_name(e))
        observed = {}
        nontrivial = True
        if out[0] == 'exn':
            obs_lit = '(Raise %s)' % out[1]
            observed = {'raises': out[1]}
        else:
            r = out[1]
            if not isinstance(r, BaseColumn):
                pyfail = 'the result of %s is not a column but %s' % (self.key({'input': inp}), type(r).__name__)
                obs_lit = '(Raise OtherError)'
                observed = {'not_a_column': type(r).__name__}
            else:
                rk = kind_of(r)
                rcells = [plain(v) for v in r] if relaxed else list(r)
                if any(isinstance(v, complex) for v in rcells):
                    return None             # negative base, fractional exponent: outside the quantifier
                rids = [int(i) for i in r._rowid]
                observed = {'type': type(r).__name__, 'rowid': rids, 'cells': [pyobs.jsonable(v) for v in rcells]}
                r_lit = col_lit(rk, rids, rcells) if rk else None
                if r_lit is None:
                    pyfail = 'result is not a Mixed/Float/IntColumn of plain int/float/str/None cells: %s %r' % (
                        type(r).__name__, [type(v).__name__ for v in rcells])
                    obs_lit = '(Raise OtherError)'
                else:
                    obs_lit = '(Ok %s)' % r_lit
                    nontrivial = not same_lits(rcells, cells0)
                if r is col or r._seq is col._seq:
                    pyfail = pyfail or 'the result shares its cells with the source column'
                # assigning the result back: row i of the table reads result i
                # (only for whole columns of dm: a permuted column slice assigned to dm is copied by position by
                #  DataMatrix._set_col, which is not this property's subject -- reported separately)
                if pyfail is None and inp.get('order', ['natural'])[0] != 'colslice':
                    try:
                        # under a new name, or (assign) under the name of an operand / of an alias of an operand while
                        # the operand column objects are still held: they must not change (checked below)
                        dm[target] = r
                        assigned = [dm[i][target] for i in range(len(dm))]
                        a_lits = [pyobs.val(v) for v in assigned]
                        if any(l is None for l in a_lits):
                            pyfail = 'cells read after assigning the result back are not plain values'
                        else:
                            observed['assigned_rowwise'] = [pyobs.jsonable(v) for v in assigned]
                            # A column assigned to the table is copied and type-checked like any assigned value (C05):
                            # row i must read what assigning the plain list of the result's cells, in order, gives.
                            from datamatrix import DataMatrix as _DM
                            refdm = _DM(length=len(rcells))
                            refdm.r = type(r)
                            refdm.r = list(rcells)
                            if not same_vals(assigned, list(refdm.r)):
                                pyfail = ('assigning the result back puts %r into the rows, assigning its cells as a list '
                                          'gives %r' % (assigned, list(refdm.r)))
                            elif same_lits(assigned, rcells):
                                # no cell was re-typed by the assignment: judged in Coq against the specified cells too
                                assigned_lit = (L.lst(L.N(int(i)) for i in dm._rowid), L.lst(a_lits))
                        src_rowwise = [dm[i].c for i in range(len(dm))]
                        if (col is dm.c or assign == 'alias') and not same_lits(src_rowwise, cells0):
                            pyfail = pyfail or 'the source column changed when the result was assigned back'
                        if assign == 'alias_other' and not same_lits([dm[i].o for i in range(len(dm))], xsnap):
                            pyfail = pyfail or 'the operand column changed when the result was assigned to its second name'
                    except Exception as e:      # noqa: BLE001
                        pyfail = 'assigning the result back failed: %r' % (e,)
        # operands unchanged
        now0 = list(col)
        if not same_lits([plain(v) for v in now0], cells0) or [type(v) for v in now0] != [type(v) for v in raw0] \
                or [int(i) for i in col._rowid] != ids0:
            pyfail = pyfail or 'the column operand was changed by the operation'
        if inp['operand']['t'] == 'col':
            now = [plain(v) for v in ocol]
        elif inp['operand']['t'] == 'seq':
            now = list(x)
        else:
            now = [x]
        if not same_lits(now, xsnap):
            pyfail = pyfail or 'the other operand was changed by the operation'
        tab = fstr_table(list(cells0) + list(xsnap))
        args = '%s O%s %s %s %s' % (tab, op, L.boolean(refl), c_lit, o_lit)
        judge = inp.get('judge', True)
        if judge:
            # both instances of the scalar arithmetic on the same literals: exact (rows it computes), IEEE binary64 (every row)
            asg = 'None' if assigned_lit is None else '(Some (%s, %s))' % assigned_lit
            oracle = '(oracle_c13%s %s %s %s)' % (FSUF, args, obs_lit, asg)
            vec = '(vec_c13%s %s %s %s)' % (FSUF, args, obs_lit, asg)
            model = '(model_c13%s %s %s)' % (FSUF, args, obs_lit)
            aux = '(judged_ieee %s)' % args
        else:
            oracle = 'true'
            vec = None
            model = '(model_outcome %s %s)' % (args, obs_lit)
            aux = 'false'
        cls = set()
        for v in cells0:
            cls.add('cell:' + ('nan' if isinstance(v, float) and math.isnan(v) else
                               'negzero' if isinstance(v, float) and v == 0 and math.copysign(1.0, v) < 0 else type(v).__name__))
        return {
            'input': inp, 'observed': observed, 'pyfail': pyfail, 'oracle': oracle, 'model': model, 'aux': aux,
            'oracle_vec': vec, 'nontrivial': nontrivial, 'sig': json.dumps(inp, sort_keys=True),
            'tags': [kind, op, 'x_o_col' if refl else 'col_o_x', 'operand:' + self._opclass(inp['operand']),
                     'order:' + inp.get('order', ['natural'])[0], 'rows:%d' % len(cells0)] + (['derived_column'] if inp.get('pre') else []) + (
                     ['derived_operand_column'] if inp['operand'].get('pre') else []) + (
                     ['numpy_cells'] if relaxed else []) + (
                     ['family:' + inp['family']] if inp.get('family') else []) + (
                     ['assign:' + assign] if assign else []) + [
                     'outcome:' + ('raise' if out[0] == 'exn' else 'ok')] + sorted(cls) + ([] if judge else ['malformed']),
        }

    @staticmethod
    def _alias(dm, assign, name):
        """dm.b = dm.<operand>: a second name for the same column object (DataMatrix._set_col keeps the object when it is
        a column of this table with matching rows)"""
        if assign == 'alias':
            dm.b = dm[name]
        elif assign == 'alias_other':
            dm.b = dm.o

    @staticmethod
    def _target(assign, name):
        """the name under which the result is assigned back: a new one, the operand's own name (the operand object is
        held by the harness), the operand column's name, or the second name of one of them"""
        return {None: 'r', 'self': name, 'alias': 'b', 'other': 'o', 'alias_other': 'b'}[assign]

    def _opclass(self, opd):
        if opd['t'] == 'scalar':
            t = opd['v']['t']
            if t == 'str':
                try:
                    float(opd['v']['v'])
                    return 'numeric_text'
                except ValueError:
                    return 'text'
            return t if t != 'np' else 'np_' + opd['v']['dtype']
        if opd['t'] == 'seq':
            return opd.get('as', 'list')
        return 'col_' + opd['kind']

    def _rerun_map(self, inp):
        from datamatrix import functional as fnc
        from datamatrix._datamatrix._basecolumn import BaseColumn
        kind = inp['kind']
        f = FUNCS[inp['f']]
        try:
            dm = self._build(inp)
        except Exception:
            return None
        assign = inp.get('assign')
        try:
            self._alias(dm, assign, 'c')
            col, _o = self._cols(inp, dm)
        except Exception:
            return None
        if kind_of(col) != kind:
            return None
        raw0 = list(col)
        relaxed = has_np(raw0)
        cells0 = [plain(v) for v in raw0]
        ids0 = [int(i) for i in col._rowid]
        c_lit = col_lit(kind, ids0, cells0)
        if c_lit is None:
            return None
        calls = []

        def g(x):
            calls.append(x)
            return f(x)
        pyfail = None
        try:
            r = (col @ g) if inp.get('via') == 'matmul' else fnc.map_(g, col)
            out = ('ok', r)
        except Exception as e:      # noqa: BLE001
            out = ('exn', pyobs.exn_name(e))
        if out[0] == 'exn':
            obs_lit = '(Raise %s)' % out[1]
            observed = {'raises': out[1]}
        else:
            r = out[1]
            rk = kind_of(r) if isinstance(r, BaseColumn) else None
            rcells = ([plain(v) for v in r] if relaxed else list(r)) if rk else []
            r_lit = col_lit(rk, [int(i) for i in r._rowid], rcells) if rk else None
            observed = {'type': type(r).__name__, 'cells': [pyobs.jsonable(v) for v in rcells]}
            if r_lit is None:
                pyfail = 'map result is not a column of plain cells: %s' % type(r).__name__
                obs_lit = '(Raise OtherError)'
            else:
                obs_lit = '(Ok %s)' % r_lit
            if r is col:
                pyfail = pyfail or 'map returned the source column itself'
            if assign and pyfail is None and col is dm.c:
                # dm.c = col @ f (or under a second name of the column) while the column object is held: the rows read
                # what assigning the cells of the result as a list gives, and the held column keeps its cells (below)
                target = self._target(assign, 'c')
                try:
                    from datamatrix import DataMatrix as _DM
                    refdm = _DM(length=len(rcells))
                    refdm.r = type(r)
                    refdm.r = list(rcells)
                    want = ('ok', list(refdm.r))
                except Exception as e:      # noqa: BLE001
                    want = ('exn', pyobs.exn_name(e))
                try:
                    dm[target] = r
                    got = ('ok', [dm[i][target] for i in range(len(dm))])
                except Exception as e:      # noqa: BLE001
                    got = ('exn', pyobs.exn_name(e))
                if got[0] != want[0] or (got[0] == 'ok' and not same_vals(got[1], want[1])) or (got[0] == 'exn' and got[1] != want[1]):
                    pyfail = 'assigning the map result back gives %r, assigning its cells as a list gives %r' % (got, want)
                else:
                    observed['assigned_rowwise'] = [pyobs.jsonable(v) for v in got[1]] if got[0] == 'ok' else got[1]
                if assign == 'alias' and not same_lits([plain(v) for v in dm.c], cells0):
                    pyfail = pyfail or 'the source column changed when the map result was assigned to its second name'
        now0 = list(col)
        if not same_lits([plain(v) for v in now0], cells0) or [type(v) for v in now0] != [type(v) for v in raw0] \
                or [int(i) for i in col._rowid] != ids0:
            pyfail = pyfail or 'the column was changed by map'
        # f on the cells, evaluated independently of the library
        items, seen = [], set()
        for v in cells0:
            lit = pyobs.val(v)
            if lit in seen:
                continue
            seen.add(lit)
            items.append('(%s, %s)' % (lit, pyobs.pyv(f(v))))
        tab = L.lst(items)
        return {
            'input': inp, 'observed': observed, 'pyfail': pyfail,
            'oracle': '(oracle_map %s %s %s)' % (tab, c_lit, obs_lit),
            'model': '(model_map %s %s %s)' % (tab, c_lit, obs_lit),
            'nontrivial': inp['f'] != 'id', 'sig': json.dumps(inp, sort_keys=True),
            'tags': [kind, 'map', 'f:' + inp['f'], 'via:' + inp.get('via', 'map_'),
                     'order:' + inp.get('order', ['natural'])[0], 'outcome:' + ('raise' if out[0] == 'exn' else 'ok')] + (
                     ['derived_column'] if inp.get('pre') else []) + (['numpy_cells'] if relaxed else []) + (
                     ['family:' + inp['family']] if inp.get('family') else []) + (
                     ['assign:' + assign] if assign else []) + (
                     ['cells:both_zeros'] if self._both_zeros(cells0) else []) + (
                     ['cells:int_and_equal_float'] if self._int_and_float(cells0) else []),
        }

    # ---- SeriesColumn -----------------------------------------------------
    def _rerun_series(self, inp):
        from datamatrix import DataMatrix, SeriesColumn, FloatColumn, IntColumn, operations as ops
        from datamatrix._datamatrix._seriescolumn import _SeriesColumn
        rows = [[pyobs.dec(v) for v in row] for row in inp['rows']]
        n, depth, op, refl = len(rows), inp['depth'], inp['op'], bool(inp['refl'])
        dm = DataMatrix(length=n)
        dm.s = SeriesColumn(depth=depth)
        for i, row in enumerate(rows):
            dm.s[i] = row
        opd = inp['operand']
        if opd['t'] == 'col':
            dm.o = FloatColumn if opd['kind'] == 'KFloat' else IntColumn
            dm.o = [pyobs.dec(v) for v in opd['vs']]
        if opd['t'] == 'series' and not opd.get('same'):
            # the other operand is a series column of the same table (plain, or derived like the column operand)
            orows = [[pyobs.dec(v) for v in row] for row in opd['vss']]
            dm.t = SeriesColumn(depth=len(orows[0]) if orows else depth)
            for i, row in enumerate(orows):
                dm.t[i] = row
        order = inp.get('order', ['natural'])
        if order[0] == 'reversed':
            dm = dm[list(range(n - 1, -1, -1))]
        elif order[0] == 'perm':
            dm = dm[list(order[1])]
        elif order[0] == 'sorted':
            dm.key = list(order[1])
            dm = ops.sort(dm, by=dm.key)
        assign = inp.get('assign')
        try:
            self._alias(dm, assign, 's')
        except Exception:
            return None
        target = self._target(assign, 's')
        col = dm.s
        ocol = dm.o if opd['t'] == 'col' else None
        scol = dm.t if (opd['t'] == 'series' and not opd.get('same')) else None
        # a DERIVED series column: the result of col @ f / map_(f, col) (f returning bool / int / float32 arrays, Python
        # lists), of another operator, of a series function, of a sample slice -- used directly, never assigned
        def cut(c):
            # column-level slices / index lists: the series column stays attached to the (longer) table
            if c is None:
                return None
            if order[0] == 'colslice':
                return c[list(order[1])]
            if order[0] == 'colrange':
                return c[order[1]:order[2]]
            return c
        # slice_first: the DETACHED SLICE is mapped (pending finding, INCLUDE_PENDING_SERIES_MAP_SLICE); otherwise the
        # whole column is derived and the derived column is sliced
        slice_first = bool(inp.get('slice_first'))
        if slice_first:
            col, ocol, scol = cut(col), cut(ocol), cut(scol)
        derive_fail = None
        try:
            if inp.get('pre'):
                col, derive_fail = self._apply_series_pre(col, inp['pre'])
            if scol is not None and opd.get('pre') and derive_fail is None:
                scol, derive_fail = self._apply_series_pre(scol, opd['pre'])
        except Exception as e:      # noqa: BLE001 -- the implementation refused to derive the column: judged, not a crash
            derive_fail = 'deriving the series column (%r) raised %r' % (inp.get('pre'), e)
        if derive_fail is not None:
            return {'input': inp, 'observed': {'derive': derive_fail}, 'pyfail': derive_fail, 'oracle': 'true', 'model': 'true',
                    'nontrivial': True, 'sig': json.dumps(inp, sort_keys=True),
                    'tags': ['Series', 'family:' + inp.get('family', ''), 'derive-failed']}
        if not slice_first:
            col, ocol, scol = cut(col), cut(ocol), cut(scol)
        if opd['t'] == 'series' and opd.get('same'):
            scol = col
        if not isinstance(col, _SeriesColumn):
            return None
        n = len(col)
        depth = int(col.depth)
        if col._seq.ndim != 2 or col._seq.shape != (n, depth) or len(col._rowid) != n:
            pf = 'the series column has %d rows and depth %d but its samples have the shape %r' % (n, depth, col._seq.shape)
            return {'input': inp, 'observed': {'shape': list(col._seq.shape)}, 'pyfail': pf, 'oracle': 'true', 'model': 'true',
                    'nontrivial': True, 'sig': json.dumps(inp, sort_keys=True),
                    'tags': ['Series', 'family:' + inp.get('family', ''), 'derive-failed']}
        rows0 = [[float(v) for v in col._seq[i]] for i in range(n)]
        ids0 = [int(i) for i in col._rowid]

        def numlit(v):
            if isinstance(v, (int, np.integer)) and not isinstance(v, bool):
                return '(NInt %s)' % L.z(int(v))
            return '(NFlt %s)' % L.fl(float(v))
        if opd['t'] == 'scalar':
            x = pyobs.dec(opd['v'])
            o_lit = '(SScalar %s)' % numlit(x)
            snap = [x]
        elif opd['t'] == 'vec':
            vs = [pyobs.dec(v) for v in opd['vs']]
            x = {'list': list, 'tuple': tuple, 'array': lambda l: np.array(l, dtype=float)}[opd.get('as', 'list')](vs)
            o_lit = '(SVec %s)' % L.lst(numlit(v) for v in vs)
            snap = list(vs)
        elif opd['t'] == 'col':
            x = ocol
            vs = list(ocol)
            o_lit = '(SVec %s)' % L.lst(numlit(v) for v in vs)
            snap = list(vs)
        elif opd['t'] == 'series':
            x = scol
            if not isinstance(x, _SeriesColumn) or x._seq.ndim != 2:
                return None
            vss = [[float(v) for v in x._seq[i]] for i in range(len(x))]
            o_lit = '(SMat %s)' % L.lst(L.lst(numlit(v) for v in row) for row in vss)
            snap = [v for row in vss for v in row]
        else:
            vss = [[pyobs.dec(v) for v in row] for row in opd['vss']]
            x = np.array(vss, dtype=float) if opd.get('as') == 'array' else [list(r) for r in vss]
            o_lit = '(SMat %s)' % L.lst(L.lst(numlit(v) for v in row) for row in vss)
            snap = [v for row in vss for v in row]
        c_lit = '(SCol %s %s %s)' % (L.nat(depth), L.lst(L.N(i) for i in ids0), L.lst(L.lst(L.fl(v) for v in row) for row in rows0))
        pyfail = None
        try:
            r = PYOP[op](x, col) if refl else PYOP[op](col, x)
            out = ('ok', r)
        except Exception as e:      # noqa: BLE001
            out = ('exn', pyobs.exn_name(e))
        if out[0] == 'exn':
            obs_lit = '(Raise %s)' % out[1]
            observed = {'raises': out[1]}
        else:
            r = out[1]
            if not isinstance(r, _SeriesColumn) or r._seq.ndim != 2:
                pyfail = 'the result is not a SeriesColumn but %s' % type(r).__name__
                obs_lit = '(Raise OtherError)'
                observed = {'not_a_series': type(r).__name__}
            else:
                rrows = [[float(v) for v in r._seq[i]] for i in range(len(r))]
                rids = [int(i) for i in r._rowid]
                observed = {'depth': int(r.depth), 'rowid': rids, 'rows': [[v.hex() for v in row] for row in rrows]}
                obs_lit = '(Ok (SCol %s %s %s))' % (L.nat(int(r.depth)), L.lst(L.N(i) for i in rids),
                                                   L.lst(L.lst(L.fl(v) for v in row) for row in rrows))
                if r is col or r._seq is col._seq or np.shares_memory(r._seq, col._seq):
                    pyfail = 'the result shares its samples with the source column'
                if pyfail is None and len(r) == len(dm) and order[0] not in ('colslice', 'colrange'):
                    try:
                        # under a new name, or (assign) under the name / a second name of the operand column, which the
                        # harness still holds: it must keep its samples (checked below)
                        dm[target] = r
                        for i in range(len(dm)):
                            if not np.array_equal(np.asarray(dm[i][target], dtype=float), np.array(rrows[i]), equal_nan=True):
                                pyfail = 'after dm.%s = result, row %d does not hold result %d' % (target, i, i)
                        if assign == 'alias' and [[L.fl(float(v)) for v in dm[i].s] for i in range(len(dm))] != \
                                [[L.fl(v) for v in row] for row in rows0]:
                            pyfail = pyfail or 'the series column changed when the result was assigned to its second name'
                        if [int(i) for i in dm._rowid] != rids:
                            pyfail = pyfail or 'the result rows are not the rows of the table'
                    except Exception as e:      # noqa: BLE001
                        pyfail = 'assigning the result back failed: %r' % (e,)
        now = [[float(v) for v in col._seq[i]] for i in range(n)]
        if [[L.fl(v) for v in row] for row in now] != [[L.fl(v) for v in row] for row in rows0] or [int(i) for i in col._rowid] != ids0:
            pyfail = pyfail or 'the series column was changed by the operation'
        if opd['t'] == 'col':
            after = list(ocol)
        elif opd['t'] == 'scalar':
            after = [x]
        elif opd['t'] == 'vec':
            after = list(x)
        elif opd['t'] == 'series':
            after = [float(v) for i in range(len(x)) for v in x._seq[i]]
        else:
            after = [v for row in x for v in row]
        if [L.fl(float(v)) for v in after] != [L.fl(float(v)) for v in snap]:
            pyfail = pyfail or 'the other operand was changed by the operation'
        args = 'O%s %s %s %s' % (op, L.boolean(refl), c_lit, o_lit)
        return {
            'input': inp, 'observed': observed, 'pyfail': pyfail,
            'oracle': '(oracle_series_c13%s %s %s)' % (FSUF, args, obs_lit),
            'oracle_vec': '(vec_series_c13%s %s %s)' % (FSUF, args, obs_lit),
            'model': '(model_series_c13%s %s %s)' % (FSUF, args, obs_lit),
            'aux': '(judged_series_ieee %s)' % args, 'nontrivial': True, 'sig': json.dumps(inp, sort_keys=True),
            'tags': ['Series', op, 'x_o_col' if refl else 'col_o_x',
                     'operand:series_' + opd['t'] + ('_' + opd.get('as', '') if opd.get('as') else '') +
                     ('_per_row' if opd['t'] == 'vec' and len(opd['vs']) == n else '_per_sample' if opd['t'] == 'vec' else ''),
                     'series_rows_eq_depth' if n == depth else 'series_rows_ne_depth',
                     'order:' + order[0], 'outcome:' + ('raise' if out[0] == 'exn' else 'ok')] + (
                     ['family:' + inp['family']] if inp.get('family') else []) + (['assign:' + assign] if assign else []) + (
                     ['derived_series'] + ['derived_by:' + self._pre_name(st) for st in inp['pre']] if inp.get('pre') else []) + (
                     ['operand_derived_by:' + self._pre_name(st) for st in opd.get('pre') or []]) + (
                     ['operand:the_same_series_object'] if opd.get('same') else []),
        }

    @staticmethod
    def _pre_name(st):
        if st['k'] == 'map':
            return '%s:%s' % (st.get('via', 'matmul'), st['f'])
        if st['k'] == 'op':
            return 'operator:' + ('x%scol' if st.get('refl') else 'col%sx') % SYM[st['op']]
        return st['k'] + (':' + st['f'] if st.get('f') else '')

    def _apply_series_pre(self, col, pre):
        """derive a series column from the series column col, step by step; -> (column, None) or (None, what is wrong
        with a mapped column: `col @ f` / map_(f, col) must have the rows of col and hold f(cell_i))
           {'k': 'map', 'f': name in SFUNCS, 'via': 'matmul' | 'map_'}
           {'k': 'op', 'op': .., 'refl': .., 'x': encoded scalar}          the result of another operator
           {'k': 'fn', 'f': 'endlock' | 'window' | 'downsample', ...}      the result of a series function
           {'k': 'samples', 'a': .., 'b': ..}                              col[:, a:b]"""
        from datamatrix import functional as fnc, series as srs
        from datamatrix._datamatrix._seriescolumn import _SeriesColumn
        for st in pre:
            if st['k'] == 'map':
                f = SFUNCS[st['f']][0]
                src_rows = [np.array(col._seq[i], dtype=float) for i in range(len(col))]
                src_ids = [int(i) for i in col._rowid]
                r = fnc.map_(f, col) if st.get('via') == 'map_' else (col @ f)
                if not isinstance(r, _SeriesColumn):
                    return None, 'mapping %s over a series column gives a %s' % (st['f'], type(r).__name__)
                if len(r) != len(src_rows) or [int(i) for i in r._rowid] != src_ids:
                    return None, ('the column mapped with %s has %d rows (ids %r), the source has %d (ids %r)' % (
                        st['f'], len(r), [int(i) for i in r._rowid], len(src_rows), src_ids))
                for i, row in enumerate(src_rows):
                    want = np.asarray(f(row), dtype=float)
                    got = np.asarray(r[i], dtype=float)
                    if want.shape != got.shape or not np.array_equal(want, got, equal_nan=True):
                        return None, 'row %d of col @ %s holds %r, f(cell) is %r' % (i, st['f'], got.tolist(), want.tolist())
                col = r
            elif st['k'] == 'op':
                v = pyobs.dec(st['x'])
                col = PYOP[st['op']](v, col) if st.get('refl') else PYOP[st['op']](col, v)
            elif st['k'] == 'fn':
                if st['f'] == 'endlock':
                    col = srs.endlock(col)
                elif st['f'] == 'window':
                    col = srs.window(col, start=st['a'], end=st['b'])
                elif st['f'] == 'downsample':
                    col = srs.downsample(col, st['by'])
                else:
                    raise AssertionError(st)
            elif st['k'] == 'samples':
                col = col[:, st['a']:st['b']]
            else:
                raise AssertionError(st)
        return col, None

    def _series_pre_steps(self, rng, depth, keep_depth):
        """-> (steps, depth of the derived column).  The first step is mostly a map with a function that does not
        return a float64 array"""
        steps = []
        for i in range(rng.choice([1, 1, 1, 2])):
            c = rng.random()
            if c < 0.7 or (i == 0 and c < 0.8):
                f = rng.choice(SFUNCS_SAME_DEPTH if (keep_depth or rng.random() < 0.8) else ['half_depth', 'twice_depth'])
                steps.append({'k': 'map', 'f': f, 'via': rng.choice(['matmul', 'map_'])})
                depth = SFUNCS[f][1](depth)
            elif c < 0.85:
                opn = rng.choice(['Mul', 'Add', 'Sub'])
                steps.append({'k': 'op', 'op': opn, 'refl': rng.random() < 0.5, 'x': pyobs.enc(rng.choice([2, -1, 0.5, 1, 3]))})
            elif c < 0.92 or keep_depth or depth < 3:
                steps.append({'k': 'fn', 'f': 'endlock'})
            elif c < 0.96:
                a = rng.randint(0, depth - 2)
                b = rng.randint(a + 2, depth)
                steps.append({'k': rng.choice(['samples', 'fn']), 'f': 'window', 'a': a, 'b': b})
                if steps[-1]['k'] == 'samples':
                    del steps[-1]['f']
                depth = b - a
            else:
                steps.append({'k': 'fn', 'f': 'downsample', 'by': 2})
                depth = depth // 2
        return steps, depth

    def _derived_series_case(self, rng, op, refl, form, order):
        """arithmetic on a DERIVED series column (never assigned to the table in between), as left and right operand, with
        scalar / per-row / per-sample / matrix / Float- / IntColumn operands and with another series column (plain, derived
        the same way, or the very same object: mapped + mapped)"""
        base_form = 'mat' if form in ('series', 'series_derived', 'same') else form
        inp = self._series_case(rng, op, refl, base_form, order)
        depth = inp['depth']
        keep = base_form in ('vec_sample', 'mat') and form != 'same'
        # per-row vs per-sample is decided by the lengths: a depth-changing derivation could turn one into the other
        keep = keep or base_form == 'vec_row'
        inp['pre'], d2 = self._series_pre_steps(rng, depth, keep)
        if d2 < 2:
            inp['pre'], d2 = [{'k': 'map', 'f': 'rank', 'via': 'matmul'}], depth
        if form in ('series', 'series_derived'):
            opd = {'t': 'series', 'vss': [[pyobs.enc(float(pyobs.dec(v))) for v in row] for row in inp['operand']['vss']]}
            # the operand series has one row per table row (the column-level slice is taken from both)
            nrows = len(inp['rows'])
            while len(opd['vss']) < nrows:
                opd['vss'].append(list(opd['vss'][rng.randrange(len(opd['vss']))]))
            if form == 'series_derived':
                opd['pre'], _d = self._series_pre_steps(rng, depth, True)
            inp['operand'] = opd
        elif form == 'same':
            inp['operand'] = {'t': 'series', 'same': True}
        if INCLUDE_PENDING_SERIES_MAP_SLICE and inp['order'][0] in ('colslice', 'colrange') and rng.random() < 0.5:
            inp['slice_first'] = True
        inp['family'] = 'derived_series'
        return inp

    def _series_case(self, rng, op, refl, form, order):
        n = rng.choice([2, 3, 4])
        depth = rng.choice([2, 3, 4, 5])
        ordv = None
        m = n
        if order in ('colslice', 'colrange'):
            # a column-level slice of a longer table; often exactly `depth` rows long (a per-row operand then has the
            # length of a per-sample operand: per row must win)
            n = rng.choice([3, 4, 5, 6])
            m = rng.choice([2, 3, min(n - 1, 4)])
            depth = m if rng.random() < 0.7 else rng.choice([2, 3, 4, 5])
            if order == 'colslice':
                idx = list(range(n))
                rng.shuffle(idx)
                ordv = ['colslice', idx[:m]]
            else:
                a = rng.randint(0, n - m)
                ordv = ['colrange', a, a + m]
        if form == 'vec_sample':
            while depth == m:
                depth = rng.choice([2, 3, 4, 5])

        def val(pos):
            # pos: 'cell' or 'x'; divisors non-zero (mostly powers of two for /), small integer exponents
            second = (pos == 'x') != refl
            if op == 'Pow':
                return rng.choice([0, 1, 2, 3, -1, 2.0]) if second else rng.choice([2, -2, 4, 0.5, 1, 3, -1.5, 8])
            if second and op == 'Truediv':
                return rng.choice([1, 2, -2, 4, 0.5, -0.25, 8, 3])
            v = self._num(rng, 'KFloat', nonzero=second and op in ('Floordiv', 'Mod'))
            return v
        rows = [[float(val('cell')) if rng.random() > 0.08 else NAN for _ in range(depth)] for _ in range(n)]
        if form == 'scalar':
            opd = {'t': 'scalar', 'v': pyobs.enc(val('x'))}
        elif form in ('vec_row', 'vec_sample'):
            k = m if form == 'vec_row' else depth
            opd = {'t': 'vec', 'as': rng.choice(['list', 'tuple'] + ([] if refl else ['array'])),
                   'vs': [pyobs.enc(val('x')) for _ in range(k)]}
        elif form in ('col_KFloat', 'col_KInt'):
            vs = [val('x') for _ in range(n)]
            if form == 'col_KInt':
                vs = [int(v) or 1 for v in vs]
            opd = {'t': 'col', 'kind': form[4:], 'vs': [pyobs.enc(v) for v in vs]}
        else:
            opd = {'t': 'mat', 'as': 'list' if refl else rng.choice(['list', 'array']),
                   'vss': [[pyobs.enc(val('x')) for _ in range(depth)] for _ in range(m)]}
        return {'mode': 'series', 'depth': depth, 'rows': [[pyobs.enc(v) for v in row] for row in rows], 'op': op,
                'refl': refl, 'operand': opd, 'order': ordv or self._order(rng, n, order)}

    # ---- generator ------------------------------------------------------
    def _num(self, rng, kind, nonzero=False, small=False):
        while True:
            c = rng.random()
            if kind == 'KInt' or c < 0.45:
                v = rng.choice([rng.randint(-6, 6), rng.randint(-12, 12), rng.choice([1, 2, -2, 4, 8, -1, 3])])
            elif c < 0.9:
                v = rng.randint(-40, 40) / float(rng.choice([2, 4, 8]))
            else:
                v = float(rng.choice([2, 4, -2, 0.5, 0.25, 1, -1, 3, -8]))
            if small and abs(v) > 4:
                continue
            if nonzero and v == 0:
                continue
            return v

    def _cells(self, rng, kind, n, op, refl):
        """cells of the column: for / // % as divisor (refl) they are non-zero; for ** exponents are small ints"""
        out = []
        for _ in range(n):
            c = rng.random()
            if kind == 'KMixed' and c < 0.3:
                out.append(rng.choice(['a', 'b c', '', 'é', None, None, NAN, 'x']))
                continue
            if kind == 'KFloat' and c < 0.2:
                out.append(rng.choice([NAN, None, 'a']))          # all stored as NaN
                continue
            divisor = refl and op in ('Truediv', 'Floordiv', 'Mod')
            if op == 'Pow':
                if refl:      # cells are exponents
                    v = rng.choice([0, 1, 2, 3, 2, 1]) if kind == 'KInt' else rng.choice([0, 1, 2, 3, -1, -2, 2.0, 0.5])
                else:
                    v = self._num(rng, kind, small=True)
                    if rng.random() < 0.3:
                        v = rng.choice([2, -2, 4, 1, -1, 0.5, 8] if kind != 'KInt' else [2, -2, 4, 1, -1, 3])
            elif divisor and op == 'Truediv' and rng.random() < 0.75:
                v = rng.choice([1, 2, -2, 4, 8, -1, -4] if kind == 'KInt' else [1, 2, -2, 4, 0.5, -0.25, 8, -1, 1.0, -4.0])
            else:
                v = self._num(rng, kind, nonzero=divisor)
            out.append(v)
        return out

    def _scalar(self, rng, kind, op, refl, cls):
        divisor = (not refl) and op in ('Truediv', 'Floordiv', 'Mod')
        if op == 'Pow' and not refl:
            n = rng.choice([0, 1, 2, 3, 2]) if kind == 'KInt' else rng.choice([0, 1, 2, 3, -1, -2])
        elif op == 'Pow':
            n = rng.choice([2, -2, 4, 1, 3, 0.5, -1]) if kind != 'KInt' else rng.choice([2, -2, 1, 3, -1])
        elif divisor and op == 'Truediv' and rng.random() < 0.75:
            n = rng.choice([1, 2, -2, 4, 8, -1, -4] if (kind == 'KInt' or cls in ('int', 'np_int64', 'bool'))
                           else [1, 2, -2, 4, 0.5, -0.25, 8, -1, 1.0, -4.0])
        else:
            n = self._num(rng, 'KInt' if cls in ('int', 'np_int64', 'bool') else kind, nonzero=divisor)
        if cls == 'int':
            return int(n) if float(n) == int(n) else (int(n) or 1)
        if cls == 'float':
            return float(n) if op == 'Pow' else (float(n) if rng.random() < 0.5 else self._num(rng, 'KFloat', nonzero=divisor) * 1.0)
        if cls == 'bool':
            return True
        if cls == 'numeric_text':
            return rng.choice(['%s', ' %s', '%s ']) % (repr(n) if rng.random() < 0.7 else repr(float(n)))
        if cls == 'text':
            return rng.choice(['x', 'é', '', 'p q'])
        if cls == 'none':
            return None
        if cls == 'np_int64':
            return np.int64(int(n) or 1)
        if cls == 'np_float64':
            return np.float64(n)
        if cls == 'np_float32':
            return np.float32(n)
        raise AssertionError(cls)

    def _order(self, rng, n, which):
        if which == 'natural' or n == 0:
            return ['natural']
        if which == 'reversed':
            return ['reversed']
        if which == 'perm':
            p = list(range(n))
            rng.shuffle(p)
            return ['perm', p]
        if which == 'colslice':
            idx = [i for i in range(n) if rng.random() < 0.7]
            rng.shuffle(idx)
            return ['colslice', idx]
        keys = list(range(n))
        rng.shuffle(keys)
        return ['sorted', keys]

    def _case(self, rng, kind, op, refl, form, order, n, judge=True):
        cells = self._cells(rng, kind, n, op, refl)
        ordv = self._order(rng, n, order)
        m = len(ordv[1]) if ordv[0] == 'colslice' else n
        if form in ('list', 'tuple'):
            vs = [self._scalar(rng, kind, op, refl, rng.choice(
                ['int', 'float', 'int', 'float', 'numeric_text'] + (['text', 'none'] if kind != 'KInt' else [])))
                for _ in range(m)]
            opd = {'t': 'seq', 'as': form, 'vs': [pyobs.enc(v) for v in vs]}
        elif form.startswith('col_'):
            k2 = form[4:]
            # the operand column's cells: divisors / exponents like a scalar operand
            vs = []
            for _ in range(n):
                v = self._scalar(rng, k2 if k2 != 'KMixed' else kind, op, refl, 'int' if k2 == 'KInt' else rng.choice(['int', 'float']))
                if k2 == 'KMixed' and kind != 'KInt' and rng.random() < 0.2:
                    v = rng.choice(['t', None, 'u v'])
                if k2 == 'KFloat' and kind != 'KInt' and rng.random() < 0.1:
                    v = NAN
                vs.append(v)
            opd = {'t': 'col', 'kind': k2, 'cells': [pyobs.enc(v) for v in vs]}
        else:
            opd = {'t': 'scalar', 'v': pyobs.enc(self._scalar(rng, kind, op, refl, form))}
        inp = {'kind': kind, 'cells': [pyobs.enc(v) for v in cells], 'op': op, 'refl': refl, 'operand': opd,
               'order': ordv}
        if kind == 'KMixed' and order == 'colslice' and rng.random() < 0.5 or kind == 'KMixed' and rng.random() < 0.08:
            inp['pre'] = True
        if not judge:
            inp['judge'] = False
        return inp

    # ---- values on which IEEE rounding is visible (judged by the IEEE instance; the exact one skips most) ----
    def _rnum(self, rng, cls, divisor=False, nobig=False):
        """cls: 'int' | 'float' | 'any'; a zero divisor is kept in ~6 % of the draws (judged by the L1 model only);
        nobig: no finite float beyond 2^63 (a MixedColumn stores an integral float as an int: 1e308 would be a
        309-digit int literal, which costs Coq's number parser ~0.1 s each)"""
        while True:
            if cls == 'int' or (cls == 'any' and rng.random() < 0.3):
                v = rng.choice(RINTS) if rng.random() < 0.8 else rng.randint(-9, 9)
            else:
                v = rng.choice(RFLOATS)
                if rng.random() < 0.15:
                    v = v * rng.choice([3.0, 0.1, -7.0, 1e-3])
            if divisor and v == 0 and rng.random() > 0.06:
                continue
            if nobig and isinstance(v, float) and 2.0 ** 63 <= abs(v) < INF:
                continue
            return v

    def _rcells(self, rng, kind, n, divisor):
        out = []
        for _ in range(n):
            c = rng.random()
            if kind == 'KMixed' and c < 0.12:
                out.append(rng.choice(['a', '', None, 'x y']))
            elif kind == 'KInt':
                out.append(self._rnum(rng, 'int', divisor))
            else:
                out.append(self._rnum(rng, 'any', divisor, nobig=(kind == 'KMixed')))
        return out

    def _round_case(self, rng, kind, op, refl, form, order, n):
        cell_div = refl and op in ('Truediv', 'Floordiv', 'Mod')
        x_div = (not refl) and op in ('Truediv', 'Floordiv', 'Mod')
        cells = self._rcells(rng, kind, n, cell_div)
        ordv = self._order(rng, n, order)
        m = len(ordv[1]) if ordv[0] == 'colslice' else n

        nobig = kind == 'KMixed' or form == 'col_KMixed'
        # x / IntColumn: ints within 2**53 unless the pending finding is switched on
        small_ints = kind == 'KInt' and op == 'Truediv' and refl and not INCLUDE_PENDING_FINDINGS
        if small_ints:
            cells = [c if abs(c) <= 2 ** 53 else rng.choice([3, -7, 10]) for c in cells]

        def xval(cls):
            v = self._rnum(rng, cls, x_div, nobig=nobig)
            while small_ints and abs(v) > 2 ** 53:
                v = self._rnum(rng, cls, x_div, nobig=nobig)
            if kind == 'KInt' and isinstance(v, float) and (v != v or abs(v) == INF or abs(v) >= 2.0 ** 62):
                v = 0.7                     # IntColumn refuses nan / inf operands (C05's business)
            return v
        if form in ('list', 'tuple'):
            opd = {'t': 'seq', 'as': form, 'vs': [pyobs.enc(xval('any')) for _ in range(m)]}
        elif form.startswith('col_'):
            k2 = form[4:]
            vs = [xval('int' if k2 == 'KInt' else 'any') for _ in range(n)]
            if k2 == 'KInt':
                vs = [int(v) for v in vs]
            opd = {'t': 'col', 'kind': k2, 'cells': [pyobs.enc(v) for v in vs]}
        else:
            v = xval('int' if form in ('int', 'np_int64') else 'float')
            if form == 'np_int64':
                v = np.int64(v)
            elif form == 'np_float64':
                v = np.float64(v)
            elif form == 'np_float32':
                v = np.float32(v if abs(v) < 1e38 or v != v or abs(v) == INF else 0.1)
            elif form == 'numeric_text':
                v = repr(v) if (v == v and abs(v) != INF) else '0.1'
            opd = {'t': 'scalar', 'v': pyobs.enc(v)}
        return {'kind': kind, 'cells': [pyobs.enc(v) for v in cells], 'op': op, 'refl': refl, 'operand': opd,
                'order': ordv, 'family': 'rounding'}

    def _round_series_case(self, rng, op, refl, form, order):
        n, depth = rng.choice([2, 3]), rng.choice([2, 4])
        x_div = (not refl) and op in ('Truediv', 'Floordiv', 'Mod')
        cell_div = refl and op in ('Truediv', 'Floordiv', 'Mod')
        rows = [[float(self._rnum(rng, 'float', cell_div)) for _ in range(depth)] for _ in range(n)]
        if form == 'scalar':
            opd = {'t': 'scalar', 'v': pyobs.enc(self._rnum(rng, 'any', x_div))}
        elif form in ('vec_row', 'vec_sample'):
            if form == 'vec_sample':
                depth = 4 if n != 4 else 5
                rows = [[float(self._rnum(rng, 'float', cell_div)) for _ in range(depth)] for _ in range(n)]
            k = n if form == 'vec_row' else depth
            opd = {'t': 'vec', 'as': rng.choice(['list', 'tuple'] + ([] if refl else ['array'])),
                   'vs': [pyobs.enc(self._rnum(rng, 'any', x_div)) for _ in range(k)]}
        elif form in ('col_KFloat', 'col_KInt'):
            vs = [self._rnum(rng, 'int' if form == 'col_KInt' else 'any', x_div) for _ in range(n)]
            opd = {'t': 'col', 'kind': form[4:], 'vs': [pyobs.enc(v) for v in vs]}
        else:
            opd = {'t': 'mat', 'as': 'list' if refl else rng.choice(['list', 'array']),
                   'vss': [[pyobs.enc(float(self._rnum(rng, 'float', x_div))) for _ in range(depth)] for _ in range(n)]}
        return {'mode': 'series', 'depth': depth, 'rows': [[pyobs.enc(v) for v in row] for row in rows], 'op': op,
                'refl': refl, 'operand': opd, 'order': self._order(rng, n, order), 'family': 'rounding'}

    # ---- IntColumn / MixedColumn ** with integer results between 2**53 and 2**62 (exact in int64 and in Python ints,
    #      not representable as binary64: 7**20, 3**35, (-3)**39 ...), both operand orders
    BIG_BASES = [3, -3, 5, -5, 6, 7, -7, 9, 11, -11, 12, 13, 15, -15, 21, 2, -2]

    def _big_exps(self, b):
        """exponents e with 2**53 < |b|**e < 2**62"""
        return [e for e in range(2, 62) if 2 ** 53 < abs(b) ** e < 2 ** 62]

    @staticmethod
    def _row_sources(ordv, n):
        """for every position of the column operand (after _build / _cols): the index of its cell in inp['cells']"""
        if ordv[0] == 'reversed':
            return list(range(n - 1, -1, -1))
        if ordv[0] in ('perm', 'colslice'):
            return list(ordv[1])
        if ordv[0] == 'sorted':
            return sorted(range(n), key=lambda i: ordv[1][i])
        return list(range(n))

    def _bigpow_case(self, rng, kind, refl, form, order, n):
        ordv = self._order(rng, n, order)
        m = len(ordv[1]) if ordv[0] == 'colslice' else n

        def pair():
            c = rng.random()
            if c < 0.15:
                return rng.choice([0, 1, -1, 2, 3, -4]), rng.choice([0, 1, 2, 3])
            b = rng.choice(self.BIG_BASES)
            es = self._big_exps(b)
            if c < 0.3:
                return b, rng.randint(0, es[0] - 1)            # below 2**53
            return b, rng.choice(es)
        shared = form in ('int', 'np_int64')
        if shared and not refl:
            # col ** e: one exponent, bases for which |b|**e stays below 2**62 (most of them beyond 2**53)
            e = rng.choice([17, 19, 20, 21, 22, 23, 25, 26, 34, 35, 37, 39])
            top = max(b for b in range(2, 40) if b ** e < 2 ** 62)
            cand = [b for b in range(-top, top + 1) if b not in (2, -2, 4, -4, 8, -8)]
            big = [b for b in cand if abs(b) ** e > 2 ** 53]
            bases = [rng.choice(big) if rng.random() < 0.7 else rng.choice(cand) for _ in range(n)]
            exps = e
        elif shared:
            # b ** col: one base, exponents
            b = rng.choice([v for v in self.BIG_BASES if abs(v) > 2])
            es = self._big_exps(b)
            exps = [rng.choice(es) if rng.random() < 0.7 else rng.randint(0, es[-1]) for _ in range(n)]
            bases = b
        else:
            ps = [pair() for _ in range(n)]
            bases, exps = [p[0] for p in ps], [p[1] for p in ps]
        cells, xs = (exps, bases) if refl else (bases, exps)
        if kind == 'KMixed':
            cells = [v if rng.random() > 0.12 else rng.choice(['a', None, '']) for v in cells]
        if shared:
            v = np.int64(xs) if form == 'np_int64' else xs
            opd = {'t': 'scalar', 'v': pyobs.enc(v)}
        elif form in ('list', 'tuple'):
            # a sequence operand is applied by position to the rows as they are ordered when the operation is made:
            # item i is the one drawn for the cell that sits in position i then
            vs = [xs[j] for j in self._row_sources(ordv, n)]
            opd = {'t': 'seq', 'as': form, 'vs': [pyobs.enc(v) for v in vs]}
        else:
            opd = {'t': 'col', 'kind': form[4:], 'cells': [pyobs.enc(v) for v in xs]}
        return {'kind': kind, 'cells': [pyobs.enc(v) for v in cells], 'op': 'Pow', 'refl': refl, 'operand': opd,
                'order': ordv, 'family': 'bigpow'}

    # ---- arithmetic / map directly on a DERIVED column (result of col @ f, map_(f, col) or of an earlier operation,
    #      not assigned to the table in between): cells that are NumPy scalars, Python floats with integral values,
    #      negative zeros
    def _pre_steps(self, rng, kind, m):
        """how the column is derived before the judged operation (m = its length)"""
        via = rng.choice(['matmul', 'map_'])
        if kind == 'KMixed':
            f = rng.choice(['np_abs', 'np_neg', 'np_scalar', 'np_int_only', 'np_double', 'np_scalar', 'np_abs', 'pyfloat'])
            steps = [{'k': 'map', 'f': f, 'via': via}]
            if rng.random() < 0.2:
                steps.append({'k': 'map', 'f': rng.choice(['np_neg', 'np_int_only']), 'via': 'matmul'})
            return steps
        c = rng.random()
        if c < 0.4:
            return [{'k': 'map', 'f': rng.choice(['np_abs', 'np_neg', 'np_scalar', 'np_double']), 'via': via}]
        if c < 0.8 and kind == 'KFloat':
            # a sign per row: zeros become negative zeros
            return [{'k': 'op', 'op': 'Mul', 'refl': rng.random() < 0.5,
                     'x': {'t': 'seq', 'vs': [pyobs.enc(rng.choice([1, -1, -1.0])) for _ in range(m)]}}]
        return [{'k': 'op', 'op': rng.choice(['Mul', 'Add', 'Sub']), 'refl': rng.random() < 0.5,
                 'x': {'t': 'scalar', 'v': pyobs.enc(rng.choice([1, -1, 2]) if kind == 'KInt' else rng.choice([1, -1.0, 0.5]))}}]

    def _derived_case(self, rng, kind, op, refl, form, order, n):
        inp = self._case(rng, kind, op, refl, form, order, n)
        ordv = inp['order']
        m = len(ordv[1]) if ordv[0] == 'colslice' else n
        if kind == 'KFloat' and op != 'Pow' and not (refl and op in ('Truediv', 'Floordiv', 'Mod')) and n:
            # some zero cells (they may become negative zeros)
            for i in range(n):
                if rng.random() < 0.3:
                    inp['cells'][i] = pyobs.enc(0.0)
        inp['pre'] = self._pre_steps(rng, kind, m)
        if op == 'Pow' and kind == 'KMixed' and not INCLUDE_PENDING_NP_NEGPOW:
            # a NumPy integer to a negative integer power is refused by NumPy (ValueError) where Python yields a
            # float: exponents are made non-negative here (int ** negative int is covered on plain cells)
            def fix(e):
                v = pyobs.dec(e)
                if isnum(v) and v < 0:
                    return pyobs.enc(type(v)(-v))
                if isinstance(v, str):
                    try:
                        return pyobs.enc(abs(float(v))) if float(v) < 0 else e
                    except ValueError:
                        return e
                return e
            if refl:
                inp['cells'] = [fix(e) for e in inp['cells']]
                inp['pre'] = [st for st in inp['pre'] if st.get('f') != 'np_neg']
            else:
                o = inp['operand']
                if o['t'] == 'scalar':
                    o['v'] = fix(o['v'])
                elif o['t'] == 'seq':
                    o['vs'] = [fix(e) for e in o['vs']]
                else:
                    o['cells'] = [fix(e) for e in o['cells']]
            if not inp['pre']:
                inp['pre'] = [{'k': 'map', 'f': 'np_scalar', 'via': 'matmul'}]
        o = inp['operand']
        if o['t'] == 'col' and rng.random() < 0.6:
            # the operand column is derived too (and, one time in four, only the operand column)
            o['pre'] = [st for st in self._pre_steps(rng, o['kind'], m)
                        if not (op == 'Pow' and st.get('f') == 'np_neg')
                        and not (st['k'] == 'op' and st['op'] != 'Mul')]          # divisors stay non-zero
            if op == 'Pow':
                # the operand column holds the exponents: no step that changes their sign (a NumPy integer to a negative
                # integer power is refused by NumPy, see INCLUDE_PENDING_NP_NEGPOW)
                o['pre'] = [{'k': 'map', 'f': rng.choice(['np_scalar', 'np_abs']), 'via': rng.choice(['matmul', 'map_'])}]
            if not o['pre']:
                o['pre'] = [{'k': 'map', 'f': 'np_scalar', 'via': 'matmul'}]
            if rng.random() < 0.25 and not (op == 'Pow' and kind == 'KMixed'):
                del inp['pre']
        inp['family'] = 'derived'
        return inp

    @staticmethod
    def _both_zeros(cells):
        z = [math.copysign(1.0, v) for v in cells if isinstance(v, float) and v == 0]
        return 1.0 in z and -1.0 in z

    @staticmethod
    def _int_and_float(cells):
        ints = [v for v in cells if type(v) is int]
        return any(isinstance(v, float) and v in ints for v in cells)

    def _eqcells_case(self, rng, kind, fname, via, order, n):
        """col @ f / map_(f, col) on a column holding cells that compare equal but are told apart by f: +0.0 and -0.0
        (FloatColumn, MixedColumn), k and float(k) (MixedColumn).  Such cells cannot be assigned (type checking turns
        -0.0 into 0 and 3.0 into 3): the column is the product of an assigned column with per-row factors."""
        ordv = self._order(rng, n, order)
        m = len(ordv[1]) if ordv[0] == 'colslice' else n
        vals = [0, 0, 0, rng.choice([3, 2, -1]), rng.choice([3, 2.5, -4])]
        cells = [rng.choice(vals) for _ in range(n)]
        if kind == 'KMixed':
            cells = [v if rng.random() > 0.1 else rng.choice(['a', None]) for v in cells]
        src = self._row_sources(ordv, n)            # position in the derived column -> index of its cell
        p1, p2 = rng.sample(range(m), 2) if m >= 2 else (None, None)
        if kind == 'KFloat':
            fs = [rng.choice([1, -1]) for _ in range(m)]
            if p1 is not None and rng.random() < 0.85:
                # two zero cells with opposite signs, in either order
                cells[src[p1]] = cells[src[p2]] = 0
                fs[p1], fs[p2] = 1, -1
            steps = [{'k': 'op', 'op': 'Mul', 'refl': rng.random() < 0.5,
                      'x': {'t': 'seq', 'vs': [pyobs.enc(v) for v in fs]}}]
            if rng.random() < 0.25:
                steps.append({'k': 'op', 'op': 'Mul', 'refl': False,
                              'x': {'t': 'scalar', 'v': pyobs.enc(rng.choice([1.0, -1.0, 2]))}})
        else:
            # * 0.5 * 2 (or * -0.5 * 2) turns an int cell into the equal float, a zero into 0.0 / -0.0; * 1 * 1 keeps the int
            fs = [rng.choice([1, 0.5, -0.5, 0.5]) for _ in range(m)]
            if p1 is not None and rng.random() < 0.85:
                v = rng.choice([0, 0, 3])
                cells[src[p1]] = cells[src[p2]] = v
                fs[p1], fs[p2] = rng.choice([(1, 0.5), (1, -0.5), (0.5, -0.5)] if v == 0 else [(1, 0.5)])
                if rng.random() < 0.5:
                    fs[p1], fs[p2] = fs[p2], fs[p1]
            steps = [{'k': 'op', 'op': 'Mul', 'refl': rng.random() < 0.5, 'x': {'t': 'seq', 'vs': [pyobs.enc(v) for v in fs]}},
                     {'k': 'op', 'op': 'Mul', 'refl': rng.random() < 0.5,
                      'x': {'t': 'seq', 'vs': [pyobs.enc(1 if v == 1 else 2) for v in fs]}}]
        return {'mode': 'map', 'kind': kind, 'cells': [pyobs.enc(v) for v in cells], 'f': fname, 'via': via,
                'order': ordv, 'pre': steps, 'family': 'eqcells'}

    # ---- MixedColumn `+` between text and numbers whose str() is not what a float conversion would give
    TEXTCAT_FORMS = ['text', 'text', 'int', 'float', 'numeric_text', 'list', 'tuple']
    TEXTCAT_FORMS_COL = ['np_int64', 'np_float64', 'col_KMixed', 'col_KMixed', 'col_KInt', 'col_KFloat']

    def _textcat_case(self, rng, refl, form, order, n):
        """text + number / number + text (refl: the operand on the left): big ints, floats with 17 significant digits,
        -0.0, 1e22, nan / inf as cells, as scalar, as items of a list / tuple, as cells of a Mixed- / Int- / FloatColumn
        operand.  Rows where both sides are numbers (ordinary addition) and both are text are mixed in."""
        ordv = self._order(rng, n, order)
        m = len(ordv[1]) if ordv[0] == 'colslice' else n
        npish = form in ('np_int64', 'np_float64', 'col_KInt', 'col_KFloat')
        pre = None
        if form == 'text' and rng.random() < 0.3:
            # cells that are NumPy scalars (a derived column): np.int64(2**53 + 1) is written with all its digits too
            pre = [{'k': 'map', 'f': rng.choice(['np_scalar', 'np_int_only']), 'via': rng.choice(['matmul', 'map_'])}]

        def number(cls='any', py_only=True):
            if cls == 'int' or (cls == 'any' and rng.random() < 0.6):
                c = rng.random()
                if py_only and c < 0.15:
                    return rng.choice(TBEYOND)
                return rng.choice(TBIGINTS) if c < 0.9 else rng.randint(-12, 12)
            return rng.choice(TFLOATS)

        def text():
            return rng.choice(TTEXTS) if rng.random() > 0.1 else None

        def small():
            return rng.choice([0, 1, -3, 7, 12, 2.5])
        if form == 'text':
            cells = [number(py_only=pre is None) if rng.random() < 0.8 else text() for _ in range(n)]
            opd = {'t': 'scalar', 'v': pyobs.enc(rng.choice(TTEXTS))}
        elif form in ('int', 'float', 'numeric_text', 'np_int64', 'np_float64'):
            # a number + NumPy scalar is NumPy's arithmetic (int64 overflow): number cells stay small there
            cells = [text() if rng.random() < 0.8 else (small() if npish else number()) for _ in range(n)]
            if form == 'int':
                v = number('int')
            elif form == 'float':
                v = number('float')
            elif form == 'np_int64':
                v = np.int64(number('int', py_only=False))
            elif form == 'np_float64':
                v = np.float64(number('float'))
            else:
                v = number('any')
                v = rng.choice(['%s', ' %s', '%s ']) % repr(v if (v == v and abs(v) != INF) else rng.choice(TBIGINTS))
            opd = {'t': 'scalar', 'v': pyobs.enc(v)}
        else:
            cells, xs = [], []
            for _ in range(n):
                c = rng.random()
                if form in ('col_KInt', 'col_KFloat'):
                    cells.append(text() if c < 0.85 else small())
                    xs.append(number('int', py_only=False) if form == 'col_KInt' else number('float'))
                elif c < 0.42:
                    cells.append(number())
                    xs.append(text())
                elif c < 0.84:
                    cells.append(text())
                    xs.append(number())
                elif c < 0.92:
                    cells.append(text())
                    xs.append(text())
                else:
                    cells.append(number())
                    xs.append(number())
            if form in ('list', 'tuple'):
                # item i meets the cell that sits in position i when the operation is made
                src = self._row_sources(ordv, n)
                opd = {'t': 'seq', 'as': form, 'vs': [pyobs.enc(xs[j]) for j in src]}
            else:
                opd = {'t': 'col', 'kind': form[4:], 'cells': [pyobs.enc(v) for v in xs]}
        inp = {'kind': 'KMixed', 'cells': [pyobs.enc(v) for v in cells], 'op': 'Add', 'refl': refl, 'operand': opd,
               'order': ordv, 'family': 'textcat'}
        if pre:
            inp['pre'] = pre
        return inp

    # ---- the result assigned back ON THE SAME TABLE under the name of an operand (or of a second name of it) while
    #      the operand column objects are held: result i in row i, and the operands still read their original cells
    ASSIGN_MODES = ['self', 'alias', 'other', 'alias_other']

    def _assign_case(self, rng, kind, op, refl, assign, order, n):
        if assign in ('other', 'alias_other'):
            form = 'col_' + kind            # the operand column has the type of the result
        else:
            form = rng.choice(self.forms(kind, op, refl))
            if refl and form == 'text' and op == 'Mod':
                form = 'int'
        if op in ROPS and rng.random() < 0.25 and form in self.round_forms(refl):
            inp = self._round_case(rng, kind, op, refl, form, order, n)
        else:
            inp = self._case(rng, kind, op, refl, form, order, n)
        inp.pop('pre', None)
        inp['assign'] = assign
        inp['family'] = 'assignback'
        return inp

    def round_forms(self, refl):
        fs = ['int', 'float', 'float', 'numeric_text', 'list', 'tuple']
        if not refl:
            fs += ['np_int64', 'np_float64', 'np_float32', 'col_KMixed', 'col_KFloat', 'col_KInt']
        return fs

    def forms(self, kind, op, refl):
        fs = ['int', 'float', 'bool', 'numeric_text', 'list', 'tuple']
        if refl and op == 'Mod':
            fs.remove('numeric_text')   # 'x' % col is string formatting, not the column's method
        else:
            fs.append('text')
        if kind != 'KInt' or True:
            fs.append('none')
        if not refl:
            fs += ['np_int64', 'np_float64', 'np_float32', 'col_KMixed', 'col_KFloat', 'col_KInt']
        return fs

    def generate(self, rng, tier):
        import datamatrix._datamatrix._basecolumn as bc
        import datamatrix._datamatrix._numericcolumn as nc
        assert not bc.fastnumbers and nc.fastnumbers is None, 'fastnumbers present: kernels assume it is not'
        cases = []

        def add(inp):
            c = self.rerun(inp)
            if c is not None:
                cases.append(c)
        orders = ['natural', 'reversed', 'perm', 'sorted']
        reps = 1 if tier == 'quick' else 4
        for kind in KINDS:
            for op in OPS:
                for refl in (False, True):
                    for form in self.forms(kind, op, refl):
                        for order in orders:
                            for _ in range(reps):
                                n = rng.choice([3, 4, 5]) if tier == 'quick' else rng.choice([1, 2, 4, 6, 9, 14])
                                if refl and form == 'text' and op == 'Mod':
                                    continue
                                add(self._case(rng, kind, op, refl, form, order, n))
        # free random cases (more rows, any combination)
        for _ in range(600 if tier == 'quick' else 6000):
            kind = rng.choice(KINDS)
            op = rng.choice(OPS)
            refl = rng.random() < 0.5
            form = rng.choice(self.forms(kind, op, refl))
            n = rng.choice([0, 1, 2, 3, 5, 8]) if tier == 'quick' else rng.choice([0, 1, 3, 7, 12, 20, 33])
            add(self._case(rng, kind, op, refl, form, rng.choice(orders + ['colslice']), n))
        # outside the quantifier (only the model is compared): wrong lengths
        for _ in range(120 if tier == 'quick' else 1200):
            kind = rng.choice(KINDS)
            op = rng.choice(OPS)
            refl = rng.random() < 0.5
            n = rng.choice([1, 2, 3, 4])
            inp = self._case(rng, kind, op, refl, rng.choice(['list', 'tuple']), 'natural', n, judge=False)
            vs = inp['operand']['vs']
            if rng.random() < 0.5 or not vs:
                vs.append(pyobs.enc(rng.choice([1, 2.5, 'zz', None])))
                if rng.random() < 0.3:
                    vs.append(pyobs.enc('zz'))
            else:
                vs.pop()
            add(inp)
        # IntColumn ** with negative exponents (NumPy refuses): model only
        for _ in range(30 if tier == 'quick' else 200):
            refl = rng.random() < 0.5
            inp = self._case(rng, 'KInt', 'Pow', refl, 'int', 'natural', 3, judge=False)
            if refl:
                inp['cells'][rng.randrange(3)] = pyobs.enc(-rng.randint(1, 3))
            else:
                inp['operand'] = {'t': 'scalar', 'v': pyobs.enc(-rng.randint(1, 3))}
            add(inp)
        # values on which IEEE rounding / overflow / subnormals / signed zeros are visible: every row is judged by the
        # IEEE-754 instance (0.1 + 0.2, 1 / 3, 2**53 + 1 as int and float, 5e-324, 1e308 * 10, inf - inf, 0.0 * inf)
        for kind in KINDS:
            for op in ROPS:
                for refl in (False, True):
                    for form in self.round_forms(refl):
                        for _ in range(1 if tier == 'quick' else 5):
                            if refl and form == 'numeric_text' and op == 'Mod':
                                continue            # 'x' % col is string formatting
                            add(self._round_case(rng, kind, op, refl, form, rng.choice(orders + ['colslice']),
                                                 rng.choice([3, 4, 6])))
        for op in ROPS:
            for refl in (False, True):
                for form in ['scalar', 'vec_row', 'vec_sample', 'mat'] + ([] if refl else ['col_KFloat', 'col_KInt']):
                    for _ in range(2 if tier == 'quick' else 8):
                        add(self._round_series_case(rng, op, refl, form, rng.choice(orders)))
        # SeriesColumn: scalar, per-row, per-sample, column and full-matrix operands
        for op in OPS:
            for refl in (False, True):
                for form in ['scalar', 'vec_row', 'vec_sample', 'mat'] + ([] if refl else ['col_KFloat', 'col_KInt']):
                    for order in orders + ['colslice', 'colrange']:
                        for _ in range(1 if tier == 'quick' else 6):
                            add(self._series_case(rng, op, refl, form, order))
        # ** with integer results between 2**53 and 2**62 (IntColumn: int64; MixedColumn: Python ints)
        for kind in ('KInt', 'KMixed'):
            for refl in (False, True):
                for form in ['int', 'list', 'tuple'] + ([] if refl else ['np_int64', 'col_KInt', 'col_KMixed']):
                    for order in orders + ['colslice']:
                        for _ in range(1 if tier == 'quick' else 4):
                            add(self._bigpow_case(rng, kind, refl, form, order, rng.choice([3, 4, 6])))
        # the operation applied directly to a derived column (NumPy-scalar cells, integral floats, negative zeros)
        for kind in KINDS:
            for op in OPS:
                for refl in (False, True):
                    fs = ['int', 'float', 'list', 'numeric_text'] + (['text', 'none'] if op == 'Add' else []) + (
                        [] if refl else ['np_int64', 'col_KMixed', 'col_KFloat', 'col_KInt'])
                    if refl and op == 'Mod':
                        fs.remove('numeric_text')
                    for form in fs:
                        for _ in range((2 if kind == 'KMixed' else 1) if tier == 'quick' else 6):
                            add(self._derived_case(rng, kind, op, refl, form, rng.choice(orders + ['colslice']),
                                                   rng.choice([3, 4, 6])))
        # the operation applied directly to a DERIVED SERIES column: col @ f / map_(f, col) with f returning bool / int /
        # float32 arrays or Python lists, results of other operators, of series functions, sample slices -- as left and
        # right operand with scalars, per-row, per-sample, matrix, column operands and other series columns
        sforms = ['scalar', 'vec_row', 'vec_sample', 'mat', 'series', 'series_derived', 'same', 'same']
        for op in OPS:
            for refl in (False, True):
                for form in sforms + ([] if refl else ['col_KFloat', 'col_KInt']):
                    for order in (['natural', rng.choice(['reversed', 'perm', 'sorted']), rng.choice(['colslice', 'colrange'])]
                                  if tier == 'quick' else orders + ['colslice', 'colrange']):
                        for _ in range(1 if tier == 'quick' else 4):
                            add(self._derived_series_case(rng, op, refl, form, order))
        # col @ f / map_(f, col) over cells that are equal but distinguishable (+0.0 / -0.0, 3 / 3.0)
        for kind in ('KFloat', 'KMixed'):
            for fname in SIGN_FUNCS:
                if kind == 'KFloat' and fname == 'kindname':
                    continue            # text cannot be held by a FloatColumn
                for via in ('matmul', 'map_'):
                    for order in orders + ['colslice']:
                        for _ in range(1 if tier == 'quick' else 4):
                            add(self._eqcells_case(rng, kind, fname, via, order, rng.choice([3, 4, 6])))
        # MixedColumn + between text and numbers that a float conversion would change (ints beyond 2**53, 17 digits)
        for refl in (False, True):
            for form in self.TEXTCAT_FORMS + ([] if refl else self.TEXTCAT_FORMS_COL):
                for order in orders + ['colslice']:
                    for _ in range(1 if tier == 'quick' else 5):
                        add(self._textcat_case(rng, refl, form, order, rng.choice([3, 4, 6])))
        # the result assigned back under the name of an operand / of a second name of an operand, operands held
        for kind in KINDS:
            for assign in self.ASSIGN_MODES:
                for op in OPS:
                    for refl in ((False,) if assign in ('other', 'alias_other') else (False, True)):
                        for _ in range(1 if tier == 'quick' else 4):
                            add(self._assign_case(rng, kind, op, refl, assign, rng.choice(orders), rng.choice([3, 4, 6])))
            for assign in ('self', 'alias'):
                for fname in rng.sample(sorted(FUNCS), 6 if tier == 'quick' else len(FUNCS)):
                    n = rng.choice([3, 4, 6])
                    add({'mode': 'map', 'kind': kind, 'cells': [pyobs.enc(v) for v in self._cells(rng, kind, n, 'Add', False)],
                         'f': fname, 'via': rng.choice(['matmul', 'map_']), 'order': self._order(rng, n, rng.choice(orders)),
                         'assign': assign, 'family': 'assignback'})
        for op in OPS:
            for refl in (False, True):
                for assign in ('self', 'alias'):
                    for _ in range(1 if tier == 'quick' else 4):
                        form = rng.choice(['scalar', 'vec_row', 'vec_sample', 'mat'] + ([] if refl else ['col_KFloat', 'col_KInt']))
                        inp = self._series_case(rng, op, refl, form, rng.choice(orders))
                        inp['assign'] = assign
                        inp['family'] = 'assignback'
                        add(inp)
        # col @ f / map_(f, col) on derived columns (NumPy-scalar cells)
        for kind in KINDS:
            for fname in sorted(FUNCS):
                for _ in range(1 if tier == 'quick' else 4):
                    n = rng.choice([3, 4, 6])
                    cells = self._cells(rng, kind, n, 'Add', False)
                    ordv = self._order(rng, n, rng.choice(orders + ['colslice']))
                    m = len(ordv[1]) if ordv[0] == 'colslice' else n
                    add({'mode': 'map', 'kind': kind, 'cells': [pyobs.enc(v) for v in cells], 'f': fname,
                         'via': rng.choice(['matmul', 'map_']), 'order': ordv, 'pre': self._pre_steps(rng, kind, m),
                         'family': 'derived'})
        # col @ f and map_(f, col)
        for kind in KINDS:
            for fname in sorted(FUNCS):
                for via in ('matmul', 'map_'):
                    for order in (orders if tier == 'thorough' else ['natural', 'perm']):
                        for _rep in range(4 if '_or_' in fname else 1):
                            n = rng.choice([0, 3, 4, 6]) if _rep == 0 else rng.choice([3, 4, 6])
                            cells = self._cells(rng, kind, n, 'Add', False)
                            add({'mode': 'map', 'kind': kind, 'cells': [pyobs.enc(v) for v in cells], 'f': fname, 'via': via,
                                 'order': self._order(rng, n, order)})
        return cases

    # ---- shrinking / reporting --------------------------------------------
    def shrink_candidates(self, inp):
        if inp.get('mode') == 'series':
            if inp.get('order', ['natural'])[0] not in ('natural', 'colslice', 'colrange'):
                c = dict(inp)
                c['order'] = ['natural']
                yield c
            return
        n = len(inp['cells'])
        if inp.get('order', ['natural'])[0] != 'natural':
            c = dict(inp)
            c['order'] = ['natural']
            yield c
        if inp.get('pre'):
            c = dict(inp)
            del c['pre']
            yield c
        if inp.get('assign') in ('alias', 'alias_other'):
            c = dict(inp)
            c['assign'] = 'self' if inp['assign'] == 'alias' else 'other'
            yield c
        if inp.get('order', ['natural'])[0] == 'colslice':
            return
        for i in range(n):
            c = json.loads(json.dumps(inp))
            del c['cells'][i]
            opd = c.get('operand')
            if opd and opd['t'] == 'seq':
                del opd['vs'][i]
            if opd and opd['t'] == 'col':
                del opd['cells'][i]
            for st in (c['pre'] if isinstance(c.get('pre'), list) else []):
                if st['k'] == 'op' and st['x']['t'] == 'seq':
                    del st['x']['vs'][i]
            o = c.get('order', ['natural'])
            if o[0] in ('perm', 'sorted'):
                c['order'] = ['reversed']
            yield c

    def key(self, case):
        i = case['input']
        if i.get('mode') == 'map':
            return 'map kind=%s f=%s via=%s' % (i['kind'], i['f'], i.get('via'))
        if i.get('mode') == 'series':
            return 'series %s operand=%s' % (('x %s col' if i['refl'] else 'col %s x') % SYM[i['op']], i['operand']['t'])
        return 'arith kind=%s %s operand=%s' % (i['kind'], ('x %s col' if i['refl'] else 'col %s x') % SYM[i['op']],
                                               self._opclass(i['operand']))


PROP = C13()
