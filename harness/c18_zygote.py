"""C18 -- fresh-interpreter evaluations of series functions.

Run as a script it is the *zygote*: a process that has imported the implementation (datamatrix, numpy, scipy.signal)
but has never called any of its functions.  For every request line on stdin it forks; the child executes the request
-- a complete C18 case (its prelude of other series calls, then the main call on the host and on the derived host,
with all comparisons), or the main call alone -- writes one JSON line with the answer and exits.  Every child therefore starts from the state of a fresh interpreter (module-level caches,
memoisation tables, lazily bound globals of the library are all in their initial state) at the price of a fork
instead of an interpreter start-up.  The parent side is `Zygote` (used by harness/c18.py)."""
import json
import os
import subprocess
import sys

HERE = os.path.dirname(os.path.abspath(__file__))


class ZygoteError(RuntimeError):
    pass


class Zygote(object):
    """Parent side: one helper process, requests are answered in order."""

    def __init__(self):
        self.proc = None

    def start(self):
        env = dict(os.environ)
        env.setdefault('PYTHONHASHSEED', '0')
        self.proc = subprocess.Popen([sys.executable, os.path.abspath(__file__), json.dumps(sys.path)],
                                     stdin=subprocess.PIPE, stdout=subprocess.PIPE, env=env, cwd=os.getcwd())
        hello = self.proc.stdout.readline()
        if not hello or json.loads(hello.decode('utf-8')).get('ready') is not True:
            self.close()
            raise ZygoteError('the C18 zygote did not start: %r' % hello)

    def request(self, req):
        if self.proc is None or self.proc.poll() is not None:
            self.start()
        self.proc.stdin.write((json.dumps(req) + '\n').encode('utf-8'))
        self.proc.stdin.flush()
        line = self.proc.stdout.readline()
        if not line:
            self.close()
            raise ZygoteError('the C18 zygote died')
        return json.loads(line.decode('utf-8'))

    def close(self):
        p, self.proc = self.proc, None
        if p is None:
            return
        try:
            p.stdin.close()
        except Exception:       # noqa
            pass
        try:
            p.wait(timeout=5)
        except Exception:       # noqa
            p.kill()


def _child(req, out_fd):
    """Runs in the forked child: executes the request, writes the answer, never returns."""
    import signal
    import warnings
    signal.alarm(60)
    try:
        with warnings.catch_warnings():
            warnings.simplefilter('ignore')
            import c18
            c18.IN_CHILD = True
            if req['mode'] == 'case':
                ans = {'case': c18.PROP.rerun_here(req['input'])}
            else:
                ans = {'obs': c18.run_main(req['input'])}
    except BaseException as e:      # noqa -- an escaping exception is an observation, not a crash
        ans = {'error': '%s: %s' % (type(e).__name__, e)}
    try:
        os.write(out_fd, (json.dumps(ans) + '\n').encode('utf-8'))
    finally:
        os._exit(0)


def main():
    wanted = json.loads(sys.argv[1])        # the parent's module search path: the implementation under test first
    sys.path[:] = wanted + [p for p in sys.path if p not in wanted]
    import warnings
    warnings.filterwarnings('ignore')
    out_fd = os.dup(1)
    os.dup2(2, 1)                   # nothing the library prints may corrupt the protocol
    # import, but do not use, the implementation and what it imports lazily
    import numpy                    # noqa
    import scipy.signal             # noqa
    import scipy.interpolate        # noqa
    import datamatrix               # noqa
    from datamatrix import series, operations, functional     # noqa
    import c18                      # noqa
    os.write(out_fd, b'{"ready": true}\n')
    stdin = os.fdopen(0, 'rb', buffering=0)
    buf = b''
    while True:
        while b'\n' not in buf:
            chunk = stdin.read(65536)
            if not chunk:
                return
            buf += chunk
        line, buf = buf.split(b'\n', 1)
        req = json.loads(line.decode('utf-8'))
        pid = os.fork()
        if pid == 0:
            _child(req, out_fd)
        _pid, status = os.waitpid(pid, 0)
        if status != 0:
            os.write(out_fd, (json.dumps({'error': 'child exited with status %d' % status}) + '\n').encode('utf-8'))


if __name__ == '__main__':
    main()
