from core_props import C04

PROP = C04()
