#!/venv/bin/python
"""./check Cxx [--tier quick|thorough] [--replay file]

Protocol (DESIGN.md section 2.3): regenerate kernels from /repo, rebuild the
Coq development, re-check the property's theorems and their assumptions, run
the correspondence cases of the property (implementation vs. L0 oracle and
vs. L1 model, evaluated by vm_compute inside Coq), decide, write evidence."""
import argparse
import importlib
import json
import os
import random
import sys
import time
import traceback
import warnings

warnings.filterwarnings('ignore')
HERE = os.path.dirname(os.path.abspath(__file__))
sys.path.insert(0, HERE)
import framework as fw  # noqa: E402

os.environ.setdefault('PYTHONHASHSEED', '0')
sys.path.insert(0, fw.REPO)          # the implementation under test: always /repo's working tree


def ensure_json_tricks():
    try:
        import json_tricks  # noqa: F401
    except ImportError:
        sys.path.append(os.path.join(fw.VERIF, 'shim'))


def match_known(pid, key, known):
    import re
    for k in known:
        if k.get('property') != pid or k.get('kind') != 'finding':
            continue
        if re.fullmatch(k['key'], key):
            return k
    return None


def shrink(mod, case, still_fails, budget=60):
    """Greedy shrinking: try candidates while the oracle still fails."""
    best = case
    steps = 0
    improved = True
    while improved and steps < budget:
        improved = False
        for cand_input in mod.shrink_candidates(best['input']):
            steps += 1
            if steps > budget:
                break
            try:
                cand = mod.rerun(cand_input)
            except Exception:
                continue
            if cand is not None and still_fails(cand):
                best = cand
                improved = True
                break
    return best


def main():
    ap = argparse.ArgumentParser()
    ap.add_argument('prop')
    ap.add_argument('--tier', default=os.environ.get('VERIF_TIER', 'quick'), choices=['quick', 'thorough'])
    ap.add_argument('--replay')
    args = ap.parse_args()
    pid = args.prop
    seed = int(os.environ.get('VERIF_SEED', '0') or 0)
    t0 = time.time()
    ensure_json_tricks()
    mod = importlib.import_module(pid.lower()).PROP
    workdir = os.path.join(fw.WORK, '%s-%d' % (pid, os.getpid()))
    os.makedirs(workdir, exist_ok=True)
    try:
        rc = run(pid, mod, args, seed, t0, workdir)
    except fw.HarnessError as e:
        print('HARNESS-ERROR property=%s %s' % (pid, str(e)[:4000]))
        rc = 2
    except Exception as e:
        # An exception that escaped from the implementation (a frame of the traceback lies in $VERIF_REPO) while the
        # harness was executing a case that runs cleanly on the unchanged tree: the property is no longer shown to
        # hold.  The input that was being executed is not captured here, hence no-failing-input-found; the replay
        # file holds the traceback.  An exception that never touched the implementation is a harness defect.
        tb = traceback.extract_tb(e.__traceback__)
        repo = os.path.realpath(fw.REPO)
        in_repo = [f for f in tb if os.path.realpath(f.filename).startswith(repo + os.sep)]
        if not in_repo and e.__cause__ is not None:
            # raised in a multiprocessing worker: the frames survive only as the text of the RemoteTraceback
            import re
            import collections
            F = collections.namedtuple('F', 'filename lineno name')
            for m in re.finditer(r'File "([^"]+)", line (\d+), in (\S+)', str(e.__cause__)):
                if os.path.realpath(m.group(1)).startswith(repo + os.sep):
                    in_repo.append(F(m.group(1), int(m.group(2)), m.group(3)))
        if in_repo and not args.replay:
            path = fw.write_replay(pid, {
                'property': pid, 'kind': 'obligation',
                'no_longer_checks': ['the implementation raised %s at %s:%d (%s) while the harness executed its cases; '
                                     'the correspondence could not be evaluated' % (
                                         type(e).__name__, in_repo[-1].filename, in_repo[-1].lineno, in_repo[-1].name)],
                'traceback': traceback.format_exc()[-6000:]})
            print('VIOLATION property=%s replay=%s no-failing-input-found' % (pid, path))
            print('%s tier=%s seed=%d implementation raised %s during case generation -> FAIL' % (
                pid, args.tier, seed, type(e).__name__))
            rc = 1
        else:
            print('HARNESS-ERROR property=%s' % pid)
            traceback.print_exc()
            rc = 2
    finally:
        fw.cleanup(workdir)
    sys.exit(rc)


LAST_AUX = {'out_of_model': None}


def oracle_eval(mod, cases, workdir, tag, use_model):
    """Returns (oracle_fail_idx, model_fail_idx). pyfail cases count as oracle failures.
    Cases may carry `oracle_vec` (a Coq `list bool` [oracle; in_model]) instead of `oracle`."""
    LAST_AUX['out_of_model'] = None
    if cases and any(c.get('oracle_vec') for c in cases):
        # cases without a vector (direct probes) are judged by their oracle term and never leave the model
        vecs = [c['oracle_vec'] if c.get('oracle_vec') else '[%s; true]' % (c['oracle'] if c.get('oracle') else 'true')
                for c in cases]
        bad = fw.eval_bools(mod.oracle_imports, vecs, workdir, tag + 'o', width=2)
        o_bad = {j // 2 for j in bad if j % 2 == 0}
        LAST_AUX['out_of_model'] = len({j // 2 for j in bad if j % 2 == 1})
    else:
        o_exprs = [c['oracle'] if c.get('oracle') else 'true' for c in cases]
        o_bad = fw.eval_bools(mod.oracle_imports, o_exprs, workdir, tag + 'o') if cases else set()
    for i, c in enumerate(cases):
        if c.get('pyfail'):
            o_bad.add(i)
    m_bad = set()
    if use_model and mod.model_vos:
        m_exprs = [c['model'] if c.get('model') else 'true' for c in cases]
        m_bad = fw.eval_bools(mod.model_imports, m_exprs, workdir, tag + 'm') if cases else set()
    return o_bad, m_bad


def run(pid, mod, args, seed, t0, workdir):
    tier = args.tier
    known = fw.load_known()
    b = fw.build(clean=(tier == 'thorough' and os.environ.get('VERIF_NO_CLEAN') != '1' and not args.replay),
                 targets=[mod.props_file[:-2] + '.vo'] + list(mod.oracle_vos) + list(mod.model_vos))
    kernel_fail = {k: why for k, (st, why) in b.kernels.items() if st != 'OK' and k in mod.kernel_files}
    props_vo = mod.props_file[:-2] + '.vo'
    deps = fw.coq_deps(mod.props_file)
    proof_built = b.uptodate(props_vo)
    oracle_ok = all(b.uptodate(v) for v in mod.oracle_vos)
    has_model = bool(mod.model_vos)
    model_ok = all(b.uptodate(v) for v in mod.model_vos)
    if not oracle_ok:
        raise fw.HarnessError('oracle layer does not build (hand-written, kernel-free):\n' + b.log[-3000:])

    # ---- replay mode ---------------------------------------------------
    if args.replay:
        payload = json.load(open(args.replay))
        if payload.get('kind') != 'input':
            print('replay names a proof obligation / correspondence, not an input:')
            print(json.dumps(payload, indent=1)[:3000])
            return 1 if not proof_built else 0
        case = mod.rerun(payload['case']['input'])
        o_bad, m_bad = oracle_eval(mod, [case], workdir, 'rp', model_ok)
        print(json.dumps({'input': case['input'], 'observed': case['observed'], 'pyfail': case.get('pyfail'),
                          'oracle_holds': 0 not in o_bad, 'model_agrees': (0 not in m_bad) if model_ok else None},
                         indent=1, default=str))
        if 0 in o_bad:
            print('VIOLATION property=%s replay=%s' % (pid, args.replay))
            return 1
        return 0

    # ---- proof obligations ---------------------------------------------
    obligations = []
    pa_raw = ''
    broken = []        # names of obligations that no longer check
    if proof_built:
        ok, pa, pa_raw = fw.print_assumptions(mod.props_file, workdir)
        if not ok:
            proof_built = False
        for name, res in pa:
            if res == 'closed':
                obligations.append({'theorem': name, 'status': 'proved', 'axioms': []})
            elif res is None:
                obligations.append({'theorem': name, 'status': 'no-assumption-report', 'axioms': None})
                broken.append(name)
            else:
                bad_ax = [a for a in res if a not in fw.ALLOWED_AXIOMS and a.split('.')[-1] not in fw.ALLOWED_AXIOMS]
                obligations.append({'theorem': name, 'status': 'proved' if not bad_ax else 'disallowed-axioms',
                                    'axioms': res})
                if bad_ax:
                    broken.append(name)
    if not proof_built:
        failed_here = [f for f in b.failed if f[:-1] in deps] or [props_vo]
        for f in failed_here:
            broken.append('%s: %s' % (f, b.errors.get(f, 'not rebuilt (a dependency failed)')))
    for k, why in kernel_fail.items():
        broken.append('kernel translation Gen/%s: %s' % (k, why))
    forb = fw.scan_forbidden(deps)
    for h in forb:
        broken.append('forbidden construct ' + h)
    if tier == 'thorough' and proof_built and os.environ.get('VERIF_NO_COQCHK') != '1':
        lib = 'DM.' + mod.props_file[len('theories/'):-2].replace('/', '.')
        rc, out = fw.sh(['timeout', '1800', 'coqchk', '-silent', '-o', '-Q', 'theories', 'DM', lib], 1900, cwd=fw.COQ)
        chk = out[-1500:]
        if rc != 0:
            broken.append('coqchk failed: ' + chk[-400:])
    else:
        chk = None

    # ---- correspondence -------------------------------------------------
    rng = random.Random(seed * 1000003 + 17)
    cases = []
    corpus_dir = os.path.join(fw.VERIF, 'corpus', pid)
    n_corpus = 0
    if os.path.isdir(corpus_dir):
        for fn in sorted(os.listdir(corpus_dir)):
            if fn.endswith('.json'):
                try:
                    c = mod.rerun(json.load(open(os.path.join(corpus_dir, fn)))['input'])
                except Exception as e:      # a corpus input the implementation cannot even run
                    c = {'input': {'corpus': fn}, 'observed': repr(e), 'oracle': 'true',
                         'pyfail': 'corpus case %s crashed the runner: %r' % (fn, e), 'tags': ['corpus']}
                if c is not None:
                    c.setdefault('tags', []).append('corpus')
                    cases.append(c)
                    n_corpus += 1
    cases.extend(mod.generate(rng, tier))
    import findings
    cases.extend(findings.probes(pid))
    o_bad, m_bad = oracle_eval(mod, cases, workdir, 'c', model_ok)
    out_of_model = LAST_AUX['out_of_model']

    # ---- search when a proof / translation / model correspondence broke ---
    searched = 0

    def is_known(i):
        fk = cases[i].get('finding_key')
        return bool(fk and match_known(pid, fk, known))
    # oracle failures that are listed known findings neither stop the search nor mask a broken obligation
    o_bad_real = {i for i in o_bad if not is_known(i)}
    if (broken or m_bad or not model_ok) and not o_bad_real:
        extra = mod.search(rng, tier, broken) if hasattr(mod, 'search') else mod.generate(random.Random(seed + 99), 'thorough')
        searched = len(extra)
        eo_bad, _ = oracle_eval(mod, extra, workdir, 's', False)
        base = len(cases)
        cases.extend(extra)
        o_bad |= {base + i for i in eo_bad}
        o_bad_real |= {base + i for i in eo_bad}

    # ---- decide ----------------------------------------------------------
    lines = []
    rc = 0
    violations = 0
    reported_keys = set()
    if o_bad:
        for i in sorted(o_bad):
            case = cases[i]

            def still(c):
                ob, _ = oracle_eval(mod, [c], workdir, 'k', False)
                return 0 in ob
            if case.get('finding_key'):
                key0, small, key = case['finding_key'], case, case['finding_key']
                if key0 in reported_keys:
                    continue
            else:
                key0 = mod.key(case)
                if key0 in reported_keys:
                    continue
                small = shrink(mod, case, still) if (len(reported_keys) < 8 and os.environ.get('VERIF_NOSHRINK') != '1') else case
                key = mod.key(small)
            if key in reported_keys:
                continue
            reported_keys.add(key)
            reported_keys.add(key0)
            kf = match_known(pid, key, known)
            if kf:
                lines.append('KNOWN-FINDING: property=%s %s' % (pid, kf['text']))
                continue
            path = fw.write_replay(pid, {'property': pid, 'kind': 'input', 'key': key, 'case': small,
                                         'explanation': small.get('pyfail') or 'implementation disagrees with the L0 oracle (Coq, vm_compute)'})
            lines.append('VIOLATION property=%s replay=%s' % (pid, path))
            violations += 1
            rc = 1
            if violations >= 5:
                break
    if not o_bad_real and (broken or m_bad or not model_ok):
        what = list(broken)
        if m_bad:
            what.append('correspondence model-vs-implementation (L1) fails on %d case(s); first: %s' % (
                len(m_bad), json.dumps(cases[min(m_bad)]['input'], default=str)[:1500]))
        if not model_ok and not broken:
            what.append('L1 model does not build: ' + '; '.join('%s: %s' % kv for kv in b.errors.items())[:1500])
        path = fw.write_replay(pid, {'property': pid, 'kind': 'obligation', 'no_longer_checks': what,
                                     'searched_inputs': searched + len(cases),
                                     'first_model_disagreement': cases[min(m_bad)] if m_bad else None})
        lines.append('VIOLATION property=%s replay=%s no-failing-input-found' % (pid, path))
        violations += 1
        rc = 1

    # ---- evidence --------------------------------------------------------
    sigs = set()
    nontrivial = set()
    dist = {}
    for c in cases:
        s = c.get('sig') or json.dumps(c['input'], sort_keys=True, default=str)
        sigs.add(s)
        if c.get('nontrivial', True):
            nontrivial.add(s)
        for t in c.get('tags', []):
            dist[t] = dist.get(t, 0) + 1
    n_obl = len(obligations) + 2        # + oracle correspondence + model correspondence
    discharged = sum(1 for o in obligations if o['status'] == 'proved') if not broken else \
        sum(1 for o in obligations if o['status'] == 'proved' and not kernel_fail and not forb)
    # oracle failures that match a listed known finding do not count against the correspondence obligation
    discharged += (0 if (o_bad and rc) else 1) + (1 if (model_ok and not m_bad) else 0)
    samples = [{'input': c['input'], 'observed': c.get('observed')} for c in cases[n_corpus:n_corpus + 3]]
    if len(cases) > 10:
        samples.append({'input': cases[-1]['input'], 'observed': cases[-1].get('observed')})
    ev = {
        'property_id': pid, 'tier': tier, 'seed': seed, 'level': 'proof',
        'wall_s': round(time.time() - t0, 2), 'violations': violations,
        'coverage': {
            'obligations': max(n_obl, 1), 'discharged': discharged,
            'checker_cmd': 'cd /verif/coq && make -k -j16 && coqc -Q theories DM %s  (Print Assumptions under every theorem)%s' % (
                mod.props_file, '; coqchk -o -Q theories DM' if chk is not None else ''),
            'trusted_base': mod.trusted_base,
            'theorems': obligations,
            'kernel_files': {k: st for k, (st, _) in b.kernels.items() if k in mod.kernel_files},
            'forbidden_construct_hits': forb,
            'coqchk_tail': chk,
            'evaluations': len(cases), 'distinct_nontrivial': len(nontrivial), 'distinct': len(sigs),
            'rule': mod.rule, 'samples': samples, 'distribution': dist,
            'corpus_cases': n_corpus, 'search_cases': searched,
            'oracle_failures': len(o_bad), 'model_disagreements': len(m_bad),
            'cases_that_left_the_model': out_of_model,
            'model_layer_built': model_ok, 'proof_built': proof_built,
            'build_wall_s': round(b.wall, 2),
            'exhaustive': bool(getattr(mod, 'exhaustive', False)),
        },
        'assumptions': mod.assumptions,
    }
    fw.write_evidence(pid, ev)
    for ln in lines:
        print(ln)
    print('%s tier=%s seed=%d theorems=%d/%d cases=%d oracle_fail=%d model_fail=%d wall=%.1fs -> %s' % (
        pid, tier, seed, sum(1 for o in obligations if o['status'] == 'proved'), len(obligations), len(cases),
        len(o_bad), len(m_bad), time.time() - t0, 'FAIL' if rc else 'ok'))
    return rc


if __name__ == '__main__':
    main()
