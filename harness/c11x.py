"""C11, the column variants: ops.shuffle(col), ops.random_sample(col, k) and ops.shuffle_horiz(*cols | dm) executed on
tables reached through operation histories (selections, sorts, earlier shuffles / samples, selection-addressed
writes: position caches populated), dumped with harness/world.py's dumper and judged inside Coq by Run/SC11x.v (L0:
Spec/ShuffleCol.v) and Run/RC11x.v (L1: Model/ShuffleCol.v on the regenerated kernels Gen/KShuffle.v)."""
import json
import random
import warnings

import numpy as np

import coqlit as L
import histgen
import pyobs
import world

ORACLE_VOS = ['theories/Run/SC11x.vo']
MODEL_VOS = ['theories/Run/RC11x.vo']
ORACLE_IMPORTS = ['From DM Require Import Run.SC11x.']
MODEL_IMPORTS = ['From DM Require Import Run.RC11x.']
KERNEL_FILES = ['KShuffle.v', 'KOpsMisc.v']

# If the UNCHANGED /repo violates the property on some class of inputs, the class is kept out of the default stream
# behind this constant and reported (BUILDER.md).
INCLUDE_PENDING_FINDINGS = False

WEIGHTS = {k: 0 for k in histgen.DEFAULT_WEIGHTS}
WEIGHTS.update(shuffle=9, sample=5, select=12, setcell=14, merge=4, setcolkind=7, setcol=9, slice=3, sort=5,
               setlength=3, getrows=3, setcolfromcol=3, new=1, delrows=1, setcolfromslice=1)
CREATING = ('new', 'select', 'merge', 'slice', 'getrows', 'sort', 'shuffle', 'sample', 'concat')
CMPS = {'CEq': '__eq__', 'CNe': '__ne__', 'CLt': '__lt__', 'CLe': '__le__', 'CGt': '__gt__', 'CGe': '__ge__'}
INT64_SAFE = 2 ** 62


# ------------------------------------------------------------------ dumping
def dump_col(col, dm, problems):
    """One column object as an lcol literal (Model/LTable.v); owner = it belongs to dm."""
    kind = world.kind_of(col)
    if kind is None:
        problems.append('the result is a %s' % type(col).__name__)
        kind = 'KMixed'
    rid, ids = world.index_coq(col._rowid, problems)
    return ('{| lc_kind := %s; lc_rowid := %s; lc_cells := %s; lc_owner := %s; lc_tc := %s |}' % (
        kind, rid, world.cells_coq(col, kind, problems), L.boolean(col._datamatrix is dm),
        L.boolean(col._typechecking is True))), kind, ids


def res_lit(ok_lit, exn):
    return '(Raise %s)' % exn if exn is not None else '(Ok %s)' % ok_lit


def harg_coq(a):
    if a[0] == 'col':
        return '(HCol %s)' % L.string(a[1])
    return {'table': 'HTable', 'foreign': 'HForeign', 'other': 'HOther'}[a[0]]


def plain_ref(x, kind):
    """May x be used as a reference of a comparison with a column of this kind (Spec.Ops.ref_ok)?"""
    if type(x) is int:
        return True
    if type(x) is float:
        return kind != 'KInt' and x == x and abs(x) != float('inf')
    if kind == 'KMixed':
        return x is None or type(x) is str
    return False


# ------------------------------------------------------------------ choosing the final operation
def choose_final(rng, r):
    P = r.pool
    cands = [i for i, dm in enumerate(P) if dm._cols and all(world.kind_of(c) is not None for c in dm._cols.values())]
    if not cands:
        return None
    # mostly derived tables (selections, sorted / shuffled / sampled copies, merges), the longer the likelier;
    # empty and one-row tables stay in as a small share
    derived = [i for i in cands if i > 0]
    group = derived if derived and rng.random() < 0.75 else cands
    ti = rng.choices(group, [1 + 3 * len(P[i]) ** 2 for i in group])[0]
    dm = P[ti]
    n = len(dm)
    names = list(dm._cols.keys())
    x = rng.choices(['shufflecol', 'samplecol', 'horiz'], [35, 30, 35])[0]
    # warm: every column is first read through the table itself used as a selection (col[dm]), which fills the
    # position caches of the Index objects the lookups go through
    warm = rng.random() < 0.6
    if x in ('shufflecol', 'samplecol'):
        name = rng.choice(names)
        kind = world.kind_of(dm._cols[name])
        fin = {'x': x, 't': ti, 'name': name, 'warm': warm}
        if x == 'samplecol':
            fin['k'] = rng.randint(0, n) if rng.random() > 0.15 else rng.choice([n + 1, -1, n + 3])
        if rng.random() < 0.75:
            fin['follow'] = {'cmp': rng.choice(list(CMPS)), 'pick': rng.randrange(1 << 16),
                             'fallback': pyobs.enc(rng.choice(histgen.REFS[kind]))}
        if rng.random() < 0.6:
            fin['assign'] = rng.choice(histgen.NAMES + [name, name])
        return fin
    # shuffle_horiz
    c = rng.random()
    if c < 0.12:
        args = rng.choice([[], [['table'], ['col', names[0]]], [['col', names[0]], ['foreign']],
                           [['col', names[0]], ['other']], [['other']], [['table'], ['table']],
                           [['col', names[0]], ['table']], [['other'], ['col', names[0]]]])
    elif c < 0.3:
        args = [['table']]
    else:
        m = rng.randint(1, min(4, len(names)))
        chosen = rng.sample(names, m)
        if rng.random() < 0.06:
            chosen.append(rng.choice(chosen))
        args = [['col', nm] for nm in chosen]
    return {'x': 'horiz', 't': ti, 'args': args, 'warm': warm}


def int64_risk(dm, names):
    """An IntColumn among the chosen columns may be handed a number beyond int64 (OverflowError: outside the model)."""
    cols = [dm._cols[nm] for nm in names if nm in dm._cols]
    if not any(world.kind_of(c) == 'KInt' for c in cols):
        return False
    for c in cols:
        for x in list(c):
            if isinstance(x, (int, float)) and x == x and abs(x) >= INT64_SAFE and abs(x) != float('inf'):
                return True
    return False


# ------------------------------------------------------------------ executing
def execute(ops_list, seed, fin):
    """Run the prefix, then the final operation; returns the case dict (None if the final operation does not apply)."""
    world._imports()
    from datamatrix import DataMatrix, operations as ops
    from datamatrix._datamatrix._basecolumn import BaseColumn
    r = world.Runner()
    for si, o in enumerate(ops_list):
        o = {k: v for k, v in o.items() if k not in ('perm', 'refused')}
        r.apply(o, seed=seed * 7919 + si)
    P = r.pool
    if fin is None or fin['t'] >= len(P):
        return None
    dm = P[fin['t']]
    x = fin['x']
    problems = []
    warm_problems = []
    if fin.get('warm'):
        with warnings.catch_warnings():
            warnings.simplefilter('ignore')
            for col in list(dm._cols.values()):
                try:
                    list(col[dm])
                except Exception as e:      # noqa: BLE001
                    warm_problems.append('reading a column through its own table raised %r' % (e,))
    before_objs = r.snapshot_objects()
    try:
        src_lit = r.dump_table(dm, problems)
    except Exception:      # noqa: BLE001
        return None
    if problems:
        # the table the history reached is already outside the model (e.g. the result of merging same-named columns
        # of different types: an IntColumn holding floats): how it was reached is judged by the history check of every
        # step (core_props); it is not a source for THIS operation
        return None
    problems.extend(warm_problems)      # a well-formed table that cannot be read through itself is a finding
    observed = {'x': x, 'rows': len(dm), 'columns': [(n_, world.kind_of(c)) for n_, c in dm._cols.items()]}
    tags = ['x', 'x:' + x] + (['warm'] if fin.get('warm') else []) + (['cache-populated'] if 'imeta := (Some' in src_lit else [])
    random.seed(seed * 7919 + len(ops_list))
    with warnings.catch_warnings():
        warnings.simplefilter('ignore')
        if x in ('shufflecol', 'samplecol'):
            if fin['name'] not in dm._cols:
                return None
            src_col = dm._cols[fin['name']]
            exn = None
            res = None
            try:
                res = ops.shuffle(src_col) if x == 'shufflecol' else ops.random_sample(src_col, fin['k'])
            except Exception as e:      # noqa: BLE001
                exn = pyobs.exn_name(e)
            res_l = None
            kind = world.kind_of(src_col)
            if exn is None:
                if not isinstance(res, BaseColumn):
                    problems.append('the result is a %s, not a column' % type(res).__name__)
                    exn = 'OtherError'
                else:
                    try:
                        res_l, _k, _ids = dump_col(res, dm, problems)
                        if res._seq is src_col._seq or (isinstance(res._seq, np.ndarray) and isinstance(src_col._seq, np.ndarray)
                                                        and np.shares_memory(res._seq, src_col._seq)):
                            problems.append('the result shares its cell storage with the source column')
                    except Exception as e:      # noqa: BLE001
                        problems.append('the result column cannot be dumped: %r' % (e,))
                        exn = 'OtherError'
            after_lit = _safe_dump(r, dm, problems, src_lit)
            observed['outcome'] = exn or 'ok'
            if exn is None:
                observed['values'] = [pyobs.jsonable(v) for v in list(res)]
            follow_l = 'None'
            assign_l = 'None'
            if exn is None and fin.get('follow'):
                f = fin['follow']
                vals = [v for v in list(res) if plain_ref(v, kind)]
                ref = vals[f['pick'] % len(vals)] if vals else pyobs.dec(f['fallback'])
                sel_l, read_l = 'None', 'None'
                try:
                    sel = getattr(res, CMPS[f['cmp']])(ref)
                    if isinstance(sel, DataMatrix):
                        sel_l = '(Some %s)' % r.dump_table(sel, problems)
                        got = res[sel]
                        read_l = '(Some %s)' % world.cells_coq(got, world.kind_of(got) or 'KMixed', problems)
                        observed['follow'] = {'cmp': f['cmp'], 'ref': pyobs.jsonable(ref), 'selected_rows': len(sel)}
                    else:
                        problems.append('comparing the result column gave a %s' % type(sel).__name__)
                except Exception as e:      # noqa: BLE001
                    observed['follow'] = {'cmp': f['cmp'], 'ref': pyobs.jsonable(ref), 'raised': repr(e)}
                follow_l = '(Some {| fo_cmp := %s; fo_ref := %s; fo_sel := %s; fo_read := %s |})' % (
                    f['cmp'], pyobs.val(ref), sel_l, read_l)
                tags.append('follow:select')
            if exn is None and fin.get('assign') is not None:
                z = fin['assign']
                aexn = None
                try:
                    dm[z] = res
                except Exception as e:      # noqa: BLE001
                    aexn = pyobs.exn_name(e)
                a_l = None
                if aexn is None:
                    try:
                        a_l = r.dump_table(dm, problems)
                        r.probes(dm, problems)
                    except Exception as e:      # noqa: BLE001
                        problems.append('the DataMatrix cannot be dumped after the assignment: %r' % (e,))
                        aexn = 'OtherError'
                assign_l = '(Some (%s, %s))' % (L.string(z), res_lit(a_l, aexn))
                observed['assign'] = {'name': z, 'outcome': aexn or 'ok'}
                tags.append('follow:assign')
            k_l = 'None' if x == 'shufflecol' else '(Some %s)' % L.z(fin['k'])
            body = ('{| co_src := s0; co_after := %s; co_name := %s; co_k := %s; co_res := %s; co_follow := %s; '
                    'co_assign := %s |}' % ('s0' if after_lit == src_lit else after_lit, L.string(fin['name']), k_l,
                                            res_lit(res_l, exn), follow_l, assign_l))
            oracle = '(let s0 := %s in col_oracle %s)' % (src_lit, body)
            vec = '(let s0 := %s in col_vec %s)' % (src_lit, body)
            model = '(let s0 := %s in col_model_g %s)' % (src_lit, body)
            tags += ['kind:' + str(kind), 'rows%d' % min(len(dm), 9), 'out:' + (exn or 'ok')]
            if x == 'samplecol':
                k = fin['k']
                tags.append('k:' + ('neg' if k < 0 else 'over' if k > observed['rows'] else 'all' if k == observed['rows']
                                    else 'zero' if k == 0 else 'part'))
            nontrivial = observed['rows'] >= 2
        else:
            args = []
            foreign = DataMatrix(length=max(1, len(dm)))
            foreign.q = 'f'
            names_chosen = []
            for a in fin['args']:
                if a[0] == 'col':
                    if a[1] not in dm._cols:
                        return None
                    args.append(dm._cols[a[1]])
                    names_chosen.append(a[1])
                elif a[0] == 'table':
                    args.append(dm)
                    names_chosen.extend(dm._cols.keys())
                elif a[0] == 'foreign':
                    args.append(foreign.q)
                else:
                    args.append('a')
            if int64_risk(dm, names_chosen):
                return None
            exn = None
            res = None
            try:
                res = ops.shuffle_horiz(*args)
            except Exception as e:      # noqa: BLE001
                exn = pyobs.exn_name(e)
            res_l = None
            if exn is None:
                if not isinstance(res, DataMatrix):
                    problems.append('the result is a %s, not a DataMatrix' % type(res).__name__)
                    exn = 'OtherError'
                else:
                    if res is dm:
                        problems.append('shuffle_horiz returned its source')
                    try:
                        r.pool.append(res)
                        r.audit(before_objs, problems)
                        res_l = r.dump_table(res, problems)
                        r.probes(res, problems)
                    except Exception as e:      # noqa: BLE001
                        problems.append('the result cannot be dumped: %r' % (e,))
                        exn = 'OtherError'
            after_lit = _safe_dump(r, dm, problems, src_lit)
            observed['outcome'] = exn or 'ok'
            observed['args'] = fin['args']
            body = '{| ho_src := s0; ho_after := %s; ho_args := %s; ho_res := %s |}' % (
                's0' if after_lit == src_lit else after_lit, L.lst(harg_coq(a) for a in fin['args']), res_lit(res_l, exn))
            oracle = '(let s0 := %s in horiz_oracle %s)' % (src_lit, body)
            vec = '(let s0 := %s in horiz_vec %s)' % (src_lit, body)
            model = '(let s0 := %s in horiz_model_g %s)' % (src_lit, body)
            kinds = sorted(set(str(world.kind_of(dm._cols[nm])) for nm in names_chosen if nm in dm._cols))
            tags += ['horiz:' + '+'.join(kinds), 'horiz_args:%d' % len(fin['args']), 'rows%d' % min(len(dm), 9),
                     'out:' + (exn or 'ok')]
            if any(a[0] != 'col' for a in fin['args']):
                tags.append('horiz:' + '/'.join(a[0] for a in fin['args']))
            nontrivial = observed['rows'] >= 1 and len(set(names_chosen)) >= 2
    inp = {'x': True, 'ops': ops_list, 'seed': seed, 'final': fin}
    return {
        'input': inp,
        'observed': dict(observed, python_side_problems=problems[:6]),
        'pyfail': ('; '.join(problems[:3]) if problems else None),
        'oracle': oracle, 'oracle_vec': vec, 'model': model,
        'nontrivial': bool(nontrivial),
        'sig': json.dumps(inp, sort_keys=True, default=str),
        'tags': tags,
    }


def _safe_dump(r, dm, problems, fallback):
    try:
        return r.dump_table(dm, problems)
    except Exception as e:      # noqa: BLE001
        problems.append('the source cannot be dumped after the operation: %r' % (e,))
        return fallback


# ------------------------------------------------------------------ generation
def _one(args):
    seed, lo, hi = args
    sub = random.Random(seed)
    for _attempt in range(6):
        ops_list = histgen.gen_history(sub, sub.randint(lo, hi), weights=WEIGHTS, seed=seed, bad_rate=0.03,
                                       big_first=sub.random() < 0.12, max_rows=30)
        # the final operation is chosen looking at the live pool
        world._imports()
        r = world.Runner()
        for si, o in enumerate(ops_list):
            r.apply({k: v for k, v in o.items() if k not in ('perm', 'refused')}, seed=seed * 7919 + si)
        fin = choose_final(sub, r)
        case = execute(ops_list, seed, fin) if fin is not None else None
        if case is not None:
            return case
    return None


def generate(rng, tier):
    import multiprocessing
    n = 420 if tier == 'quick' else 3000
    lo, hi = (7, 16) if tier == 'quick' else (7, 30)
    jobs = [(rng.randrange(1 << 30), lo, hi) for _ in range(n)]
    ctx = multiprocessing.get_context('fork')
    with ctx.Pool(min(16, multiprocessing.cpu_count())) as pool:
        cases = pool.map(_one, jobs, chunksize=4)
    return [c for c in cases if c is not None]


def rerun(inp):
    ops_list = [{k: v for k, v in o.items() if k not in ('perm', 'refused')} for o in inp['ops']]
    return execute(ops_list, inp.get('seed', 0), inp['final'])


def shrink_candidates(inp):
    ops_list = inp['ops']
    for i in range(len(ops_list) - 1, -1, -1):
        if ops_list[i]['op'] not in CREATING:
            yield {'x': True, 'ops': ops_list[:i] + ops_list[i + 1:], 'seed': inp.get('seed', 0), 'final': inp['final']}
    fin = inp['final']
    for drop in ('follow', 'assign'):
        if fin.get(drop) is not None:
            yield {'x': True, 'ops': ops_list, 'seed': inp.get('seed', 0), 'final': {k: v for k, v in fin.items() if k != drop}}


def key(case):
    fin = case['input']['final']
    return 'column-variant %s after %s' % (fin['x'], ' '.join(o['op'] for o in case['input']['ops'][-5:]))
