"""C17 -- pickle, JSON and pandas conversion preserve the table.

Cases start from a table of the pool a seeded random operation history leaves
behind (reordered, selected, resized, aliased columns, populated caches):
  pickle : pickle.dumps/loads protocols 0-5 and io.writepickle/readpickle; the restored object graph is dumped and
           judged in Coq (inv_b, same table, fresh family); then the same follow-up operations run on the original
           and on the restored object (world.Runner.apply) and every changed table is dumped pairwise;
  json   : to_json/from_json round trip, the parsed document vs the model's, and text (in)equality after a
           single-cell / name / row-order perturbation of a copy;
  pandas : DataFrame / Series content row by row;
  series : tables with a SeriesColumn -- `ltable` has no series kind, so these are compared on the Python side only.
"""
import json
import math
import os
import pickle
import random
import shutil
import warnings

import numpy as np

import coqlit as L
import framework as fw
import histgen
import pyobs
import world

FOLLOW_WEIGHTS = {
    'new': 0, 'setcolkind': 2, 'setcol': 4, 'setcolfromcol': 1, 'setcell': 10, 'select': 10, 'merge': 10, 'slice': 2,
    'getrows': 2, 'sort': 2, 'shuffle': 1, 'sample': 1, 'setlength': 10, 'delrows': 2, 'delcol': 1, 'rename': 1,
    'concat': 2, 'setsorted': 1,
}
MODES = ['p0', 'p1', 'p2', 'p3', 'p4', 'p5', 'file', 'file0', 'file2', 'file5']


def _filedir():
    d = os.path.join(fw.WORK, 'c17-files-%d' % os.getpid())
    os.makedirs(d, exist_ok=True)
    return d


def build_pool(ops_list, seed):
    r = world.Runner()
    for si, o in enumerate(ops_list):
        r.apply(dict(o), seed=seed * 7919 + si)
    for dm in r.pool:
        r.fam(dm)
    return r


def warm(dm, level):
    """Populate the position / max caches the way selections and resizing do."""
    if level <= 0 or len(dm) == 0:
        return
    ids = [int(x) for x in dm._rowid]
    dm._rowid.index(ids[0])
    if level >= 2:
        dm._rowid.max
        for col in dm._cols.values():
            if isinstance(col._rowid, world.Index):
                col._rowid.index(ids[-1])
                col._rowid.max


def decorate(dm, level):
    """Derived columns inserted by reference (col @ str, col / 2): the reachable MixedColumns whose cells are
    numeric-looking text or whole-number floats, which plain assignment would have converted."""
    if not level or len(dm) == 0:
        return
    src = [c for c in dm._cols.values() if world.kind_of(c)]
    if not src:
        return
    col = src[(level - 1) % len(src)]
    for name, f in (('lab', lambda c: c @ str), ('hlf', lambda c: c / 2)):
        try:
            with warnings.catch_warnings():
                warnings.simplefilter('ignore')
                dm[name] = f(col)
        except Exception:       # noqa: BLE001  (text cells cannot be halved, ...)
            pass


def do_pickle(dm, mode, tag=0):
    from datamatrix import io
    if mode.startswith('p'):
        return pickle.loads(pickle.dumps(dm, int(mode[1:])))
    path = os.path.join(_filedir(), 'sub', 't%d.pkl' % tag)
    if mode == 'file':
        io.writepickle(dm, path)
    else:
        io.writepickle(dm, path, protocol=int(mode[4:]))
    try:
        return io.readpickle(path)
    finally:
        shutil.rmtree(os.path.dirname(path), ignore_errors=True)


def subst(o, pairs, side):
    o = json.loads(json.dumps(o))
    for k in ('t', 't2'):
        if k in o:
            o[k] = pairs[o[k]][side]
    if 'addr' in o and o['addr'].get('k') == 'sel':
        o['addr']['t2'] = pairs[o['addr']['t2']][side]
    return o


class _View:
    """what histgen.gen_op sees: the original side of every pair"""
    def __init__(self, r, pairs):
        self.pool = [r.pool[a] for a, _b in pairs]


def gen_follow(rng, r, pairs, first):
    if first and rng.random() < 0.6:
        n = len(r.pool[pairs[0][0]])
        return {'op': 'setlength', 't': 0, 'n': n + rng.choice([1, 2, 3])}
    if rng.random() < 0.25:
        return {'op': 'merge', 'mop': rng.choice(['MAnd', 'MOr', 'MXor']), 't': 0, 't2': 0}
    o = histgen.gen_op(rng, _View(r, pairs), FOLLOW_WEIGHTS, bad_rate=0.04, max_pool=6, max_rows=9)
    if o['op'] == 'new':
        return {'op': 'setlength', 't': 0, 'n': len(r.pool[pairs[0][0]]) + 1}
    return o


def pcell(x):
    if x is None:
        return 'PMiss'
    try:
        import pandas as pd
        if x is pd.NA or x is pd.NaT:
            return 'PMiss'
    except Exception:      # noqa: BLE001
        pass
    if isinstance(x, (bool, np.bool_)):
        return 'POdd'
    if isinstance(x, (int, np.integer)):
        return '(PNum (NInt %s))' % L.z(int(x))
    if isinstance(x, (float, np.floating)):
        x = float(x)
        if math.isnan(x):
            return 'PMiss'
        return '(PNum (NFlt %s))' % L.fl(x)
    if isinstance(x, str):
        return '(PText %s)' % L.string(x)
    return 'POdd'


def jval(x):
    """a JSON scalar as parsed by the stdlib json module -> val"""
    lit = pyobs.val(x)
    return lit if lit is not None else '(VStr "<unsupported json scalar>")'


def doc_lit(text):
    """Parse the implementation's JSON text independently (stdlib json) into the Coq jdoc literal."""
    d = json.loads(text)
    if list(d.keys()) != ['rowid', 'columns']:
        return None
    cols = []
    for name, pair in d['columns'].items():
        ty, seq = pair
        if isinstance(seq, dict):
            if ty == 'FloatColumn':
                cells = [pyobs.val(float(v)) for v in seq['__ndarray__']]
            else:
                cells = [jval(v) for v in seq['__ndarray__']]
        else:
            cells = [jval(v) for v in seq]
        cols.append('(%s, (%s, %s))' % (L.string(name), L.string(ty), L.lst(cells)))
    return '(%s, %s)' % (L.lst(L.N(int(x)) for x in d['rowid']), L.lst(cols))


def strs(l):
    return L.lst(L.string(s) for s in l)


class C17:
    id = 'C17'
    props_file = 'theories/Props/C17.v'
    kernel_files = ['KPersist.v']
    oracle_vos = ['theories/Run/SC17.vo']
    model_vos = ['theories/Run/RC17.vo']
    oracle_imports = ['From DM Require Import Run.SC17.']
    model_imports = ['From DM Require Import Run.SC17 Run.RC17.']
    exhaustive = False
    rule = ('every case takes one table of the pool left by a seeded random operation history (histgen: 8-18 steps '
            'quick, 8-30 thorough; reordered, selected, resized, aliased, unsorted-flag tables, caches warmed at level '
            '0-2) and (pickle) round-trips it through pickle protocols 0-5 or io.writepickle/readpickle, dumps the '
            'restored object graph, then applies 1-4 follow-up operations (60 % start by growing; selection, merging '
            'with itself/derived tables, cell and column assignment, resizing, sorting, ...) to the original and to '
            'the restored object and dumps every changed table pairwise; (json) round-trips it through '
            'to_json/from_json, parses the text independently, and compares the text with that of a copy perturbed in '
            'one cell / one name / the row order / not at all; (pandas) reads the DataFrame and each Series back row by '
            'row; (series) adds a SeriesColumn and compares pickle/JSON round trips on the Python side. A case is '
            'non-trivial when the table has rows and columns (pickle: and at least one follow-up operation succeeded; '
            'json text: the texts differ). Distinct by (history, seed, table, mode, follow-ups).')
    trusted_base = [
        'Coq 8.16.1 kernel (coqc; vm_compute for evaluating cases; no native_compute)',
        'translator /verif/translate/gen_persist.py (ast -> Gen/KPersist.v) incl. its pinned statement lists',
        'harness/c17.py, harness/world.py (runner, object-graph dumper, probes), harness/histgen.py, Run/SC17.v, Run/RC17.v',
        'Model/LTable.v inv_b/abs/table_eqb and Spec/Persist.v (what "preserved" means)',
        'modelled, not verified: pickle is the identity on the tree of __getstate__ results and keeps object sharing; '
        'dict.update/sorted/str.__contains__; json_tricks (here: /verif/shim) satisfies loads(dumps(x)) = x on '
        'documents of ids, names, type names and cells; pandas.DataFrame/Series constructors are observed only',
    ]
    assumptions = [
        'Series columns are outside `ltable`: their round trips are compared on the Python side only (pyfail)',
        'the "behaves as on the original" clause is proved as: same abstract table + representation invariant; '
        'for concrete follow-up operations it is checked by running them on both objects',
        'json: dumps/loads are Section variables with loads (dumps x) = x; the real text is tied by parsing it with the '
        'stdlib json module and comparing the document with the model',
        'pandas: integers beyond 2**53 in a column that also holds None are outside the generated inputs (pandas '
        'infers float64 and rounds them; reported as a defect candidate)',
    ]

    # ------------------------------------------------------------ runners
    def run_pickle(self, inp):
        r = build_pool(inp['ops'], inp['seed'])
        t = inp['t']
        dm = r.pool[t]
        decorate(dm, inp.get('deco', 0))
        warm(dm, inp.get('warm', 0))
        used = sorted(set(r.fam(x) for x in r.pool))
        problems = []
        live = {'dm': sorted(dm.__dict__), 'index': sorted(dm._rowid.__dict__)}
        for col in dm._cols.values():
            kd = world.kind_of(col)
            if kd:
                live[kd] = sorted(col.__dict__)
        dm_keys = list(dm.__getstate__()[0])
        index_keys = list(dm._rowid.__getstate__()[0])
        objs = []
        for col in dm._cols.values():
            if not any(col is o for o in objs):
                objs.append(col)
        col_keys = [list(c.__getstate__()[0]) for c in objs]
        orig_problems = []
        orig_lit = r.dump_table(dm, orig_problems)     # malformations of the original are not persistence failures
        pyfail = None
        try:
            rest = do_pickle(dm, inp['mode'])
        except Exception as e:      # noqa: BLE001
            return self._fail_case(inp, 'round trip raised %r' % (e,), ['pickle', inp['mode']])
        self._stage = 'restored'
        if r.dump_table(dm, []) != orig_lit:
            pyfail = 'pickling changed the original object'
        if not isinstance(rest, world.DataMatrix):
            return self._fail_case(inp, 'round trip returned a %s' % type(rest).__name__, ['pickle', inp['mode']])
        rest_lit = r.dump_table(rest, problems)
        r.probes(rest, problems)
        r.probes(dm, orig_problems)
        problems[:] = [p for p in problems if p not in orig_problems]
        r.pool.append(rest)
        pairs = [(t, len(r.pool) - 1)]
        last = {0: (orig_lit, rest_lit)}
        follow_lits = []
        outcomes = []
        frng = random.Random(inp.get('fseed', 0))
        follow = inp.get('follow')
        gen = follow is None
        follow = [] if gen else follow
        nf = inp.get('nfollow', 0)
        k = 0
        ok_ops = 0
        while (gen and k < nf) or (not gen and k < len(follow)):
            if gen:
                o = gen_follow(frng, r, pairs, k == 0)
                follow.append(o)
            else:
                o = follow[k]
            k += 1
            if any(key in o and o[key] >= len(pairs) for key in ('t', 't2')) or (
                    'addr' in o and o['addr'].get('k') == 'sel' and o['addr']['t2'] >= len(pairs)):
                outcomes.append('skipped')
                continue
            oa, ob = subst(o, pairs, 0), subst(o, pairs, 1)
            sd = inp['seed'] * 31 + k
            n0 = len(r.pool)
            out_a, new_a = r.apply(oa, seed=sd)
            ia = len(r.pool) - 1
            out_b, new_b = r.apply(ob, seed=sd)
            ib = len(r.pool) - 1
            outcomes.append([out_a, out_b])
            if out_a != out_b:
                pyfail = pyfail or 'follow-up %s: original gives %s, restored gives %s' % (o['op'], out_a, out_b)
            if not out_a.startswith('(Err'):
                ok_ops += 1
            if new_a and new_b:
                pairs.append((ia, ib))
            elif new_a or new_b:
                del r.pool[n0:]
            for pi, (a, b) in enumerate(pairs):
                pr, pa = [], []
                la, lb = r.dump_table(r.pool[a], pa), r.dump_table(r.pool[b], pr)
                if last.get(pi) != (la, lb):
                    last[pi] = (la, lb)
                    follow_lits.append('(%s, %s)' % (la, lb))
                    r.probes(r.pool[b], pr)
                    r.probes(r.pool[a], pa)
                pr = [p for p in pr if p not in pa]
                problems.extend('after follow-up %d (%s): %s' % (k, o['op'], p) for p in pr)
        if problems and not pyfail:
            pyfail = 'python-side probes: ' + '; '.join(problems[:3])
        fl = L.lst(follow_lits)
        oracle = ('(pickle_case %s %s %s %s && follow_fams (%s, %s) %s)' % (
            nats(used), orig_lit, rest_lit, fl, orig_lit, rest_lit, fl))
        model = '(attrs_ok %s %s %s %s %s && keys_ok %s %s %s %s && m_pickle %s %s)' % (
            strs(live['dm']), strs(live['index']), strs(live.get('KMixed', [])), strs(live.get('KFloat', [])),
            strs(live.get('KInt', [])), orig_lit, strs(dm_keys), strs(index_keys), L.lst(strs(ks) for ks in col_keys),
            orig_lit, rest_lit)
        if orig_problems:          # the dump of a malformed original is lossy: outside the L1 model
            model = 'true'
        inp2 = dict(inp)
        inp2['follow'] = follow
        inp2.pop('nfollow', None)
        kinds = sorted(set(kd for _n, kd in histgen.col_kinds(dm) if kd))
        return {
            'input': inp2,
            'observed': {'rows': len(dm), 'columns': list(dm._cols.keys()), 'follow_outcomes': outcomes,
                         'restored_id_differs': rest._id != dm._id, 'problems': problems[:4],
                         'original_malformed': orig_problems[:2]},
            'pyfail': pyfail, 'oracle': oracle, 'model': model,
            'nontrivial': len(dm) > 0 and len(dm._cols) > 0 and ok_ops > 0,
            'sig': json.dumps(inp2, sort_keys=True, default=str),
            'tags': ['pickle', 'mode-' + inp['mode'], 'warm%d' % inp.get('warm', 0), 'deco' if inp.get('deco') else 'plain', 'rows%d' % min(len(dm), 9)] + kinds
                    + ['follow-' + o['op'] for o in follow] + (['orig-malformed'] if orig_problems else []),
        }

    def _fail_case(self, inp, why, tags):
        return {'input': inp, 'observed': why, 'pyfail': why, 'oracle': 'true', 'model': 'true', 'nontrivial': True,
                'sig': json.dumps(inp, sort_keys=True, default=str), 'tags': tags}

    def run_json(self, inp):
        from datamatrix import convert as cnv
        r = build_pool(inp['ops'], inp['seed'])
        t = inp['t']
        dm = r.pool[t]
        decorate(dm, inp.get('deco', 0))
        warm(dm, inp.get('warm', 0))
        used = sorted(set(r.fam(x) for x in r.pool))
        problems = []
        orig_problems = []
        orig_lit = r.dump_table(dm, orig_problems)
        r.probes(dm, orig_problems)
        try:
            s = cnv.to_json(dm)
            rest = cnv.from_json(s)
        except Exception as e:      # noqa: BLE001
            return self._fail_case(inp, 'JSON round trip raised %r' % (e,), ['json'])
        if not isinstance(s, str) or not isinstance(rest, world.DataMatrix):
            return self._fail_case(inp, 'JSON round trip returned %s / %s' % (type(s).__name__, type(rest).__name__), ['json'])
        pyfail = None
        self._stage = 'from_json'
        if r.dump_table(dm, []) != orig_lit:
            pyfail = 'to_json changed the original object'
        rest_lit = r.dump_table(rest, problems)
        r.probes(rest, problems)
        doc = doc_lit(s)
        if doc is None:
            pyfail = pyfail or 'JSON text is not an object with the keys rowid, columns'
            doc = '([], [])'
        # perturbation of a copy
        pert = inp.get('perturb') or {'k': 'none'}
        same_text = None
        b_lit = orig_lit
        r.apply({'op': 'slice', 't': t, 'a': None, 'b': None}, seed=1)
        c = len(r.pool) - 1
        target = c
        if pert['k'] == 'cell':
            r.apply({'op': 'setcell', 't': c, 'name': pert['name'], 'addr': {'k': 'int', 'i': pert['i']},
                     'rhs': {'k': 'scalar', 'v': pert['v']}}, seed=1)
        elif pert['k'] == 'name':
            r.apply({'op': 'rename', 't': c, 'old': pert['old'], 'new': pert['new']}, seed=1)
        elif pert['k'] == 'order':
            out, new = r.apply({'op': 'getrows', 't': c, 'l': pert['l']}, seed=1)
            if new:
                target = len(r.pool) - 1
        try:
            s2 = cnv.to_json(r.pool[target])
            same_text = (s2 == s)
            b_lit = r.dump_table(r.pool[target], [])
        except Exception as e:      # noqa: BLE001
            pyfail = pyfail or 'to_json of the perturbed copy raised %r' % (e,)
            same_text = False
        problems = [p for p in problems if p not in orig_problems]
        if problems and not pyfail:
            pyfail = 'python-side probes: ' + '; '.join(problems[:3])
        oracle = '(json_case %s %s %s && text_case %s %s %s)' % (nats(used), orig_lit, rest_lit, orig_lit, b_lit,
                                                                   L.boolean(same_text))
        model = '(m_json_doc %s %s && m_from_json %s %s && m_text %s %s %s)' % (
            orig_lit, doc, orig_lit, rest_lit, orig_lit, b_lit, L.boolean(same_text))
        if orig_problems:
            model = 'true'
        kinds = sorted(set(kd for _n, kd in histgen.col_kinds(dm) if kd))
        return {
            'input': inp, 'observed': {'text': s[:400], 'original_malformed': orig_problems[:2], 'same_text_after_perturbation': same_text, 'rows': len(dm)},
            'pyfail': pyfail, 'oracle': oracle, 'model': model,
            'nontrivial': len(dm) > 0 and len(dm._cols) > 0 and (pert['k'] == 'none' or not same_text),
            'sig': json.dumps(inp, sort_keys=True, default=str),
            'tags': ['json', 'perturb-' + pert['k'], 'deco' if inp.get('deco') else 'plain', 'rows%d' % min(len(dm), 9)] + kinds
                    + (['text-differs'] if not same_text else ['text-equal']) + (['orig-malformed'] if orig_problems else []),
        }

    def run_pandas(self, inp):
        from datamatrix import convert as cnv
        import pandas as pd
        r = build_pool(inp['ops'], inp['seed'])
        dm = r.pool[inp['t']]
        decorate(dm, inp.get('deco', 0))
        problems = []
        orig_lit = r.dump_table(dm, problems)
        try:
            df = cnv.to_pandas(dm)
        except Exception as e:      # noqa: BLE001
            return self._fail_case(inp, 'to_pandas raised %r' % (e,), ['pandas'])
        if not isinstance(df, pd.DataFrame):
            return self._fail_case(inp, 'to_pandas returned a %s' % type(df).__name__, ['pandas'])
        pyfail = None
        frame = []
        for j, name in enumerate(df.columns):
            vals = list(df.iloc[:, j])
            frame.append('(%s, %s)' % (L.string(str(name)), L.lst(pcell(x) for x in vals)))
        if len(dm._cols) and len(df) != len(dm):
            pyfail = 'DataFrame has %d rows, the DataMatrix %d' % (len(df), len(dm))
        series = []
        for name in dm._cols:
            try:
                ser = cnv.to_pandas(dm[name])
            except Exception as e:      # noqa: BLE001
                pyfail = pyfail or 'to_pandas(column %s) raised %r' % (name, e)
                continue
            if not isinstance(ser, pd.Series):
                pyfail = pyfail or 'to_pandas(column) returned a %s' % type(ser).__name__
                continue
            series.append('(%s, %s)' % (L.string(name), L.lst(pcell(x) for x in list(ser))))
        if r.dump_table(dm, []) != orig_lit:
            pyfail = pyfail or 'to_pandas changed the original object'
        kinds = sorted(set(kd for _n, kd in histgen.col_kinds(dm) if kd))
        return {
            'input': inp, 'observed': {'columns': [str(c) for c in df.columns], 'rows': len(df),
                                       'dtypes': [str(x) for x in df.dtypes]},
            'pyfail': pyfail,
            # a malformed original (e.g. an IntColumn holding float64 data) is dumped lossily: cannot be judged
            'oracle': 'true' if problems else '(pandas_case %s %s %s)' % (orig_lit, L.lst(frame), L.lst(series)),
            'model': 'true' if problems else '(m_pandas %s %s)' % (orig_lit, L.lst(frame)),
            'nontrivial': len(dm) > 0 and len(dm._cols) > 0,
            'sig': json.dumps(inp, sort_keys=True, default=str),
            'tags': ['pandas', 'rows%d' % min(len(dm), 9)] + kinds + (['orig-malformed'] if problems else []),
        }

    def run_series(self, inp):
        """Python-side only: `ltable` has no series kind."""
        from datamatrix import convert as cnv, SeriesColumn
        r = build_pool(inp['ops'], inp['seed'])
        dm = r.pool[inp['t']]
        decorate(dm, inp.get('deco', 0))
        rng = random.Random(inp.get('fseed', 0))
        depth = inp.get('depth', 3)
        pool_vals = [0.0, 1.0, -2.5, float('nan'), 1e10, 0.5]
        with warnings.catch_warnings():
            warnings.simplefilter('ignore')
            dm['ser'] = SeriesColumn(depth=depth)
            for i in range(len(dm)):
                dm['ser'][i] = [rng.choice(pool_vals) for _ in range(depth)]
            why = None

            def same(a, b, what, ids_from_zero):
                if list(a._cols.keys()) != list(b._cols.keys()) and sorted(a._cols) != sorted(b._cols):
                    return '%s: column names %r vs %r' % (what, list(a._cols), list(b._cols))
                ida, idb = [int(x) for x in a._rowid], [int(x) for x in b._rowid]
                if (list(range(len(ida))) if ids_from_zero else ida) != idb:
                    return '%s: row ids %r vs %r' % (what, ida, idb)
                for name, col in a._cols.items():
                    oc = b._cols[name]
                    if type(col) is not type(oc):
                        return '%s: column %s has type %s vs %s' % (what, name, type(col).__name__, type(oc).__name__)
                    if oc._datamatrix is not b:
                        return '%s: column %s does not belong to the restored table' % (what, name)
                    if hasattr(col, 'depth'):
                        if col.depth != oc.depth or not np.array_equal(np.asarray(col._seq, dtype=float),
                                                                       np.asarray(oc._seq, dtype=float), equal_nan=True):
                            return '%s: series column %s differs' % (what, name)
                        if [int(x) for x in oc._rowid] != idb:
                            return '%s: series column %s has other row ids than its table' % (what, name)
                    elif [pyobs.val(x) if not isinstance(x, np.generic) else pyobs.val(x.item()) for x in col] != \
                            [pyobs.val(x) if not isinstance(x, np.generic) else pyobs.val(x.item()) for x in oc]:
                        return '%s: column %s differs' % (what, name)
                return None
            try:
                rest = do_pickle(dm, inp['mode'], tag=1)
                why = same(dm, rest, 'pickle ' + inp['mode'], False)
                if why is None and rest._id == dm._id:
                    why = 'restored table has the family of the original'
                if why is None:
                    n = len(dm)
                    dm.length = n + 2
                    rest.length = n + 2
                    why = same(dm, rest, 'after growing both', False)
                if why is None:
                    back = cnv.from_json(cnv.to_json(dm))
                    why = same(dm, back, 'json', True)
            except Exception as e:      # noqa: BLE001
                why = 'series round trip raised %r' % (e,)
        return {'input': inp, 'observed': {'rows': len(dm), 'depth': depth, 'problem': why}, 'pyfail': why,
                'oracle': 'true', 'model': 'true', 'nontrivial': len(dm) > 0,
                'sig': json.dumps(inp, sort_keys=True, default=str), 'tags': ['series-python-side', 'mode-' + inp['mode']]}

    # ------------------------------------------------------------ protocol
    def rerun(self, inp):
        with warnings.catch_warnings():
            warnings.simplefilter('ignore')
            self._stage = 'setup'
            try:
                kind = inp['kind']
                if kind == 'pickle':
                    return self.run_pickle(inp)
                if kind == 'json':
                    return self.run_json(inp)
                if kind == 'pandas':
                    return self.run_pandas(inp)
                return self.run_series(inp)
            except Exception as e:      # noqa: BLE001
                if self._stage == 'setup':
                    raise               # the input itself is unusable (e.g. a shrunk history without table t)
                # the converted / restored object broke the dumper, a probe or a follow-up operation
                import traceback
                tb = traceback.extract_tb(e.__traceback__)[-1]
                return self._fail_case(inp, 'the %s object cannot be used like the original: %r (%s:%d)' % (
                    self._stage, e, os.path.basename(tb.filename), tb.lineno), [inp['kind'], 'unusable-object'])
            finally:
                shutil.rmtree(os.path.join(fw.WORK, 'c17-files-%d' % os.getpid()), ignore_errors=True)

    def gen_perturb(self, rng, dm):
        n = len(dm)
        cols = [(nm, kd) for nm, kd in histgen.col_kinds(dm) if kd]
        c = rng.random()
        if c < 0.4 and cols and n:
            name, kind = rng.choice(cols)
            return {'k': 'cell', 'name': name, 'i': rng.randrange(n), 'v': pyobs.enc(histgen.pick_value(rng, kind, 0))}
        if c < 0.6 and cols:
            return {'k': 'name', 'old': rng.choice(cols)[0], 'new': rng.choice(['e', 'f', 'zz', 'A'])}
        if c < 0.85 and n >= 2:
            l = list(range(n))
            while l == list(range(n)):
                rng.shuffle(l)
            return {'k': 'order', 'l': l}
        return {'k': 'none'}

    def search(self, rng, tier, broken):
        return self.generate(rng, tier, nh=150 if tier == 'quick' else 600)

    def generate(self, rng, tier, nh=None):
        cases = []
        nh = nh or (70 if tier == 'quick' else 500)
        lo, hi = (8, 18) if tier == 'quick' else (8, 30)
        mi = 0
        for h in range(nh):
            seed = rng.randrange(1 << 30)
            sub = random.Random(seed)
            ops_list = histgen.gen_history(sub, sub.randint(lo, hi), seed=seed)
            r = build_pool(ops_list, seed)
            npool = len(r.pool)
            base = {'ops': ops_list, 'seed': seed}

            def deco():
                return sub.randint(1, 3) if sub.random() < 0.4 else 0
            order = list(range(npool))
            sub.shuffle(order)
            for t in order[:4]:
                mode = MODES[mi % len(MODES)]
                mi += 1
                cases.append(self.rerun(dict(base, kind='pickle', t=t, mode=mode, warm=sub.randint(0, 2), deco=deco(),
                                             fseed=sub.randrange(1 << 30), nfollow=sub.randint(1, 4))))
            for t in order[:2]:
                dm = r.pool[t]
                cases.append(self.rerun(dict(base, kind='json', t=t, warm=sub.randint(0, 2), deco=deco(),
                                             perturb=self.gen_perturb(sub, dm))))
            t = order[-1]
            cases.append(self.rerun(dict(base, kind='pandas', t=t, deco=deco())))
            if h % 2 == 0:
                cases.append(self.rerun(dict(base, kind='series', t=order[0], mode=MODES[(mi + 3) % len(MODES)], deco=deco(),
                                             fseed=sub.randrange(1 << 30), depth=sub.randint(1, 4))))
        return cases

    def shrink_candidates(self, inp):
        ops_list = inp['ops']
        n = len(ops_list)
        if inp.get('follow'):
            f = inp['follow']
            for i in range(len(f) - 1, -1, -1):
                yield dict(inp, follow=f[:i] + f[i + 1:])
        if inp.get('warm'):
            yield dict(inp, warm=0)
        if inp.get('deco'):
            yield dict(inp, deco=0)
        if inp.get('perturb') and inp['perturb']['k'] != 'none':
            yield dict(inp, perturb={'k': 'none'})
        creating = ('new', 'select', 'merge', 'slice', 'getrows', 'sort', 'shuffle', 'sample', 'concat')
        for i in range(n - 1, -1, -1):
            if ops_list[i]['op'] not in creating:
                yield dict(inp, ops=ops_list[:i] + ops_list[i + 1:])
        # drop trailing operations that come after the creation of table t
        for m in range(n - 1, 0, -1):
            made = sum(1 for o in ops_list[:m] if o['op'] in creating)
            if made > inp['t']:
                yield dict(inp, ops=ops_list[:m])

    def key(self, case):
        inp = case['input']
        k = inp.get('kind', '?')
        if k == 'pickle':
            return 'pickle %s follow %s' % (inp.get('mode'), ' '.join(o['op'] for o in inp.get('follow') or []))
        if k == 'json':
            return 'json perturb %s' % (inp.get('perturb') or {}).get('k')
        return k


def nats(l):
    return L.lst(L.nat(x) for x in l)


PROP = C17()
