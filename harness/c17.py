"""C17 -- pickle, JSON and pandas conversion preserve the table.

Cases start from a table of the pool a seeded random operation history leaves
behind (reordered, selected, resized, aliased columns, populated caches); a third of them get one or two
SeriesColumns (depths 1..50, NaN/inf samples, both defaultnan settings) and are then reordered / selected /
resized / emptied again, so that series state is reached through histories too.
  pickle : pickle.dumps/loads protocols 0-5 and io.writepickle/readpickle; the restored object graph is dumped and
           judged in Coq (invariant, same table, same series, fresh family); unrelated and related "twin" tables are
           created BEFORE and IMMEDIATELY AFTER the restore (fresh DataMatrix, a second unpickle, from_json, a copy);
           then the same follow-up operations (incl. merging / indexing / assigning / concatenating ACROSS the twins)
           run on the original and on the restored side (world.Runner.apply) and every changed table is dumped
           pairwise; the family partition of the two sides must be isomorphic and all root families distinct;
           the module's id counter is read around every restore / construction and compared with the id kernels;
  json   : to_json/from_json round trip, the parsed document vs the model's, text (in)equality after a
           single-cell / series-sample / depth / name / row-order perturbation of a copy, relatedness probes;
  pandas : DataFrame / Series content row by row; a series cell must come back as its row of numbers.
           a quarter of the tables carry a non-default CONFIGURATION (inp['cfg']: default_col_type = IntColumn /
           FloatColumn set on the final table, sorted = False) and get follow-up operations whose result DEPENDS on it:
           a new column created by value (list / tuple / scalar; dm[name] = ... ), through a Row write
           (dm[i].new = v), `dm << {name: [...]}`, growth by the length setter (default cells of every column type,
           of series with defaultnan True / False);
  reser  : ONE object serialised again and again (to_json, pickle.dumps / io.writepickle, to_pandas) with one in-place
           edit between two serialisations and NOTHING else in between (no table is constructed, no other call of the
           library; everything is read back only after the last serialisation): cell writes by index / slice / list /
           selection / Row, series sample / sample-slice / row writes, setallrows, depth change, column deletion by
           del item / attribute / object, (re-)typing by item and by attribute, new columns, aliasing, rename, resize,
           row deletion, sorted flag.  Every text / payload is judged against the object graph dumped right after it
           was produced, and consecutive texts must differ when the documents do.
  twice  : the SAME file / bytes / JSON text read two or three times in one process (io.readpickle of one path, also by
           a relative path; pickle.load / pickle.loads; from_json), the first result used and modified (cells, new /
           re-typed / aliased columns, rename, resize, row deletion, selections, merges) before and after the second
           read, the second result used against a control table built by an identical second run of the history; also
           the edited table written to the same path before the second read.  Every result is judged in Coq against
           the table that was written, must be a family of its own, own its columns, and share no column / row-id
           object or cell storage with an earlier result; what is done to one result must not show in another.
"""
import json
import math
import os
import pickle
import random
import shutil
import warnings

import numpy as np

import coqlit as L
import framework as fw
import histgen
import pyobs
import world

FOLLOW_WEIGHTS = {
    'new': 0, 'setcolkind': 2, 'setcol': 4, 'setcolfromcol': 1, 'setcell': 10, 'select': 10, 'merge': 10, 'slice': 2,
    'getrows': 2, 'sort': 2, 'shuffle': 1, 'sample': 1, 'setlength': 10, 'delrows': 2, 'delcol': 1, 'rename': 1,
    'concat': 2, 'setsorted': 1, 'setcolfromslice': 1,
}
POST_WEIGHTS = {'select': 3, 'slice': 3, 'getrows': 3, 'sort': 4, 'shuffle': 2, 'setlength': 3, 'sample': 1, 'delrows': 1}
MODES = ['p0', 'p1', 'p2', 'p3', 'p4', 'p5', 'file', 'file0', 'file2', 'file5']
TWINS_BEFORE = ['new', 'unpickle', 'json']
TWINS_AFTER = ['new', 'new', 'unpickle', 'json', 'copy']
SER_VALS = [0.0, 1.0, -2.5, float('nan'), 1e10, 0.5, float('inf'), float('-inf'), -0.0, 1e-300, 3.25]
DEPTHS = [1, 2, 3, 4, 5, 5, 6, 8, 8, 50]
# in-place operations only (nothing here returns a new table)
EDIT_WEIGHTS = {'new': 0, 'setcolkind': 3, 'setcol': 3, 'setcolfromcol': 2, 'setcell': 16, 'setlength': 3, 'delrows': 2,
                'delcol': 2, 'rename': 3, 'setsorted': 2, 'setcolfromslice': 1}
SEL_WEIGHTS = {'select': 3, 'slice': 3, 'getrows': 3}
RESER_WHAT = ['json', 'json', 'pickle', 'both', 'both', 'all']
SER_EDITS = ['sample', 'sample', 'sample', 'samples', 'colsample', 'row', 'rows', 'setallrows', 'setallrows', 'setallrows1',
             'depth', 'depth', 'depth', 'delcol', 'delcol', 'rename', 'retype', 'retype', 'reseries']


def _filedir():
    d = os.path.join(fw.WORK, 'c17-files-%d' % os.getpid())
    os.makedirs(d, exist_ok=True)
    return d


def _M():
    """the module that holds the global family-id counter `_id`"""
    import datamatrix._datamatrix._datamatrix as m
    return m


def is_series(col):
    from datamatrix._datamatrix._seriescolumn import _SeriesColumn
    return isinstance(col, _SeriesColumn)


def build_pool(ops_list, seed):
    r = world.Runner()
    for si, o in enumerate(ops_list):
        r.apply(dict(o), seed=seed * 7919 + si)
    for dm in r.pool:
        r.fam(dm)
    return r


def warm(dm, level):
    """Populate the position / max caches the way selections and resizing do."""
    if level <= 0 or len(dm) == 0:
        return
    ids = [int(x) for x in dm._rowid]
    dm._rowid.index(ids[0])
    if level >= 2:
        dm._rowid.max
        for col in dm._cols.values():
            if isinstance(col._rowid, world.Index):
                col._rowid.index(ids[-1])
                col._rowid.max


def decorate(dm, level):
    """Derived columns inserted by reference (col @ str, col / 2): the reachable MixedColumns whose cells are
    numeric-looking text or whole-number floats, which plain assignment would have converted."""
    if not level or len(dm) == 0:
        return
    src = [c for c in dm._cols.values() if world.kind_of(c)]
    if not src:
        return
    col = src[(level - 1) % len(src)]
    for name, f in (('lab', lambda c: c @ str), ('hlf', lambda c: c / 2)):
        try:
            with warnings.catch_warnings():
                warnings.simplefilter('ignore')
                dm[name] = f(col)
        except Exception:       # noqa: BLE001  (text cells cannot be halved, ...)
            pass


def foreign(dm):
    """The table as it comes out of a pickle file of another origin: a file written by the release before the
    repair of DataMatrix._set_col, in which `dm.lab = dm.a @ str` / `dm.hlf = dm.a / 2` inserted the derived
    column by reference, so that a MixedColumn holds numeric-looking text ('7', '2.5', 'nan') and whole-number
    floats (5.0).  No assignment can store such cells any more, but files holding them exist, reading them is
    public API, and once they are in a table every round trip has to keep them.  The file is emulated: the cells
    are written into a scratch copy that is pickled and thrown away; the case's table is what pickle.loads returns."""
    scratch = dm[:]
    src = next((c for c in scratch._cols.values() if world.kind_of(c)), None)
    if src is not None:
        cells = [x.item() if isinstance(x, np.generic) else x for x in src]
        for name, seq in (('lab', [x if isinstance(x, str) else str(x) for x in cells]),
                          ('hlf', [float(x) / 2 if isinstance(x, (int, float)) and not isinstance(x, bool) else x
                                   for x in cells])):
            scratch[name] = world.MixedColumn
            scratch._cols[name]._seq = seq           # what the earlier release stored
    return pickle.loads(pickle.dumps(scratch, 2))


def add_series(dm, sp):
    """dm[name] = SeriesColumn(depth, defaultnan) with every row written (seeded)."""
    from datamatrix import SeriesColumn
    rng = random.Random(sp['fseed'])
    d = sp['depth']
    dm[sp['name']] = SeriesColumn(depth=d, defaultnan=bool(sp.get('dnan', True)))
    col = dm[sp['name']]
    style = sp.get('style', 'mixed')
    for i in range(len(dm)):
        if style == 'ramp':
            row = [(i + 1) * j + 0.25 for j in range(d)]
        elif style == 'nan':
            row = [float('nan')] * d
        else:
            row = [rng.choice(SER_VALS) for _ in range(d)]
        col[i] = row
    if style == 'ramp' and len(dm) > 1:
        col[1, 0] = float('nan')
        col[0, d - 1] = float('inf')


def do_pickle(dm, mode, tag=0):
    from datamatrix import io
    if mode.startswith('p'):
        return pickle.loads(pickle.dumps(dm, int(mode[1:])))
    path = os.path.join(_filedir(), 'sub', 't%d.pkl' % tag)
    if mode == 'file':
        io.writepickle(dm, path)
    else:
        io.writepickle(dm, path, protocol=int(mode[4:]))
    try:
        return io.readpickle(path)
    finally:
        try:
            os.remove(path)         # the directory goes away with the case (rerun)
        except OSError:
            pass


def subst(o, pairs, side):
    o = json.loads(json.dumps(o))
    for k in ('t', 't2'):
        if k in o:
            o[k] = pairs[o[k]][side]
    if 'addr' in o and o['addr'].get('k') == 'sel':
        o['addr']['t2'] = pairs[o['addr']['t2']][side]
    if isinstance(o.get('rhs'), dict) and o['rhs'].get('k') == 'col':        # a live column object as the value
        o['rhs']['t2'] = pairs[o['rhs']['t2']][side]
    return o


def refs_ok(o, npairs):
    """every table the operation names is one of the pairs"""
    l = [o[k] for k in ('t', 't2') if k in o]
    if 'addr' in o and o['addr'].get('k') == 'sel':
        l.append(o['addr']['t2'])
    if isinstance(o.get('rhs'), dict) and o['rhs'].get('k') == 'col':
        l.append(o['rhs']['t2'])
    return all(isinstance(i, int) and 0 <= i < npairs for i in l)


class _View:
    """what histgen.gen_op sees: the original side of every pair"""
    def __init__(self, r, pairs):
        self.pool = [r.pool[a] for a, _b in pairs]


CFG_VALS = [1, 2, -3, '2', '7', 2.0, 2.5, 'x', '', None, float('nan'), 10**3]


def gen_cfg_follow(rng, r, pairs, k):
    """a follow-up whose result depends on the configuration of the table (default column type, sorted flag, the
    default cell of each column): a NEW column created by value, by a Row write, `<<` with a dict, growth"""
    dm = r.pool[pairs[0][0]]
    n = len(dm)
    name = 'nw%d' % k
    c = rng.random()
    vals = CFG_VALS[:3] * 3 + CFG_VALS

    def v():
        return pyobs.enc(rng.choice(vals))
    if c < 0.4:
        if rng.random() < 0.3:
            return {'op': 'setcol', 't': 0, 'name': name, 'rhs': {'k': 'scalar', 'v': v()}}
        return {'op': 'setcol', 't': 0, 'name': name, 'rhs': {'k': 'seq', 'vs': [v() for _ in range(n)]}}
    if c < 0.6 and n:
        return {'op': 'setcell', 't': 0, 'name': name, 'addr': {'k': 'row', 'i': rng.randrange(n)},
                'rhs': {'k': 'scalar', 'v': v()}}
    if c < 0.75:
        d = {name: [v() for _ in range(rng.choice([1, 2]))]}
        cols = [nm for nm, kd in histgen.col_kinds(dm) if kd]
        if cols and rng.random() < 0.6:
            d[rng.choice(cols)] = [v()]
        return {'op': 'y', 'how': 'lshiftdict', 't': 0, 'd': d}
    if c < 0.85:
        return {'op': 'y', 'how': 'newrowcol', 't': 0, 'i': rng.randrange(n) if n else 0, 'name': name, 'v': v()}
    return {'op': 'setlength', 't': 0, 'n': n + rng.choice([1, 2])}


def apply_any(r, o, seed=0):
    """world.Runner.apply, plus the follow-ups the shared alphabet lacks ({'op': 'y', ...})"""
    if o['op'] != 'y':
        return r.apply(o, seed=seed)
    dm = r.pool[o['t']]
    res = None
    with warnings.catch_warnings():
        warnings.simplefilter('ignore')
        try:
            if o['how'] == 'lshiftdict':
                res = dm << {k: [pyobs.dec(x) for x in vs] for k, vs in o['d'].items()}
            elif o['how'] == 'newrowcol':
                dm[o['i']][o['name']] = pyobs.dec(o['v'])         # Row.__setitem__ with a name the table lacks
            else:
                raise AssertionError(o)
        except AssertionError:
            raise
        except Exception as e:          # noqa: BLE001
            return '(Err %s)' % pyobs.exn_name(e), False
    if res is not None:
        if not isinstance(res, world.DataMatrix):
            return '(Err OtherError)', False
        r.pool.append(res)
        return 'OkNew', True
    return 'OkUnit', False


def apply_cfg(dm, cfg):
    """the configuration of the table that is serialised (set last: selections / copies start with the defaults)"""
    if not cfg:
        return
    if cfg.get('dflt'):
        dm.default_col_type = world.coltype(cfg['dflt'])
    if cfg.get('unsorted'):
        dm.sorted = False


def gen_follow(rng, r, pairs, first, cfg=None):
    if cfg and rng.random() < 0.5:
        return gen_cfg_follow(rng, r, pairs, rng.randrange(100))
    if first and rng.random() < 0.5:
        n = len(r.pool[pairs[0][0]])
        return {'op': 'setlength', 't': 0, 'n': n + rng.choice([1, 2, 3])}
    if len(pairs) > 1 and rng.random() < 0.4:
        # relatedness: use a twin (unrelated table, second restore, copy) together with the table
        j = rng.randrange(1, len(pairs))
        dm = r.pool[pairs[0][0]]
        cols = [(nm, kd) for nm, kd in histgen.col_kinds(dm) if kd]
        c = rng.random()
        if c < 0.3 or not cols:
            return {'op': 'merge', 'mop': rng.choice(['MAnd', 'MOr', 'MXor']), 't': 0, 't2': j}
        if c < 0.45:
            return {'op': 'merge', 'mop': rng.choice(['MAnd', 'MOr', 'MXor']), 't': j, 't2': 0}
        if c < 0.8:
            name, kind = rng.choice(cols)
            return {'op': 'setcell', 't': 0, 'name': name, 'addr': {'k': 'sel', 't2': j},
                    'rhs': {'k': 'scalar', 'v': pyobs.enc(histgen.pick_value(rng, kind, 0))}}
        if c < 0.9:
            other = r.pool[pairs[j][0]]
            oc = [(nm, kd) for nm, kd in histgen.col_kinds(other) if kd]
            if oc:
                name, kind = rng.choice(oc)
                return {'op': 'setcell', 't': j, 'name': name, 'addr': {'k': 'sel', 't2': 0},
                        'rhs': {'k': 'scalar', 'v': pyobs.enc(histgen.pick_value(rng, kind, 0))}}
        return {'op': 'concat', 't': 0, 't2': j}
    if rng.random() < 0.25:
        return {'op': 'merge', 'mop': rng.choice(['MAnd', 'MOr', 'MXor']), 't': 0, 't2': 0}
    o = histgen.gen_op(rng, _View(r, pairs), FOLLOW_WEIGHTS, bad_rate=0.04, max_pool=8, max_rows=9)
    if o['op'] == 'new':
        return {'op': 'setlength', 't': 0, 'n': len(r.pool[pairs[0][0]]) + 1}
    return o


class _One:
    def __init__(self, dm):
        self.pool = [dm]


def gen_post(rng, dm):
    o = histgen.gen_op(rng, _One(dm), POST_WEIGHTS, bad_rate=0.0, max_pool=99, max_rows=9)
    if o['op'] == 'new':
        o = {'op': 'slice', 't': 0, 'a': None, 'b': None}
    if rng.random() < 0.06:
        o = {'op': 'slice', 't': 0, 'a': None, 'b': 0}          # the empty table
    return o


# ------------------------------------------------------------------ in-place edits of one table (family `reser`)
def _hx(x):
    return float(x).hex()


def gen_sel(rng, dm):
    """a table derived from dm BEFORE the first serialisation (operand of selection-addressed writes)"""
    o = histgen.gen_op(rng, _One(dm), SEL_WEIGHTS, bad_rate=0.0, max_pool=99, max_rows=9)
    if o['op'] == 'new':
        o = {'op': 'slice', 't': 0, 'a': None, 'b': max(1, len(dm) // 2)}
    return o


def gen_edit(rng, r, view):
    """One in-place edit of the table view[0]; table references are positions in `view` (0 = the table, 1.. = the
    selections taken from it before the first serialisation).  Either one of the in-place operations of the shared
    alphabet (world.Runner.apply) or {'op': 'x', 'how': ...}: the edits the alphabet lacks (series samples, setallrows,
    depth, deleting / renaming / re-typing a series column, typing by attribute, a new series column)."""
    dm = r.pool[view[0]]
    n = len(dm)
    sers = [nm for nm, col in dm._cols.items() if is_series(col)]
    plain = [nm for nm, kd in histgen.col_kinds(dm) if kd]
    if sers and rng.random() < 0.5:
        name = rng.choice(sers)
        d = dm._cols[name].depth
        how = rng.choice(SER_EDITS)
        v = _hx(rng.choice([7.5, float('nan'), float('inf'), -1.0, 0.0, 70.5, 1e-300]))
        i = rng.randrange(n) if n and rng.random() < 0.95 else n
        i = i - n if n and rng.random() < 0.2 else i
        j = rng.randrange(d) if d else 0
        if how == 'sample':
            return {'op': 'x', 'how': how, 'name': name, 'i': i, 'j': j - d if rng.random() < 0.2 else j, 'v': v}
        if how == 'samples':
            return {'op': 'x', 'how': how, 'name': name, 'i': i, 'a': rng.choice([None, 0, 1, j]),
                    'b': rng.choice([None, d, j + 1, -1]), 'v': v}
        if how == 'colsample':
            return {'op': 'x', 'how': how, 'name': name, 'j': j, 'v': v}
        if how == 'row':
            return {'op': 'x', 'how': how, 'name': name, 'i': i,
                    'vs': [_hx(rng.choice(SER_VALS)) for _ in range(d if rng.random() < 0.9 else d + 1)]}
        if how == 'rows':
            return {'op': 'x', 'how': how, 'name': name, 'a': rng.choice([None, 0, 1]), 'b': rng.choice([None, 1, n, -1]), 'v': v}
        if how == 'setallrows':
            return {'op': 'x', 'how': how, 'name': name, 'vs': [_hx(rng.choice(SER_VALS)) for _ in range(d)]}
        if how == 'setallrows1':
            return {'op': 'x', 'how': 'setallrows', 'name': name, 'v': v}
        if how == 'depth':
            return {'op': 'x', 'how': how, 'name': name, 'd': max(0, d + rng.choice([1, 2, -1, -1, -2, 0] if d > 1 else [1, 2, 3]))}
        if how == 'delcol':
            return {'op': 'delcol', 't': 0, 'name': name, 'how': rng.choice(['item', 'attr', 'obj'])}
        if how == 'rename':
            return {'op': 'rename', 't': 0, 'old': name, 'new': rng.choice(['e', 'f', 'a', 'zz'])}
        if how == 'retype':
            if rng.random() < 0.5:
                return {'op': 'setcolkind', 't': 0, 'name': name, 'kind': rng.choice(world.KINDS)}
            return {'op': 'x', 'how': 'settype', 'name': name, 'kind': rng.choice(world.KINDS)}
        return {'op': 'x', 'how': 'newseries', 'name': name, 'd': rng.choice([1, 2, d, d + 1]), 'dnan': rng.random() < 0.7}
    c = rng.random()
    if c < 0.12:
        name = rng.choice(histgen.NAMES + plain + ['e'])
        if rng.random() < 0.75:
            # dm.<name> = IntColumn: a new empty column, or an existing one re-typed (its cells reset)
            return {'op': 'x', 'how': 'settype', 'name': name, 'kind': rng.choice(world.KINDS)}
        return {'op': 'x', 'how': 'newseries', 'name': rng.choice(['s', 'w', name]), 'd': rng.choice(DEPTHS[:-1]),
                'dnan': rng.random() < 0.7}
    if plain and c < 0.2:
        return {'op': 'delcol', 't': 0, 'name': rng.choice(plain), 'how': rng.choice(['item', 'attr', 'obj'])}
    for _ in range(40):
        o = histgen.gen_op(rng, _View(r, [(p, p) for p in view]), EDIT_WEIGHTS, bad_rate=0.04, max_pool=99, max_rows=9)
        if o.get('t') == 0 and o['op'] != 'new':
            return o
    return {'op': 'setsorted', 't': 0, 'b': not dm._sorted}


def edit_name(e):
    if e['op'] == 'x':
        return e['how']
    return e['op'] + ('-' + e['addr']['k'] if 'addr' in e else '') + ('-' + e['how'] if 'how' in e else '')


def apply_x(dm, e):
    """the edits of gen_edit that are not in the shared alphabet; nothing but the edit itself is executed"""
    from datamatrix import SeriesColumn
    how = e['how']
    with warnings.catch_warnings():
        warnings.simplefilter('ignore')
        try:
            if how == 'settype':
                setattr(dm, e['name'], world.coltype(e['kind']))
                return 'OkUnit'
            if how == 'newseries':
                dm[e['name']] = SeriesColumn(depth=e['d'], defaultnan=bool(e.get('dnan', True)))
                return 'OkUnit'
            col = dm[e['name']]
            v = float.fromhex(e['v']) if 'v' in e else [float.fromhex(x) for x in e['vs']]
            if how == 'sample':
                col[e['i'], e['j']] = v
            elif how == 'samples':
                col[e['i'], e['a']:e['b']] = v
            elif how == 'colsample':
                col[:, e['j']] = v
            elif how == 'row':
                col[e['i']] = v
            elif how == 'rows':
                col[e['a']:e['b']] = v
            elif how == 'setallrows':
                col.setallrows(v)
            elif how == 'depth':
                col.depth = e['d']
            else:
                raise AssertionError(e)
        except AssertionError:
            raise
        except Exception as ex:         # noqa: BLE001
            return '(Err %s)' % pyobs.exn_name(ex)
    return 'OkUnit'


# ------------------------------------------------------------------ literals
def pcell(x):
    if x is None:
        return 'PMiss'
    try:
        import pandas as pd
        if x is pd.NA or x is pd.NaT:
            return 'PMiss'
    except Exception:      # noqa: BLE001
        pass
    if isinstance(x, (bool, np.bool_)):
        return 'POdd'
    if isinstance(x, (int, np.integer)):
        return '(PNum (NInt %s))' % L.z(int(x))
    if isinstance(x, (float, np.floating)):
        x = float(x)
        if math.isnan(x):
            return 'PMiss'
        return '(PNum (NFlt %s))' % L.fl(x)
    if isinstance(x, str):
        return '(PText %s)' % L.string(x)
    return 'POdd'


def xpcell(x):
    """a cell read back from a DataFrame / Series: a 1-D float array is a row of numbers"""
    if isinstance(x, np.ndarray):
        if x.ndim == 1 and x.dtype.kind == 'f':
            return '(XRow %s)' % L.lst(L.fl(float(v)) for v in x)
        return '(XCell POdd)'
    return '(XCell %s)' % pcell(x)


def rows_lit(seq):
    return L.lst(L.lst(L.fl(float(v)) for v in row) for row in seq)


def dump_x(r, dm, problems):
    """the object graph of a DataMatrix as an `xtable` (Model/XTable.v): like world.Runner.dump_table, with
    SeriesColumn objects"""
    rid, _ids = world.index_coq(dm._rowid, problems)
    objs, names = [], []
    for name, col in dm._cols.items():
        for j, o in enumerate(objs):
            if o is col:
                names.append((name, j))
                break
        else:
            objs.append(col)
            names.append((name, len(objs) - 1))
    cols = []
    for col in objs:
        if is_series(col):
            seq = col._seq
            ok = isinstance(seq, np.ndarray) and seq.ndim == 2 and seq.dtype.kind == 'f'
            if not ok:
                problems.append('SeriesColumn._seq is %s' % (getattr(seq, 'shape', None) and 'an array of shape %r dtype %s' % (
                    seq.shape, seq.dtype) or type(seq).__name__))
            elif seq.shape[1] != col._depth:
                problems.append('SeriesColumn._seq has shape %r but _depth is %r' % (seq.shape, col._depth))
            if not isinstance(col._rowid, np.ndarray):
                problems.append('SeriesColumn._rowid is a %s' % type(col._rowid).__name__)
            if not isinstance(col._depth, (int, np.integer)) or isinstance(col._depth, bool) or col._depth < 0:
                problems.append('SeriesColumn._depth is %r' % (col._depth,))
            cols.append('(XS {| sc_depth := %s; sc_dnan := %s; sc_rowid := %s; sc_cells := %s; sc_owner := %s; sc_tc := %s |})' % (
                L.nat(int(col._depth) if isinstance(col._depth, (int, np.integer)) and 0 <= col._depth < 5000 else 0),
                L.boolean(bool(col.defaultnan)), L.lst(L.N(int(x)) for x in col._rowid),
                rows_lit(seq) if ok else '[]', L.boolean(col._datamatrix is dm), L.boolean(col._typechecking is True)))
            continue
        kind = world.kind_of(col)
        if kind is None:
            problems.append('unsupported column type %s' % type(col).__name__)
            kind = 'KMixed'
        crid, _ = world.index_coq(col._rowid, problems)
        cols.append('(XP {| lc_kind := %s; lc_rowid := %s; lc_cells := %s; lc_owner := %s; lc_tc := %s |})' % (
            kind, crid, world.cells_coq(col, kind, problems), L.boolean(col._datamatrix is dm),
            L.boolean(col._typechecking is True)))
    dk = {world.MixedColumn: 'KMixed', world.FloatColumn: 'KFloat', world.IntColumn: 'KInt'}.get(dm._default_col_type)
    if dk is None:
        problems.append('default column type %r' % (dm._default_col_type,))
        dk = 'KMixed'
    return ('{| x_fam := %s; x_rowid := %s; x_names := %s; x_cols := %s; x_sorted := %s; x_dflt := %s |}' % (
        L.nat(r.fam(dm)), rid, L.lst('(%s, %s)' % (L.string(n), L.nat(j)) for n, j in names),
        L.lst(cols), L.boolean(bool(dm._sorted)), dk))


def jval(x):
    """a JSON scalar as parsed by the stdlib json module -> val"""
    lit = pyobs.val(x)
    return lit if lit is not None else '(VStr "<unsupported json scalar>")'


def doc_lit(text):
    """Parse the implementation's JSON text independently (stdlib json) into the Coq xjdoc literal."""
    d = json.loads(text)
    if list(d.keys()) != ['rowid', 'columns']:
        return None
    cols = []
    for name, pair in d['columns'].items():
        ty, seq = pair
        if isinstance(seq, dict):
            arr, shape = seq['__ndarray__'], seq.get('shape')
            if shape is not None and len(shape) == 2:
                pay = '(JArr %s %s %s)' % (L.nat(shape[0]), L.nat(shape[1]), rows_lit(arr))
            elif ty == 'FloatColumn':
                pay = '(JList %s)' % L.lst(pyobs.val(float(v)) for v in arr)
            else:
                pay = '(JList %s)' % L.lst(jval(v) for v in arr)
        else:
            pay = '(JList %s)' % L.lst(jval(v) for v in seq)
        cols.append('(%s, (%s, %s))' % (L.string(name), L.string(ty), pay))
    return '(%s, %s)' % (L.lst(L.N(int(x)) for x in d['rowid']), L.lst(cols))


def strs(l):
    return L.lst(L.string(s) for s in l)


def nats(l):
    return L.lst(L.nat(x) for x in l)


# ------------------------------------------------------------------ relatedness, observed on the Python side
def rel_obs(A, X):
    """what happens when X is used together with A (nothing here changes A or X when it is refused)"""
    out = []
    name = next(iter(A._cols), None)
    for f in (lambda: bool(A == X), lambda: bool(A != X), lambda: len(A | X), lambda: len(X & A), lambda: len(A ^ X),
              lambda: len(A[name][X]) if name is not None else 'no column'):
        try:
            out.append(f())
        except Exception as e:      # noqa: BLE001
            out.append('exn ' + pyobs.exn_name(e))
    return out


def own_obs(A):
    """merging with / indexing by the table's own selections"""
    n = len(A)
    out = []
    name = next(iter(A._cols), None)
    try:
        S, T = A[:(n + 1) // 2], A[n // 3:]
        for f in (lambda: len(A | S), lambda: len(S & T), lambda: len(S ^ T), lambda: bool(S == A), lambda: bool(S != T),
                  lambda: len(A[name][S]) if name is not None else 'no column'):
            try:
                out.append(f())
            except Exception as e:      # noqa: BLE001
                out.append('exn ' + pyobs.exn_name(e))
    except Exception as e:      # noqa: BLE001
        out.append('slicing raised ' + pyobs.exn_name(e))
    return out


def shared_state(a, b):
    """two tables read from the same file / bytes / text are separate object graphs: -> what they share, or None"""
    if a is b:
        return 'are one object'
    if a._cols is b._cols:
        return 'share their column dict'
    if a._rowid is b._rowid:
        return 'share their row-id object'
    for nb, cb in b._cols.items():
        for na, ca in a._cols.items():
            if ca is cb:
                return 'share the column object %s' % nb
            if ca._rowid is cb._rowid:
                return 'share the row-id object of column %s / %s' % (na, nb)
            sa, sb = ca._seq, cb._seq
            if sa is sb or (isinstance(sa, np.ndarray) and isinstance(sb, np.ndarray) and sa.size and np.shares_memory(sa, sb)):
                return 'share the cell storage of column %s / %s' % (na, nb)
    return None


def not_owned(x):
    """names of the columns of x that do not point back to x"""
    return [n for n, c in x._cols.items() if c._datamatrix is not x]


def nofam(lit):
    import re
    return re.sub(r'x_fam := [^;]*;', '', lit, 1)


TWICE_SRC = ['file', 'loads', 'json', 'file', 'load', 'file-rewrite']


class C17:
    id = 'C17'
    props_file = 'theories/Props/C17.v'
    kernel_files = ['KPersist.v']
    oracle_vos = ['theories/Run/SC17.vo']
    model_vos = ['theories/Run/RC17.vo']
    oracle_imports = ['From DM Require Import Run.SC17.']
    model_imports = ['From DM Require Import Run.SC17 Run.RC17.']
    exhaustive = False
    rule = ('every case takes one table of the pool left by a seeded random operation history (histgen: 8-18 steps '
            'quick, 8-30 thorough; reordered, selected, resized, aliased, unsorted-flag tables, caches warmed at level '
            '0-2); in about 40 % of the cases one or two SeriesColumns (depth 1,2,3,4,5,6,8 or 50, samples incl. NaN, '
            '+-inf, -0.0, both defaultnan settings) are added and the table is then sorted / shuffled / selected / '
            'sliced (also to zero rows) / resized 0-3 more times; 15-35 % of the tables are then replaced by what '
            'pickle.loads returns for an (emulated) file of the release before the _set_col repair: the same table plus '
            'MixedColumns holding numeric-looking text and whole-number floats (cells no assignment can store any '
            'more, but which every round trip must keep). (pickle) unrelated twin tables are created before '
            'the restore; the table is round-tripped through pickle protocols 0-5 or io.writepickle/readpickle; '
            'IMMEDIATELY afterwards further twins are created (fresh DataMatrix of the same shape, a second and third '
            'unpickle, from_json, a copy of original resp. restored); the restored object graph is dumped; then 1-4 '
            'follow-up operations (50 % start by growing; selection, merging with itself / derived tables / the '
            'twins in both operand orders, cell assignment through own selections and through twins, concatenation '
            'with twins, column assignment, resizing, sorting, ...) are applied to the original and to the restored '
            'side and every changed table is dumped pairwise; ==, !=, |, &, ^ and column[table] against every twin are '
            'compared on the Python side; the module id counter is read around every restore and construction. '
            '(json) to_json/from_json round trip, the text parsed independently, the text of a copy perturbed in one '
            'cell / one series sample / the series depth / one name / the row order / not at all; a fresh table and a '
            'second from_json right after; relatedness probes. (pandas) DataFrame and each Series read back row by '
            'row, series cells as rows of numbers. (reser) ONE object is serialised (to_json and/or pickle.dumps '
            'protocols 0-5 / io.writepickle, in a sixth of the cases also to_pandas), edited in place, serialised '
            'again, 1-3 times, with NOTHING between an edit and the next serialisation and nothing but the dump of '
            'the object graph (which constructs no table: the id counter is checked) before the next edit; the '
            'operands of selection-addressed writes are taken before the first serialisation and everything is read '
            'back only after the last one. Edits: cell writes by index / slice / list / selection / Row (also Rows '
            'collected by iteration) incl. refused ones, whole-column assignment, aliasing, slices of columns, '
            '(re-)typing by item and by attribute, new series columns, deletion by del item / attribute / object, '
            'rename, resize, row deletion, sorted flag, and for series columns one sample, a slice of samples, one '
            'sample of every row, a row, a slice of rows, setallrows, depth up / down / to 0, deletion, rename, '
            're-typing. Every text must parse to the document of the object graph dumped right after it was produced, '
            'from_json / pickle.loads / io.readpickle of it must give that table, and two consecutive texts must '
            'differ when the documents do. A case is non-trivial when the table has rows and columns '
            '(pickle: and at least one follow-up operation succeeded; json text: the texts differ; reser: an edit '
            'changed the object graph). (twice) one case per history: the table is written ONCE (io.writepickle, pickle.dump, '
            'pickle.dumps protocols 0 / 2 / 4 / 5, to_json) and read two or three times in the same process '
            '(io.readpickle of the same path -- the later reads by a relative path in 30 % --, pickle.load, pickle.loads of '
            'the same bytes object, from_json of the same text); 0-3 follow-up operations (55 % in-place edits: cell writes, '
            'new / re-typed / aliased columns, rename, resize, row / column deletion; else selections, merges, ...) run on '
            'the original and on the first result BEFORE the second read and 0-2 after it, 0-2 on the second result and '
            'on its control (the table an identical second run of the history builds; for the file-rewrite variant -- the '
            'edited table written to the same path before the second read -- the snapshot of what was written); every '
            'result and every changed pair is dumped and judged in Coq (same table, invariant incl. column ownership, fresh '
            'family, families pairwise distinct); on the Python side the results must share no column object, row-id '
            'object, column dict or cell storage, each must own its columns after every later read, and the dump of one '
            'result must not change when another result is read or edited. '
            '(configuration) 30 % of the pickle and twice cases, 20 % of the reser and 10 % of the json cases set a '
            'configuration on the table that is serialised, after its history: default_col_type = IntColumn / FloatColumn '
            '(80 %) and / or sorted = False (35 %); in these cases half of the follow-up operations are ones whose result '
            'DEPENDS on the configuration: a new column created by value (list / scalar of ints, numeric text, floats, text, '
            'None, NaN: type-checked by the default column type), by a Row write to a name the table lacks (attribute and '
            'item form), `dm << {new: [...], existing: [...]}`, growth by the length setter (default cells of every column, '
            'incl. series with defaultnan False); the restored table must carry the same configuration (x_dflt / x_sorted of '
            'the dump are compared in Coq) and every follow-up must give the same outcome and the same table on both sides. '
            'Distinct by (history, seed, table, series, post-operations, configuration, mode, twins, '
            'follow-ups / selections, edits).')
    trusted_base = [
        'Coq 8.16.1 kernel (coqc; vm_compute for evaluating cases; no native_compute)',
        'translator /verif/translate/gen_persist.py (ast -> Gen/KPersist.v) incl. its pinned statement lists and the '
        'symbolic execution of the `_id` statements in source order',
        'harness/c17.py (incl. the xtable dumper), harness/world.py (runner, probes), harness/histgen.py, Run/SC17.v, Run/RC17.v',
        'Model/LTable.v inv_b/abs/table_eqb, Model/XTable.v (shadow, xinv_b, xabs) and Spec/Persist.v (what "preserved" means)',
        'modelled, not verified: pickle is the identity on the tree of __getstate__ results and keeps object sharing; '
        'dict.update/sorted/str.__contains__; json_tricks (here: /verif/shim) satisfies loads(dumps(x)) = x on '
        'documents of ids, names, type names, cells and 2-D arrays with their shape; pandas.DataFrame/Series '
        'constructors are observed only; the module-level counter `_id` is read with getattr',
    ]
    assumptions = [
        'a SeriesColumn is modelled as a NumericColumn object (bare row-id array, owner, type-checking flag) with '
        '_depth, defaultnan and a 2-D _seq of exact binary64 values; NaN payload bits are not distinguished',
        'the "behaves as on the original" clause is proved as: same abstract table + representation invariant + a family '
        'that no other construction or restore ever gets (any interleaving); for concrete follow-up operations it is '
        'checked by running them on both objects',
        'json: dumps/loads are Section variables with loads (dumps x) = x; the real text is tied by parsing it with the '
        'stdlib json module and comparing the document with the model',
        'pandas: integers beyond 2**53 in a column that also holds None are outside the generated inputs (pandas '
        'infers float64 and rounds them; reported as a defect candidate)',
    ]

    # ------------------------------------------------------------ common set-up
    def setup(self, inp):
        """history -> pool; table t gets its series columns and the post-operations; returns the runner, the
        index of the final table, the table, the (now concrete) post-operations."""
        r = build_pool(inp['ops'], inp['seed'])
        cur = inp['t']
        dm = r.pool[cur]
        decorate(dm, inp.get('deco', 0))
        for sp in inp.get('series') or []:
            add_series(dm, sp)
        post = inp.get('post')
        gen = post is None
        post = [] if gen else post
        prng = random.Random(inp.get('pseed', 0))
        k = 0
        while (gen and k < inp.get('npost', 0)) or (not gen and k < len(post)):
            if gen:
                o = gen_post(prng, r.pool[cur])
                post.append(o)
            else:
                o = post[k]
            k += 1
            o2 = dict(o, t=cur)
            _out, new = r.apply(o2, seed=inp['seed'] * 13 + k)
            if 'perm' in o2:
                o['perm'] = o2['perm']
            if new:
                cur = len(r.pool) - 1
        if inp.get('foreign'):
            r.pool.append(foreign(r.pool[cur]))
            cur = len(r.pool) - 1
        dm = r.pool[cur]
        apply_cfg(dm, inp.get('cfg'))
        warm(dm, inp.get('warm', 0))
        for q in r.pool:
            r.fam(q)
        return r, cur, dm, post

    def _live(self, dm):
        live = {'dm': sorted(dm.__dict__), 'index': sorted(dm._rowid.__dict__)}
        for col in dm._cols.values():
            kd = 'KSer' if is_series(col) else world.kind_of(col)
            if kd:
                live[kd] = sorted(col.__dict__)
        objs = []
        for col in dm._cols.values():
            if not any(col is o for o in objs):
                objs.append(col)
        return live, list(dm.__getstate__()[0]), list(dm._rowid.__getstate__()[0]), [list(c.__getstate__()[0]) for c in objs]

    def _fresh_like(self, dm, idchecks):
        """DataMatrix(length=len(dm)): nothing else, so that it takes the very next counter value"""
        M = _M()
        c0 = M._id
        x = world.DataMatrix(length=len(dm))
        idchecks.append('m_ids_new %s %s %s' % (L.z(c0), L.z(x._id), L.z(M._id)))
        return x

    def _mirror(self, x, dm):
        from datamatrix import SeriesColumn
        for name, col in dm._cols.items():
            if is_series(col):
                x[name] = SeriesColumn(depth=col.depth)
            elif world.kind_of(col):
                x[name] = type(col)

    def _unpickle(self, dm, mode, idchecks, tag=0):
        M = _M()
        c0 = M._id
        rest = do_pickle(dm, mode, tag)
        if isinstance(rest, world.DataMatrix):
            idchecks.append('m_ids_restore %s %s %s' % (L.z(c0), L.z(rest._id), L.z(M._id)))
        return rest

    def _twin(self, kind, dm, rest, mode, idchecks):
        """(table for the original side, table for the restored side, are they roots?).  The one for the restored
        side is created FIRST: it is the construction that follows the restore."""
        from datamatrix import convert as cnv
        if kind == 'new':
            b = self._fresh_like(dm, idchecks)
            a = self._fresh_like(dm, idchecks)
            self._mirror(b, dm)
            self._mirror(a, dm)
            return a, b, [b, a]
        if kind == 'unpickle':
            b = self._unpickle(dm, mode, idchecks, 2)
            a = self._unpickle(dm, mode, idchecks, 3)
            return a, b, [b, a]
        if kind == 'json':
            b = cnv.from_json(cnv.to_json(dm if rest is None else rest))
            a = cnv.from_json(cnv.to_json(dm))
            return a, b, [b, a]
        if kind == 'copy':
            b = (dm if rest is None else rest)[:]
            a = dm[:]
            return a, b, []
        raise AssertionError(kind)

    # ------------------------------------------------------------ runners
    def run_pickle(self, inp):
        r, t, dm, post = self.setup(inp)
        mode = inp['mode']
        used = sorted(set(r.fam(x) for x in r.pool))
        problems = []
        idchecks = ['m_id_start %s' % L.z(_M()._id)]
        live, dm_keys, index_keys, col_keys = self._live(dm)
        orig_problems = []
        orig_lit = dump_x(r, dm, orig_problems)     # malformations of the original are not persistence failures
        pyfail = None
        pairs = [None]
        roots = []
        twin_kinds = []

        def add_twin(kind, rest):
            a, b, rt = self._twin(kind, dm, rest, mode, idchecks)
            for q in rt:
                if not isinstance(q, world.DataMatrix):
                    raise TypeError('a %s twin is a %s' % (kind, type(q).__name__))
                roots.append(r.fam(q))
            r.pool.append(a)
            r.pool.append(b)
            pairs.append((len(r.pool) - 2, len(r.pool) - 1))
            twin_kinds.append(kind)
        try:
            for kind in inp.get('before') or []:
                if kind != 'copy':
                    add_twin(kind, None)
            rest = self._unpickle(dm, mode, idchecks)
        except Exception as e:      # noqa: BLE001
            return self._fail_case(inp, 'round trip raised %r' % (e,), ['pickle', mode])
        self._stage = 'restored'
        if not isinstance(rest, world.DataMatrix):
            return self._fail_case(inp, 'round trip returned a %s' % type(rest).__name__, ['pickle', mode])
        roots.append(r.fam(rest))
        r.pool.append(rest)
        pairs[0] = (t, len(r.pool) - 1)
        for kind in inp.get('after') or []:
            add_twin(kind, rest)                    # the first of these follows the restore immediately
        if dump_x(r, dm, []) != orig_lit:
            pyfail = 'pickling changed the original object'
        rest_lit = dump_x(r, rest, problems)
        r.probes(rest, problems)
        r.probes(dm, orig_problems)
        problems[:] = [p for p in problems if p not in orig_problems]
        last = {0: (orig_lit, rest_lit)}
        follow_lits = []
        outcomes = []

        def dump_pairs(label, emit=True):
            for pi, (a, b) in enumerate(pairs):
                pr, pa = [], []
                la, lb = dump_x(r, r.pool[a], pa), dump_x(r, r.pool[b], pr)
                if last.get(pi) != (la, lb):
                    last[pi] = (la, lb)
                    if emit:
                        follow_lits.append('(%s, %s)' % (la, lb))
                    elif la.split('x_rowid', 1)[1] != lb.split('x_rowid', 1)[1]:
                        problems.append('twin %d: the two tables of the pair differ from the start' % pi)
                    r.probes(r.pool[b], pr)
                    r.probes(r.pool[a], pa)
                pr = [p for p in pr if p not in pa]
                problems.extend('%s: %s' % (label, p) for p in pr)

        def rel_check(label, own=True):
            A0, B0 = r.pool[pairs[0][0]], r.pool[pairs[0][1]]
            for j in range(1, len(pairs)):
                oa, ob = rel_obs(A0, r.pool[pairs[j][0]]), rel_obs(B0, r.pool[pairs[j][1]])
                if oa != ob:
                    return '%s: using twin %d (%s) with the original gives %r, with the restored table %r' % (
                        label, j, twin_kinds[j - 1] if j - 1 < len(twin_kinds) else 'derived', oa, ob)
            if own:
                oa, ob = own_obs(A0), own_obs(B0)
                if oa != ob:
                    return '%s: own selections of the original give %r, of the restored table %r' % (label, oa, ob)
            return None
        # the twins as they are created are only compared textually (Python side); they are dumped for Coq when an
        # operation changes them; their families go to fams_case in any case
        dump_pairs('after the restore', emit=False)
        pyfail = pyfail or rel_check('after the restore', own=inp.get('fseed', 0) % 2 == 0)
        frng = random.Random(inp.get('fseed', 0))
        follow = inp.get('follow')
        gen = follow is None
        follow = [] if gen else follow
        nf = inp.get('nfollow', 0)
        k = 0
        ok_ops = 0
        while (gen and k < nf) or (not gen and k < len(follow)):
            if gen:
                o = gen_follow(frng, r, pairs, k == 0, inp.get('cfg'))
                follow.append(o)
            else:
                o = follow[k]
            k += 1
            if not refs_ok(o, len(pairs)):
                outcomes.append('skipped')
                continue
            oa, ob = subst(o, pairs, 0), subst(o, pairs, 1)
            sd = inp['seed'] * 31 + k
            n0 = len(r.pool)
            out_a, new_a = apply_any(r, oa, seed=sd)
            ia = len(r.pool) - 1
            out_b, new_b = apply_any(r, ob, seed=sd)
            ib = len(r.pool) - 1
            outcomes.append([out_a, out_b])
            if out_a != out_b:
                pyfail = pyfail or 'follow-up %s: original gives %s, restored gives %s' % (o['op'], out_a, out_b)
            if not out_a.startswith('(Err'):
                ok_ops += 1
            if new_a and new_b:
                pairs.append((ia, ib))
            elif new_a or new_b:
                del r.pool[n0:]
            dump_pairs('after follow-up %d (%s)' % (k, o['op']))
        if k:
            pyfail = pyfail or rel_check('after the follow-up operations', own=False)
        if problems and not pyfail:
            pyfail = 'python-side probes: ' + '; '.join(problems[:3])
        fl = L.lst(follow_lits)
        fam_pairs = L.lst('(%s, %s)' % (L.nat(r.fam(r.pool[a])), L.nat(r.fam(r.pool[b]))) for a, b in pairs[1:])
        oracle = ('(xpickle_case %s %s %s %s && fams_case %s %s (%s, %s) (%s ++ xfams %s))' % (
            nats(used), orig_lit, rest_lit, fl, nats(used), nats(roots), L.nat(r.fam(dm)), L.nat(r.fam(rest)), fam_pairs, fl))
        model = '(xattrs_ok %s %s %s %s %s %s && xkeys_ok %s %s %s %s && m_xpickle %s %s && %s)' % (
            strs(live['dm']), strs(live['index']), strs(live.get('KMixed', [])), strs(live.get('KFloat', [])),
            strs(live.get('KInt', [])), strs(live.get('KSer', [])), orig_lit, strs(dm_keys), strs(index_keys),
            L.lst(strs(ks) for ks in col_keys), orig_lit, rest_lit, ' && '.join(idchecks))
        if orig_problems:          # the dump of a malformed original is lossy: outside the L1 model
            model = '(%s)' % ' && '.join(idchecks)
        inp2 = dict(inp)
        inp2['follow'] = follow
        inp2['post'] = post
        inp2.pop('nfollow', None)
        inp2.pop('npost', None)
        return {
            'input': inp2,
            'observed': {'rows': len(dm), 'columns': list(dm._cols.keys()), 'follow_outcomes': outcomes,
                         'restored_id_differs': rest._id != dm._id, 'problems': problems[:4],
                         'original_malformed': orig_problems[:2], 'twins': twin_kinds},
            'pyfail': pyfail, 'oracle': oracle, 'model': model,
            'nontrivial': len(dm) > 0 and len(dm._cols) > 0 and ok_ops > 0,
            'sig': json.dumps(inp2, sort_keys=True, default=str),
            'tags': ['pickle', 'mode-' + mode, 'warm%d' % inp.get('warm', 0), 'deco' if inp.get('deco') else 'plain',
                     'rows%d' % min(len(dm), 9)] + self._tags(dm, inp) + ['follow-' + (o['op'] if o['op'] != 'y' else o['how']) for o in follow]
                    + ['before-' + kd for kd in inp.get('before') or []] + ['after-' + kd for kd in inp.get('after') or []]
                    + (['orig-malformed'] if orig_problems else []),
        }

    def run_twice(self, inp):
        """The same file / the same bytes / the same JSON text read TWICE (optionally three times) in one process, the
        first result being used and modified before and after the second read:
          src = file          io.writepickle once, io.readpickle(path) each time (the second time by a relative path
                              when inp['relpath']); the file is not touched in between;
                file-rewrite  as file, but the table AS EDITED in the meantime is written to the same path before the
                              second read: that read must give the new content;
                load / loads  pickle.load from the same file / pickle.loads of the same bytes object;
                json          convert.from_json of the same text.
        Group A = (original, first result): `nbefore` follow-up operations on both before the second read, `nafter`
        after it.  Group B = (control, second result): the control is the table an identical second run of the case's
        history builds (for file-rewrite: the snapshot of the edited original); `nsecond` follow-up operations on both.
        Every result must be the table that was written (Coq: xpickle_case / xjson_case against the dumped object graph,
        which includes which columns point back to their table), a family of its own, and share no column object,
        row-id object or cell storage with an earlier result; what is done to one result must not show in the other."""
        from datamatrix import io, convert as cnv
        r, t, dm, post = self.setup(inp)
        src = inp['src']
        isjson, rewrite = src == 'json', src == 'file-rewrite'
        inp_c = dict(inp, post=post)
        inp_c.pop('npost', None)
        r2, t2, dm2, _p = self.setup(inp_c)          # an identical, independent original
        t2 += len(r.pool)
        r.pool.extend(r2.pool)
        for q in r.pool:
            r.fam(q)
        used = sorted(set(r.fam(x) for x in r.pool))
        problems, orig_problems = [], []
        orig_lit = dump_x(r, dm, orig_problems)
        orig2_lit = dump_x(r, dm2, [])
        ctrl_ok = nofam(orig2_lit) == nofam(orig_lit) and not rewrite and not isjson
        proto = inp.get('protocol', 2)
        path = os.path.join(_filedir(), 'twice.pkl')
        idchecks = ['m_id_start %s' % L.z(_M()._id)]
        roots = []
        state = {'pyfail': None, 'ok_ops': 0}

        def fail(msg):
            state['pyfail'] = state['pyfail'] or msg
        try:
            if src.startswith('file'):
                io.writepickle(dm, path, protocol=proto)
            elif src == 'load':
                with open(path, 'wb') as f:
                    pickle.dump(dm, f, proto)
            elif src == 'loads':
                data = pickle.dumps(dm, proto)
            else:
                text = cnv.to_json(dm)
        except Exception as e:      # noqa: BLE001
            return self._fail_case(inp, 'serialising raised %r' % (e,), ['twice', 'twice:' + src])

        def read(k):
            M = _M()
            c0 = M._id
            if src.startswith('file'):
                x = io.readpickle(os.path.relpath(path) if (k and inp.get('relpath')) else path)
            elif src == 'load':
                with open(path, 'rb') as f:
                    x = pickle.load(f)
            elif src == 'loads':
                x = pickle.loads(data)
            else:
                x = cnv.from_json(text)
            if not isinstance(x, world.DataMatrix):
                raise TypeError('read number %d returned a %s' % (k + 1, type(x).__name__))
            if not isjson:
                idchecks.append('m_ids_restore %s %s %s' % (L.z(c0), L.z(x._id), L.z(M._id)))
            r.pool.append(x)
            roots.append(r.fam(x))
            return x, len(r.pool) - 1

        def follow(pairs, key, n, seedoff, label, paired, lits, last):
            """n follow-up operations (generated on the first run, replayed from inp[key] afterwards) on the tables of
            `pairs` -- on both sides when paired; every changed pair is dumped into lits"""
            ops_l = inp.get(key)
            gen = ops_l is None
            ops_l = [] if gen else ops_l
            frng = random.Random(inp.get('fseed', 0) + seedoff)
            k = 0
            while (gen and k < n) or (not gen and k < len(ops_l)):
                if gen:
                    if frng.random() < 0.55:          # an in-place edit: cells, a new / re-typed / aliased column, rename, resize, rows
                        o = histgen.gen_op(frng, _View(r, pairs), EDIT_WEIGHTS, bad_rate=0.04, max_pool=8, max_rows=9)
                        if o['op'] == 'new':
                            o = {'op': 'setlength', 't': 0, 'n': len(r.pool[pairs[0][0]]) + 1}
                    else:
                        o = gen_follow(frng, r, pairs, k == 0, inp.get('cfg'))
                    ops_l.append(o)
                o = ops_l[k]
                k += 1
                if not refs_ok(o, len(pairs)):
                    continue
                sd = inp['seed'] * 31 + k + seedoff
                n0 = len(r.pool)
                out_a, new_a = apply_any(r, subst(o, pairs, 0), seed=sd)
                ia = len(r.pool) - 1
                if paired:
                    out_b, new_b = apply_any(r, subst(o, pairs, 1), seed=sd)
                    ib = len(r.pool) - 1
                    if out_a != out_b:
                        fail('%s, %s: the original gives %s, the table that was read gives %s' % (label, o['op'], out_a, out_b))
                    if new_a and new_b:
                        pairs.append((ia, ib))
                    elif new_a or new_b:
                        del r.pool[n0:]
                elif new_a:
                    pairs.append((ia, ia))
                if not out_a.startswith('(Err'):
                    state['ok_ops'] += 1
                if paired:
                    dump_pairs(pairs, '%s, after %s' % (label, o['op']), lits, last)
            return ops_l

        def dump_pairs(pairs, label, lits, last):
            for a, b in pairs:
                pr, pa = [], []
                la, lb = dump_x(r, r.pool[a], pa), dump_x(r, r.pool[b], pr)
                if last.get((a, b)) != (la, lb):
                    last[(a, b)] = (la, lb)
                    lits.append('(%s, %s)' % (la, lb))
                    r.probes(r.pool[b], pr)
                    r.probes(r.pool[a], pa)
                problems.extend('%s: %s' % (label, q) for q in pr if q not in pa)

        # ---- first read, and what is done with its result before the file / bytes / text is read again
        self._stage = 'first read'
        try:
            first, i1 = read(0)
        except Exception as e:      # noqa: BLE001
            return self._fail_case(inp, 'the first read raised %r' % (e,), ['twice', 'twice:' + src])
        lit1 = dump_x(r, first, problems)
        r.probes(first, problems)
        r.probes(dm, orig_problems)
        problems[:] = [q for q in problems if q not in orig_problems]
        if dump_x(r, dm, []) != orig_lit:
            fail('serialising changed the original object')
        pairs_a = [(t, i1)] if not isjson else [(i1, i1)]
        lits_a, last_a = [], {(t, i1): (orig_lit, lit1)}
        before = follow(pairs_a, 'before_ops', inp.get('nbefore', 0), 0, 'before the second read', not isjson, lits_a, last_a)
        snap1 = nofam(dump_x(r, first, []))
        # ---- second read
        self._stage = 'second read'
        ctrl_lit, ctrl_problems = orig2_lit, []
        if rewrite:
            ctrl_lit = dump_x(r, dm, ctrl_problems)         # the table as edited by now goes to the same path
            try:
                io.writepickle(dm, path, protocol=proto)
            except Exception as e:      # noqa: BLE001
                return self._fail_case(inp, 'writing the edited table to the same path raised %r' % (e,), ['twice', 'twice:' + src])
        if isjson:
            ctrl_lit = orig_lit
        try:
            second, i2 = read(1)
        except Exception as e:      # noqa: BLE001
            return self._fail_case(inp, 'the second read raised %r' % (e,), ['twice', 'twice:' + src])
        p2 = []
        lit2 = dump_x(r, second, p2)
        r.probes(second, p2)
        problems.extend('second read: ' + q for q in p2 if q not in orig_problems and q not in ctrl_problems)
        why = shared_state(first, second)
        if why:
            fail('the tables returned by the first and the second read %s' % why)
        for x, what in ((first, 'first'), (second, 'second')):
            if not_owned(x):
                fail('after the second read the columns %r of the %s result do not belong to it' % (not_owned(x), what))
        if nofam(dump_x(r, first, [])) != snap1:
            fail('the second read changed the table returned by the first read')
        if not isjson:
            dump_pairs(pairs_a, 'after the second read', lits_a, last_a)
        # ---- the second result is used (against its control), then the first one again
        pairs_b = [(t2, i2)] if ctrl_ok else [(i2, i2)]
        lits_b, last_b = [], {(t2, i2): (orig2_lit, lit2)}
        second_ops = follow(pairs_b, 'second_ops', inp.get('nsecond', 0), 500, 'on the second result', ctrl_ok, lits_b, last_b)
        if nofam(dump_x(r, first, [])) != snap1:
            fail('what was done to the second result shows in the first result')
        if not isjson:
            dump_pairs(pairs_a, 'after the second result was used', lits_a, last_a)
        snap2 = nofam(dump_x(r, second, []))
        after = follow(pairs_a, 'after_ops', inp.get('nafter', 0), 900, 'after the second read', not isjson, lits_a, last_a)
        if nofam(dump_x(r, second, [])) != snap2:
            fail('what was done to the first result after the second read shows in the second result')
        # ---- a third read
        lit3 = None
        if inp.get('third'):
            self._stage = 'third read'
            try:
                third, _i3 = read(2)
            except Exception as e:      # noqa: BLE001
                return self._fail_case(inp, 'the third read raised %r' % (e,), ['twice', 'twice:' + src])
            p3 = []
            lit3 = dump_x(r, third, p3)
            r.probes(third, p3)
            problems.extend('third read: ' + q for q in p3 if q not in orig_problems and q not in ctrl_problems)
            for x, what in ((first, 'first'), (second, 'second')):
                why = shared_state(x, third)
                if why:
                    fail('the tables returned by the %s and the third read %s' % (what, why))
            for x, what in ((first, 'first'), (second, 'second'), (third, 'third')):
                if not_owned(x):
                    fail('after the third read the columns %r of the %s result do not belong to it' % (not_owned(x), what))
        if problems:
            fail('python-side probes: ' + '; '.join(problems[:3]))
        fam = lambda i: L.nat(r.fam(r.pool[i]))          # noqa: E731
        fams_of = lambda prs: L.lst('(%s, %s)' % (fam(a), fam(b)) for a, b in prs)          # noqa: E731
        if isjson:
            oracle = '(xjson_case %s %s %s && xjson_case %s %s %s && %sfresh_roots %s %s)' % (
                nats(used), orig_lit, lit1, nats(used), orig_lit, lit2,
                'xjson_case %s %s %s && ' % (nats(used), orig_lit, lit3) if lit3 else '', nats(used), nats(roots))
            model = '(m_xfrom_json %s %s && m_xfrom_json %s %s%s)' % (
                orig_lit, lit1, orig_lit, lit2, ' && m_xfrom_json %s %s' % (orig_lit, lit3) if lit3 else '')
        else:
            fl_a, fl_b = L.lst(lits_a), L.lst(lits_b)
            oracle = ('(xpickle_case %s %s %s %s && fams_case %s %s (%s, %s) (%s ++ xfams %s) && xpickle_case %s %s %s %s%s%s)' % (
                nats(used), orig_lit, lit1, fl_a, nats(used), nats(roots), fam(t), fam(i1), fams_of(pairs_a[1:]), fl_a,
                nats(used), ctrl_lit, lit2, fl_b,
                ' && fams_case %s [] (%s, %s) (%s ++ xfams %s)' % (nats(used), fam(t2), fam(i2), fams_of(pairs_b[1:]), fl_b)
                if ctrl_ok else '',
                ' && xpickle_case %s %s %s []' % (nats(used), ctrl_lit, lit3) if lit3 else ''))
            model = '(m_xpickle %s %s && m_xpickle %s %s%s && %s)' % (
                orig_lit, lit1, ctrl_lit, lit2, ' && m_xpickle %s %s' % (ctrl_lit, lit3) if lit3 else '', ' && '.join(idchecks))
        if orig_problems or ctrl_problems:          # the dump of a malformed original is lossy: outside the L1 model
            model = '(%s)' % ' && '.join(idchecks)
        inp2 = dict(inp, post=post, before_ops=before, second_ops=second_ops, after_ops=after)
        for k in ('npost', 'nbefore', 'nsecond', 'nafter'):
            inp2.pop(k, None)
        return {
            'input': inp2,
            'observed': {'rows': len(dm2), 'columns': list(dm2._cols.keys()), 'reads': 3 if lit3 else 2,
                         'control': 'rebuilt' if ctrl_ok else 'snapshot', 'problems': problems[:4],
                         'original_malformed': orig_problems[:2]},
            'pyfail': state['pyfail'], 'oracle': oracle, 'model': model,
            'nontrivial': len(dm2) > 0 and len(dm2._cols) > 0 and state['ok_ops'] > 0,
            'sig': json.dumps(inp2, sort_keys=True, default=str),
            'tags': ['twice', 'twice:' + src, 'twice:reads%d' % (3 if lit3 else 2), 'twice:control-' + ('rebuilt' if ctrl_ok else 'snapshot'),
                     'rows%d' % min(len(dm2), 9)] + self._tags(dm2, inp)
                    + ['twice-before-' + o['op'] for o in before] + ['twice-after-' + o['op'] for o in after]
                    + ['twice-second-' + o['op'] for o in second_ops] + (['orig-malformed'] if orig_problems else []),
        }

    def _tags(self, dm, inp):
        kinds = sorted(set(kd for _n, kd in histgen.col_kinds(dm) if kd))
        for col in dm._cols.values():
            if is_series(col):
                kinds.append('series-depth%d' % col.depth)
        cfg = inp.get('cfg') or {}
        return kinds + ['post-' + o['op'] for o in inp.get('post') or []] + (['foreign-pickle'] if inp.get('foreign') else []) \
            + (['cfg-dflt-' + cfg['dflt']] if cfg.get('dflt') else []) + (['cfg-unsorted'] if cfg.get('unsorted') else [])

    def _fail_case(self, inp, why, tags):
        return {'input': inp, 'observed': why, 'pyfail': why, 'oracle': 'true', 'model': 'true', 'nontrivial': True,
                'sig': json.dumps(inp, sort_keys=True, default=str), 'tags': tags}

    def run_json(self, inp):
        from datamatrix import convert as cnv
        r, t, dm, post = self.setup(inp)
        used = sorted(set(r.fam(x) for x in r.pool))
        problems = []
        orig_problems = []
        idchecks = []
        orig_lit = dump_x(r, dm, orig_problems)
        r.probes(dm, orig_problems)
        try:
            s = cnv.to_json(dm)
            rest = cnv.from_json(s)
            fresh = self._fresh_like(dm, idchecks)          # the construction that follows from_json
            rest2 = cnv.from_json(s)
        except Exception as e:      # noqa: BLE001
            return self._fail_case(inp, 'JSON round trip raised %r' % (e,), ['json'])
        if not isinstance(s, str) or not isinstance(rest, world.DataMatrix) or not isinstance(rest2, world.DataMatrix):
            return self._fail_case(inp, 'JSON round trip returned %s / %s' % (type(s).__name__, type(rest).__name__), ['json'])
        pyfail = None
        self._stage = 'from_json'
        roots = [r.fam(rest), r.fam(fresh), r.fam(rest2)]
        if dump_x(r, dm, []) != orig_lit:
            pyfail = 'to_json changed the original object'
        rest_lit = dump_x(r, rest, problems)
        r.probes(rest, problems)
        if dump_x(r, rest2, []) != rest_lit.replace('x_fam := %s' % L.nat(r.fam(rest)), 'x_fam := %s' % L.nat(r.fam(rest2)), 1):
            pyfail = pyfail or 'reading the same JSON text twice gives different tables'
        self._mirror(fresh, dm)
        for other, what in ((fresh, 'a table constructed right after from_json'), (rest2, 'a second from_json of the text')):
            oa, ob = rel_obs(dm, other), rel_obs(rest, other)
            if oa != ob:
                pyfail = pyfail or 'using %s with the original gives %r, with the from_json table %r' % (what, oa, ob)
        oa, ob = own_obs(dm), own_obs(rest)
        if oa != ob:
            pyfail = pyfail or 'own selections of the original give %r, of the from_json table %r' % (oa, ob)
        doc = doc_lit(s)
        if doc is None:
            pyfail = pyfail or 'JSON text is not an object with the keys rowid, columns'
            doc = '([], [])'
        # perturbation of a copy
        pert = inp.get('perturb') or {'k': 'none'}
        same_text = None
        b_lit = orig_lit
        r.apply({'op': 'slice', 't': t, 'a': None, 'b': None}, seed=1)
        c = len(r.pool) - 1
        target = c
        if pert['k'] == 'cell':
            r.apply({'op': 'setcell', 't': c, 'name': pert['name'], 'addr': {'k': 'int', 'i': pert['i']},
                     'rhs': {'k': 'scalar', 'v': pert['v']}}, seed=1)
        elif pert['k'] == 'name':
            r.apply({'op': 'rename', 't': c, 'old': pert['old'], 'new': pert['new']}, seed=1)
        elif pert['k'] == 'order':
            out, new = r.apply({'op': 'getrows', 't': c, 'l': pert['l']}, seed=1)
            if new:
                target = len(r.pool) - 1
        elif pert['k'] == 'sample':
            try:
                r.pool[c][pert['name']][pert['i'], pert['j']] = float.fromhex(pert['v'])
            except Exception:       # noqa: BLE001  (the copy lost the column, index out of range after shrinking)
                pass
        elif pert['k'] == 'depth':
            try:
                r.pool[c][pert['name']].depth = pert['d']
            except Exception:       # noqa: BLE001
                pass
        try:
            s2 = cnv.to_json(r.pool[target])
            same_text = (s2 == s)
            b_lit = dump_x(r, r.pool[target], [])
        except Exception as e:      # noqa: BLE001
            pyfail = pyfail or 'to_json of the perturbed copy raised %r' % (e,)
            same_text = False
        problems = [p for p in problems if p not in orig_problems]
        if problems and not pyfail:
            pyfail = 'python-side probes: ' + '; '.join(problems[:3])
        oracle = '(xjson_case %s %s %s && xtext_case %s %s %s && fresh_roots %s %s)' % (
            nats(used), orig_lit, rest_lit, orig_lit, b_lit, L.boolean(same_text), nats(used), nats(roots))
        model = '(m_xjson_doc %s %s && m_xfrom_json %s %s && m_xtext %s %s %s && %s)' % (
            orig_lit, doc, orig_lit, rest_lit, orig_lit, b_lit, L.boolean(same_text), ' && '.join(idchecks))
        if orig_problems:
            model = '(%s)' % ' && '.join(idchecks)
        inp2 = dict(inp, post=post)
        inp2.pop('npost', None)
        return {
            'input': inp2, 'observed': {'text': s[:400], 'original_malformed': orig_problems[:2],
                                        'same_text_after_perturbation': same_text, 'rows': len(dm)},
            'pyfail': pyfail, 'oracle': oracle, 'model': model,
            'nontrivial': len(dm) > 0 and len(dm._cols) > 0 and (pert['k'] == 'none' or not same_text),
            'sig': json.dumps(inp2, sort_keys=True, default=str),
            'tags': ['json', 'perturb-' + pert['k'], 'deco' if inp.get('deco') else 'plain', 'rows%d' % min(len(dm), 9)]
                    + self._tags(dm, inp) + (['text-differs'] if not same_text else ['text-equal'])
                    + (['orig-malformed'] if orig_problems else []),
        }

    def run_pandas(self, inp):
        from datamatrix import convert as cnv
        import pandas as pd
        r, t, dm, post = self.setup(inp)
        problems = []
        orig_lit = dump_x(r, dm, problems)
        try:
            df = cnv.to_pandas(dm)
        except Exception as e:      # noqa: BLE001
            return self._fail_case(inp, 'to_pandas raised %r' % (e,), ['pandas'])
        if not isinstance(df, pd.DataFrame):
            return self._fail_case(inp, 'to_pandas returned a %s' % type(df).__name__, ['pandas'])
        self._stage = 'to_pandas'
        pyfail = None
        frame = []
        for j, name in enumerate(df.columns):
            vals = list(df.iloc[:, j])
            frame.append('(%s, %s)' % (L.string(str(name)), L.lst(xpcell(x) for x in vals)))
        if len(dm._cols) and len(df) != len(dm):
            pyfail = 'DataFrame has %d rows, the DataMatrix %d' % (len(df), len(dm))
        series = []
        for name in dm._cols:
            try:
                ser = cnv.to_pandas(dm[name])
            except Exception as e:      # noqa: BLE001
                pyfail = pyfail or 'to_pandas(column %s) raised %r' % (name, e)
                continue
            if not isinstance(ser, pd.Series):
                pyfail = pyfail or 'to_pandas(column) returned a %s' % type(ser).__name__
                continue
            series.append('(%s, %s)' % (L.string(name), L.lst(xpcell(x) for x in list(ser))))
        if dump_x(r, dm, []) != orig_lit:
            pyfail = pyfail or 'to_pandas changed the original object'
        inp2 = dict(inp, post=post)
        inp2.pop('npost', None)
        return {
            'input': inp2, 'observed': {'columns': [str(c) for c in df.columns], 'rows': len(df),
                                        'dtypes': [str(x) for x in df.dtypes],
                                        'first_row': [repr(x)[:60] for x in (list(df.iloc[0]) if len(df) else [])]},
            'pyfail': pyfail,
            # a malformed original (e.g. an IntColumn holding float64 data) is dumped lossily: cannot be judged
            'oracle': 'true' if problems else '(xpandas_case %s %s %s)' % (orig_lit, L.lst(frame), L.lst(series)),
            'model': 'true' if problems else '(m_xpandas %s %s %s)' % (orig_lit, L.lst(frame), L.lst(series)),
            'nontrivial': len(dm) > 0 and len(dm._cols) > 0,
            'sig': json.dumps(inp2, sort_keys=True, default=str),
            'tags': ['pandas', 'rows%d' % min(len(dm), 9)] + self._tags(dm, inp) + (['orig-malformed'] if problems else []),
        }

    def _frame_lits(self, dm):
        """to_pandas(dm) and to_pandas(column) read back at once (a frame may hold views of the table's arrays);
        returns (frame literal, series literal, python-side failure)"""
        from datamatrix import convert as cnv
        import pandas as pd
        df = cnv.to_pandas(dm)
        if not isinstance(df, pd.DataFrame):
            return '[]', '[]', 'to_pandas returned a %s' % type(df).__name__
        fail = None
        frame = ['(%s, %s)' % (L.string(str(name)), L.lst(xpcell(x) for x in list(df.iloc[:, j])))
                 for j, name in enumerate(df.columns)]
        if len(dm._cols) and len(df) != len(dm):
            fail = 'DataFrame has %d rows, the DataMatrix %d' % (len(df), len(dm))
        series = []
        for name in dm._cols:
            ser = cnv.to_pandas(dm[name])
            if not isinstance(ser, pd.Series):
                fail = fail or 'to_pandas(column) returned a %s' % type(ser).__name__
                continue
            series.append('(%s, %s)' % (L.string(name), L.lst(xpcell(x) for x in list(ser))))
        return L.lst(frame), L.lst(series), fail

    def run_reser(self, inp):
        """The same object serialised, edited in place, serialised again, ... : every text / payload must describe the
        table as it is when it is produced."""
        from datamatrix import convert as cnv, io
        r, t, dm, post = self.setup(inp)
        M = _M()
        what = inp.get('what', 'both')
        mode = inp.get('mode', 'p2')
        rng = random.Random(inp.get('eseed', 0))
        # operands of the edits exist before the first serialisation
        sels = inp.get('sels')
        gen_s = sels is None
        sels = [] if gen_s else sels
        view = [t]
        k = 0
        while (gen_s and k < inp.get('nsels', 0)) or (not gen_s and k < len(sels)):
            if gen_s:
                sels.append(gen_sel(rng, dm))
            k += 1
            _out, new = r.apply(dict(sels[k - 1], t=t), seed=inp['seed'] * 17 + k)
            if new:
                view.append(len(r.pool) - 1)
        used = sorted(set(r.fam(x) for x in r.pool))
        self._stage = 'edited'
        states = []
        pyfail = None
        noisy = False

        def serialise(label):
            """serialise FIRST (nothing between the edit and this), then dump what the table is at this moment"""
            nonlocal pyfail, noisy
            st = {'label': label}
            c0 = M._id
            for kind in (('json', 'pickle', 'pandas') if inp.get('jfirst', True) else ('pickle', 'json', 'pandas')):
                try:
                    if kind == 'json' and what in ('json', 'both', 'all'):
                        st['text'] = cnv.to_json(dm)
                        if not isinstance(st['text'], str):
                            raise TypeError('to_json returned a %s' % type(st['text']).__name__)
                    elif kind == 'pickle' and what in ('pickle', 'both', 'all'):
                        if mode.startswith('p'):
                            st['payload'] = pickle.dumps(dm, int(mode[1:]))
                        else:
                            path = os.path.join(_filedir(), 'sub', 'e%d.pkl' % len(states))
                            if mode == 'file':
                                io.writepickle(dm, path)
                            else:
                                io.writepickle(dm, path, protocol=int(mode[4:]))
                            st['path'] = path
                    elif kind == 'pandas' and what == 'all':
                        st['frame'], st['series'], fail = self._frame_lits(dm)
                        if fail:
                            pyfail = pyfail or '%s: %s' % (label, fail)
                except Exception as e:      # noqa: BLE001
                    st['raised'] = '%s: serialising (%s) raised %r' % (label, kind, e)
            c1 = M._id
            probs = []
            st['lit'] = dump_x(r, dm, probs)
            r.probes(dm, probs)
            st['problems'] = probs
            if M._id != c1:
                noisy = True            # the harness' own reads must not construct tables
            if st.get('raised') and not probs:
                pyfail = pyfail or st['raised']
            states.append(st)

        serialise('first serialisation')
        edits = inp.get('edits')
        gen_e = edits is None
        edits = [] if gen_e else edits
        outcomes = []
        k = 0
        while (gen_e and k < inp.get('nedits', 0)) or (not gen_e and k < len(edits)):
            if gen_e:
                edits.append(gen_edit(rng, r, view))
            e = edits[k]
            k += 1
            if e['op'] == 'x':
                out = apply_x(dm, e)
            elif not refs_ok(e, len(view)) or e.get('t') != 0:
                outcomes.append('skipped')
                continue
            else:
                out, new = r.apply(subst(e, [(p, p) for p in view], 0), seed=inp['seed'] * 19 + k)
                if new:
                    raise AssertionError('an edit returned a table: %r' % (e,))
            outcomes.append(out)
            serialise('after edit %d (%s)' % (k, edit_name(e)))
        # only now is anything read back
        roots = []
        problems = []
        oracle, model = [], []
        binds = []
        changed = 0
        for i, st in enumerate(states):
            a = 's%d' % i
            binds.append((a, st['lit']))
            bad = bool(st['problems'])          # the dump of a malformed table is lossy: outside the L1 model
            if i and 'text' in st and 'text' in states[i - 1]:
                same = st['text'] == states[i - 1]['text']
                oracle.append('xtext_case s%d %s %s' % (i - 1, a, L.boolean(same)))
                if not bad and not states[i - 1]['problems']:
                    model.append('m_xtext s%d %s %s' % (i - 1, a, L.boolean(same)))
            if i and st['lit'].split('x_rowid', 1)[1] != states[i - 1]['lit'].split('x_rowid', 1)[1]:
                changed += 1
            if st.get('raised'):
                continue
            try:
                if 'text' in st:
                    doc = doc_lit(st['text'])
                    if doc is None:
                        pyfail = pyfail or '%s: JSON text is not an object with the keys rowid, columns' % st['label']
                        doc = '([], [])'
                    rest = cnv.from_json(st['text'])
                    if not isinstance(rest, world.DataMatrix):
                        raise TypeError('from_json returned a %s' % type(rest).__name__)
                    roots.append(r.fam(rest))
                    pr = []
                    binds.append(('j%d' % i, dump_x(r, rest, pr)))
                    r.probes(rest, pr)
                    problems.extend('%s, from_json: %s' % (st['label'], p) for p in pr if p not in st['problems'])
                    oracle.append('xjson_case %s %s j%d' % (nats(used), a, i))
                    if not bad:
                        model.append('m_xjson_doc %s %s' % (a, doc))
                        model.append('m_xfrom_json %s j%d' % (a, i))
                if 'payload' in st or 'path' in st:
                    rest = pickle.loads(st['payload']) if 'payload' in st else io.readpickle(st['path'])
                    if not isinstance(rest, world.DataMatrix):
                        raise TypeError('unpickling returned a %s' % type(rest).__name__)
                    roots.append(r.fam(rest))
                    pr = []
                    binds.append(('p%d' % i, dump_x(r, rest, pr)))
                    r.probes(rest, pr)
                    problems.extend('%s, unpickled: %s' % (st['label'], p) for p in pr if p not in st['problems'])
                    oracle.append('xpickle_case %s %s p%d []' % (nats(used), a, i))
                    if not bad:
                        model.append('m_xpickle %s p%d' % (a, i))
                if 'frame' in st and not bad:
                    oracle.append('xpandas_case %s %s %s' % (a, st['frame'], st['series']))
                    model.append('m_xpandas %s %s %s' % (a, st['frame'], st['series']))
            except Exception as e:      # noqa: BLE001
                pyfail = pyfail or '%s: what was written cannot be read back: %r' % (st['label'], e)
        oracle.append('fresh_roots %s %s' % (nats(used), nats(roots)))
        if problems and not pyfail:
            pyfail = 'python-side probes: ' + '; '.join(problems[:3])
        if noisy:
            raise AssertionError('harness: dumping a table moved the id counter')

        def term(parts):
            body = ' && '.join('(%s)' % p for p in parts) or 'true'
            for nm, lit in reversed(binds):
                body = 'let %s := %s in %s' % (nm, lit, body)
            return '(%s)' % body
        inp2 = dict(inp, post=post, sels=sels, edits=edits)
        for key in ('npost', 'nsels', 'nedits'):
            inp2.pop(key, None)
        return {
            'input': inp2,
            'observed': {'rows': len(dm), 'columns': list(dm._cols.keys()), 'edit_outcomes': outcomes,
                         'texts': [st.get('text', '')[:160] for st in states][:4],
                         'malformed': [st['problems'][:1] for st in states], 'problems': problems[:4]},
            'pyfail': pyfail, 'oracle': term(oracle), 'model': term(model),
            'nontrivial': changed > 0 and len(dm._cols) > 0,
            'sig': json.dumps(inp2, sort_keys=True, default=str),
            'tags': ['reser', 'reser-' + what, 'mode-' + mode, 'rows%d' % min(len(dm), 9)] + self._tags(dm, inp)
                    + ['edit-' + edit_name(e) for e in edits]
                    + ['edits-changed%d' % changed]
                    + (['edit-failed'] if any(o.startswith('(Err') for o in outcomes) else [])
                    + (['orig-malformed'] if any(st['problems'] for st in states) else []),
        }

    # ------------------------------------------------------------ protocol
    def rerun(self, inp):
        with warnings.catch_warnings():
            warnings.simplefilter('ignore')
            self._stage = 'setup'
            try:
                kind = inp['kind']
                if kind == 'pickle':
                    return self.run_pickle(inp)
                if kind == 'json':
                    return self.run_json(inp)
                if kind == 'reser':
                    return self.run_reser(inp)
                if kind == 'fresh':
                    return self.run_fresh(inp)
                if kind == 'twice':
                    return self.run_twice(inp)
                return self.run_pandas(inp)
            except Exception as e:      # noqa: BLE001
                if self._stage == 'setup':
                    raise               # the input itself is unusable (e.g. a shrunk history without table t)
                # the converted / restored object broke the dumper, a probe or a follow-up operation
                import traceback
                tb = traceback.extract_tb(e.__traceback__)[-1]
                return self._fail_case(inp, 'the %s object cannot be used like the original: %r (%s:%d)' % (
                    self._stage, e, os.path.basename(tb.filename), tb.lineno), [inp['kind'], 'unusable-object'])
            finally:
                shutil.rmtree(os.path.join(fw.WORK, 'c17-files-%d' % os.getpid()), ignore_errors=True)

    FRESH_PROBE = r"""
import json, pickle, sys, warnings
warnings.simplefilter('ignore')


def probe(dm):
    # follow-up operations on a table; every step is recorded as a value or as the exception class
    out = []

    def rec(label, f):
        try:
            out.append([label, f()])
        except Exception as e:      # noqa: BLE001
            out.append([label, 'raised ' + type(e).__name__])
    cell = lambda v: repr(v)
    rows = lambda t: [[n, type(c).__name__, [cell(v) if not hasattr(v, 'tolist') else repr(v.tolist()) for v in c]]
                      for n, c in t.columns]
    names = [n for n, _c in dm.columns]
    rec('read', lambda: rows(dm))
    # first: indexing a column by its table, before anything has constructed a column in this process
    for n in names:
        rec('col[dm] ' + n, lambda n=n: [cell(v) if not hasattr(v, 'tolist') else repr(v.tolist()) for v in dm[n][dm]])
    rec('owners', lambda: [c.dm is dm for _n, c in dm.columns])
    if names and len(dm):
        n0 = names[0]
        rec('select', lambda: rows(dm[n0] == dm[n0][0]))
        rec('merge', lambda: rows((dm[n0] == dm[n0][0]) | dm[:1]))
        rec('col[sel] = v', lambda: (dm[n0].__setitem__(dm[:1], dm[n0][len(dm) - 1]), rows(dm))[1])
    rec('resize', lambda: (setattr(dm, 'length', len(dm) + 1), rows(dm))[1])
    rec('slice', lambda: rows(dm[1:]))
    return out


if __name__ == '__main__':
    print(json.dumps(probe(pickle.load(open(sys.argv[1], 'rb')))))
"""

    def run_fresh(self, inp):
        """A table pickled here and restored in a FRESH interpreter (which has imported nothing of the library before
        unpickling and has never constructed a column): the follow-up operations there give what they give here on
        the original."""
        import subprocess
        self._stage = 'setup'
        r = build_pool(inp['ops'], inp['seed'])
        dm = r.pool[inp['t']]
        d = os.path.join(fw.WORK, 'c17-files-%d' % os.getpid())
        os.makedirs(d, exist_ok=True)
        path = os.path.join(d, 'fresh.pkl')
        with open(path, 'wb') as f:
            pickle.dump(dm, f, protocol=inp.get('protocol', 2))
        script = os.path.join(d, 'fresh_probe.py')
        with open(script, 'w') as f:
            f.write(self.FRESH_PROBE)
        self._stage = 'restored (fresh process)'
        env = dict(os.environ, PYTHONPATH=fw.REPO + os.pathsep + os.path.join(fw.VERIF, 'shim'), PYTHONHASHSEED='0',
                   PYTHONWARNINGS='ignore')
        pr = subprocess.run(['/venv/bin/python', script, path], capture_output=True, text=True, env=env, timeout=120)
        ns = {}
        exec(compile(self.FRESH_PROBE, 'fresh_probe', 'exec'), ns)
        want = json.loads(json.dumps(ns['probe'](pickle.loads(pickle.dumps(dm)))))
        problem = None
        try:
            got = json.loads(pr.stdout.strip().splitlines()[-1])
        except Exception:       # noqa: BLE001
            got = None
            problem = 'the fresh process failed: %s' % (pr.stderr.strip()[-600:] or pr.stdout[-300:],)
        if problem is None and got != want:
            diff = [(a, b) for a, b in zip(got, want) if a != b][:3]
            problem = 'a table restored in a fresh process behaves differently: %r' % (diff,)
        return {'input': inp, 'observed': {'fresh': got if problem else 'as here', 'problem': problem}, 'pyfail': problem,
                'oracle': 'true', 'model': 'true', 'nontrivial': True,
                'sig': json.dumps(['fresh', inp['ops'], inp['seed'], inp['t'], inp.get('protocol', 2)], sort_keys=True, default=str),
                'tags': ['fresh-process']}

    def gen_series(self, rng, big_ok=True):
        """0, 1 or 2 series columns"""
        if rng.random() >= 0.4:
            return [], 0
        out = []
        for name in (['s'] if rng.random() < 0.75 else ['s', 'w']):
            d = rng.choice(DEPTHS if big_ok else DEPTHS[:-1])
            out.append({'name': name, 'depth': d, 'dnan': rng.random() < 0.7, 'fseed': rng.randrange(1 << 30),
                        'style': rng.choice(['mixed', 'mixed', 'ramp', 'nan'])})
        return out, rng.randint(0, 3)

    def gen_perturb(self, rng, dm, sers):
        n = len(dm)
        cols = [(nm, kd) for nm, kd in histgen.col_kinds(dm) if kd]
        c = rng.random()
        if sers and c < 0.45:
            sp = rng.choice(sers)
            if rng.random() < 0.3:
                return {'k': 'depth', 'name': sp['name'], 'd': sp['depth'] + rng.choice([1, -1] if sp['depth'] > 1 else [1])}
            return {'k': 'sample', 'name': sp['name'], 'i': rng.randrange(max(n, 1)), 'j': rng.randrange(sp['depth']),
                    'v': float(rng.choice([7.5, float('nan'), float('inf'), -1.0, 0.0])).hex()}
        if c < 0.4 and cols and n:
            name, kind = rng.choice(cols)
            return {'k': 'cell', 'name': name, 'i': rng.randrange(n), 'v': pyobs.enc(histgen.pick_value(rng, kind, 0))}
        if c < 0.6 and cols:
            return {'k': 'name', 'old': rng.choice(cols)[0], 'new': rng.choice(['e', 'f', 'zz', 'A'])}
        if c < 0.85 and n >= 2:
            l = list(range(n))
            while l == list(range(n)):
                rng.shuffle(l)
            return {'k': 'order', 'l': l}
        return {'k': 'none'}

    def search(self, rng, tier, broken):
        return self.generate(rng, tier, nh=150 if tier == 'quick' else 600)

    def generate(self, rng, tier, nh=None):
        cases = []
        nh = nh or (70 if tier == 'quick' else 500)
        lo, hi = (8, 18) if tier == 'quick' else (8, 30)
        mi = 0
        for h in range(nh):
            seed = rng.randrange(1 << 30)
            sub = random.Random(seed)
            ops_list = histgen.gen_history(sub, sub.randint(lo, hi), seed=seed)
            r = build_pool(ops_list, seed)
            npool = len(r.pool)
            base = {'ops': ops_list, 'seed': seed}

            def deco():
                return sub.randint(1, 3) if sub.random() < 0.4 else 0

            def ser(big_ok=True):
                sers, npost = self.gen_series(sub, big_ok)
                return {'series': sers, 'npost': npost, 'pseed': sub.randrange(1 << 30)} if sers else {}
            def cfg(p):
                """a non-default configuration of the table that is serialised (probability p)"""
                if sub.random() >= p:
                    return {}
                return {'cfg': {'dflt': sub.choice(['KInt', 'KFloat', 'KInt', 'KFloat', None]),
                                'unsorted': sub.random() < 0.35}}
            order = list(range(npool))
            sub.shuffle(order)
            for t in order[:4]:
                mode = MODES[mi % len(MODES)]
                mi += 1
                before = [sub.choice(TWINS_BEFORE)] if sub.random() < 0.5 else []
                after = [sub.choice(TWINS_AFTER) for _ in range(sub.choice([0, 1, 1, 2, 2, 3]))]
                cases.append(self.rerun(dict(base, kind='pickle', t=t, mode=mode, warm=sub.randint(0, 2), deco=deco(),
                                             fseed=sub.randrange(1 << 30), nfollow=sub.randint(1, 4),
                                             before=before, after=after, foreign=sub.random() < 0.15,
                                             **cfg(0.3), **ser(big_ok=sub.random() < 0.3))))
            if h % 12 == 0 and npool:
                cases.append(self.rerun(dict(base, kind='fresh', t=order[0], protocol=sub.choice([0, 2, 4]))))
            # the same file / bytes / JSON text read twice, the first result modified before and after the second read
            for t in order[:1]:
                srck = TWICE_SRC[h % len(TWICE_SRC)]
                cases.append(self.rerun(dict(base, kind='twice', t=t, src=srck, protocol=sub.choice([0, 2, 4, 5]),
                                             relpath=sub.random() < 0.3, warm=sub.randint(0, 2), deco=deco(),
                                             fseed=sub.randrange(1 << 30), nbefore=sub.choice([0, 1, 2, 2, 3]),
                                             nsecond=sub.choice([0, 1, 2]), nafter=sub.choice([0, 1, 2]),
                                             third=sub.random() < 0.35, foreign=sub.random() < 0.1,
                                             **cfg(0.3), **ser(big_ok=sub.random() < 0.2))))
            for t in order[:2]:
                extra = ser()
                # the perturbation is chosen on the table as it is before the post-operations; a stale row index
                # only means that the copy stays unperturbed
                cases.append(self.rerun(dict(base, kind='json', t=t, warm=sub.randint(0, 2), deco=deco(),
                                             foreign=sub.random() < 0.35, **cfg(0.1),
                                             perturb=self.gen_perturb(sub, r.pool[t], extra.get('series')), **extra)))
            # the same object serialised, edited in place, serialised again (nothing else in between)
            for t in ([order[0], order[-1]] if h % 2 == 0 else [order[h % len(order)]]):
                cases.append(self.rerun(dict(base, kind='reser', t=t, warm=sub.randint(0, 2), deco=deco(),
                                             foreign=sub.random() < 0.15, what=sub.choice(RESER_WHAT),
                                             mode=MODES[mi % len(MODES)], jfirst=sub.random() < 0.7,
                                             eseed=sub.randrange(1 << 30), nsels=sub.choice([0, 1, 1, 2]),
                                             nedits=sub.choice([1, 1, 2, 2, 3]), **cfg(0.2),
                                             **ser(big_ok=sub.random() < 0.2))))
                mi += 1
            t = order[-1]
            cases.append(self.rerun(dict(base, kind='pandas', t=t, deco=deco(), foreign=sub.random() < 0.2, **ser())))
            if h % 2 == 0:
                # a table that certainly has a deep series column
                d = [5, 8, 50, 6][(h // 2) % 4]
                cases.append(self.rerun(dict(base, kind='pandas', t=order[0], deco=0, pseed=sub.randrange(1 << 30),
                                             npost=sub.randint(0, 2),
                                             series=[{'name': 's', 'depth': d, 'dnan': True, 'fseed': sub.randrange(1 << 30),
                                                      'style': sub.choice(['mixed', 'ramp'])}])))
        return cases

    def shrink_candidates(self, inp):
        ops_list = inp['ops']
        n = len(ops_list)
        if inp.get('follow'):
            f = inp['follow']
            for i in range(len(f) - 1, -1, -1):
                yield dict(inp, follow=f[:i] + f[i + 1:])
        for key in ('after', 'before'):
            l = inp.get(key) or []
            for i in range(len(l) - 1, -1, -1):
                yield dict(inp, **{key: l[:i] + l[i + 1:]})
        for key in ('after_ops', 'second_ops', 'before_ops'):
            f = inp.get(key) or []
            for i in range(len(f) - 1, -1, -1):
                yield dict(inp, **{key: f[:i] + f[i + 1:]})
        if inp.get('third'):
            yield dict(inp, third=False)
        if inp.get('relpath'):
            yield dict(inp, relpath=False)
        if inp.get('edits'):
            f = inp['edits']
            for i in range(len(f) - 1, -1, -1):
                if len(f) > 1:
                    yield dict(inp, edits=f[:i] + f[i + 1:])
            if inp.get('what') in ('both', 'all'):
                yield dict(inp, what='json')
                yield dict(inp, what='pickle')
        if inp.get('sels'):
            # only selections no edit refers to (the positions of the others would shift)
            refd = set()
            for e in inp.get('edits') or []:
                for v in (e.get('t2'), (e.get('addr') or {}).get('t2'),
                          e['rhs'].get('t2') if isinstance(e.get('rhs'), dict) else None):
                    if isinstance(v, int):
                        refd.add(v)
            if not any(v > 0 for v in refd):
                yield dict(inp, sels=[])
        if inp.get('post'):
            p = inp['post']
            for i in range(len(p) - 1, -1, -1):
                yield dict(inp, post=p[:i] + p[i + 1:])
        sers = inp.get('series') or []
        for i in range(len(sers) - 1, -1, -1):
            yield dict(inp, series=sers[:i] + sers[i + 1:])
        if inp.get('foreign'):
            yield dict(inp, foreign=False)
        if inp.get('warm'):
            yield dict(inp, warm=0)
        if inp.get('deco'):
            yield dict(inp, deco=0)
        if inp.get('perturb') and inp['perturb']['k'] != 'none':
            yield dict(inp, perturb={'k': 'none'})
        creating = ('new', 'select', 'merge', 'slice', 'getrows', 'sort', 'shuffle', 'sample', 'concat')
        for i in range(n - 1, -1, -1):
            if ops_list[i]['op'] not in creating:
                yield dict(inp, ops=ops_list[:i] + ops_list[i + 1:])
        # drop trailing operations that come after the creation of table t
        for m in range(n - 1, 0, -1):
            made = sum(1 for o in ops_list[:m] if o['op'] in creating)
            if made > inp['t']:
                yield dict(inp, ops=ops_list[:m])

    def key(self, case):
        inp = case['input']
        k = inp.get('kind', '?')
        s = ' series' if inp.get('series') else ''
        if k == 'pickle':
            return 'pickle%s %s after %s follow %s' % (s, inp.get('mode'), ','.join(inp.get('after') or []),
                                                       ' '.join(o['op'] for o in inp.get('follow') or []))
        if k == 'json':
            return 'json%s perturb %s' % (s, (inp.get('perturb') or {}).get('k'))
        if k == 'twice':
            return 'read twice%s %s (%s reads) before %s second %s after %s' % (
                s, inp.get('src'), 3 if inp.get('third') else 2, ' '.join(o['op'] for o in inp.get('before_ops') or []),
                ' '.join(o['op'] for o in inp.get('second_ops') or []), ' '.join(o['op'] for o in inp.get('after_ops') or []))
        if k == 'reser':
            return 'reser%s %s edits %s' % (s, inp.get('what'), ' '.join(edit_name(e) for e in inp.get('edits') or []))
        return k + s


PROP = C17()
