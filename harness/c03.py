from core_props import C03

PROP = C03()
