"""Classifying Python objects / outcomes into the Coq types of DM.Base.PyVal."""
import math
import numpy as np
import coqlit as L

EXN = {TypeError: 'TypeError', ValueError: 'ValueError', OverflowError: 'OverflowError',
       IndexError: 'IndexError', KeyError: 'KeyError', AttributeError: 'AttributeError',
       ZeroDivisionError: 'ZeroDivisionError'}


def exn_name(e):
    t = type(e)
    if t in EXN:
        return EXN[t]
    if t is Exception:
        return 'PlainException'
    for k, v in EXN.items():
        if isinstance(e, k):
            return v
    return 'OtherError'


def pyv(v):
    """Coq literal of type pyv for an assigned object."""
    if isinstance(v, (bool, np.bool_)) and type(v) is bool:
        return '(PBool %s)' % L.boolean(v)
    if type(v) is int:
        return '(PInt %s)' % L.z(v)
    if type(v) is float:
        return '(PFloat %s)' % L.fl(v)
    if isinstance(v, np.integer):
        return '(PNpInt %s)' % L.z(int(v))
    if isinstance(v, np.floating):
        return '(PNpFloat %s %s)' % (L.boolean(isinstance(v, float)), L.fl(float(v)))
    if type(v) is str:
        try:
            ai = int(v)
        except ValueError:
            ai = None
        try:
            af = float(v)
        except ValueError:
            af = None
        return '(PStr %s %s %s)' % (L.string(v), L.opt(ai, L.z), L.opt(af, L.fl))
    if v is None:
        return 'PNone'
    return 'POther'


def jsonable(v):
    if type(v) is float:
        return {'float': v.hex()}
    if isinstance(v, np.generic):
        return {type(v).__name__: (float(v).hex() if isinstance(v, np.floating) else int(v))}
    if v is None or type(v) in (int, bool, str):
        return v
    return {'object': type(v).__name__}


def val(x):
    """Coq literal of type val for a value read back from a column; None if
    it is not a plain int/float/str/None."""
    if x is None:
        return 'VNone'
    if type(x) is int:
        return '(VInt %s)' % L.z(x)
    if type(x) is float:
        return '(VFlt %s)' % L.fl(x)
    if type(x) is str:
        return '(VStr %s)' % L.string(x)
    return None


def outcome(thunk):
    """Run thunk; return ('ok', value) or ('exn', name)."""
    try:
        return ('ok', thunk())
    except Exception as e:          # noqa: BLE001
        return ('exn', exn_name(e))


class Obj(object):
    """an unsupported object"""
    pass


def enc(v):
    """JSON-able encoding of an assigned value (replay files)."""
    if isinstance(v, Obj):
        return {'t': 'obj'}
    if v is None:
        return {'t': 'none'}
    if type(v) is bool:
        return {'t': 'bool', 'v': v}
    if type(v) is int:
        return {'t': 'int', 'v': str(v)}
    if type(v) is float:
        return {'t': 'float', 'v': v.hex()}
    if type(v) is str:
        return {'t': 'str', 'v': v}
    if isinstance(v, np.integer):
        return {'t': 'np', 'dtype': v.dtype.name, 'v': str(int(v))}
    if isinstance(v, np.floating):
        return {'t': 'np', 'dtype': v.dtype.name, 'v': float(v).hex()}
    raise AssertionError(v)


def dec(d):
    t = d['t']
    if t == 'obj':
        return Obj()
    if t == 'none':
        return None
    if t == 'bool':
        return bool(d['v'])
    if t == 'int':
        return int(d['v'])
    if t == 'float':
        return float.fromhex(d['v'])
    if t == 'str':
        return d['v']
    if t == 'np':
        ty = getattr(np, d['dtype'])
        return ty(float.fromhex(d['v'])) if d['dtype'].startswith('float') else ty(int(d['v']))
    raise AssertionError(d)
