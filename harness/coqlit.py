"""Printing Python values as Coq terms (types of DM.Base.PyVal)."""
import math


def z(n):
    n = int(n)
    return '(%d)' % n if n < 0 else '%d' % n


def zs(ns):
    return '[' + '; '.join(z(n) for n in ns) + ']'


def nat(n):
    assert 0 <= n < 5000
    return '%d%%nat' % n


def N(n):
    assert n >= 0
    return '%d%%N' % n


def boolean(b):
    return 'true' if b else 'false'


def string(s):
    """Coq string literal holding the UTF-8 bytes of s."""
    b = s.encode('utf-8')
    if all((0x20 <= c <= 0x7e) or c >= 0x80 or c == 0x0a for c in b):
        return '"' + s.replace('"', '""') + '"'
    return '(sb [' + ';'.join('%d%%nat' % c for c in b) + '])'


def fl(x):
    """float -> DM.Base.PyVal.fl (exact dyadic)."""
    x = float(x)
    if math.isnan(x):
        return 'FNan'
    neg = math.copysign(1.0, x) < 0
    if math.isinf(x):
        return '(FInf %s)' % boolean(neg)
    if x == 0.0:
        return '(FZero %s)' % boolean(neg)
    m, e = math.frexp(abs(x))          # abs(x) = m * 2**e, 0.5 <= m < 1
    mi = int(m * (1 << 53))
    e -= 53
    while mi % 2 == 0:
        mi //= 2
        e += 1
    return '(FFin %s %d %s)' % (boolean(neg), mi, z(e))


def lst(items):
    return '[' + '; '.join(items) + ']'


def opt(x, f):
    return 'None' if x is None else '(Some %s)' % f(x)
