"""Operation histories on tables that hold SeriesColumns.

A series column of depth d is dumped as d FloatColumn pseudo-columns name#j (Spec/SeriesEnc.v); the alphabet
operations of histgen/world run unchanged next to series-specific operations (creation, row / slice / index-list /
selection / Row writes of scalars, series, per-row numbers and matrices, (row, sample) writes, depth changes, rename,
delete, column copy / alias).  Judged in Coq by Run/SSeries.v (L0: Spec.SeriesEnc.sstep; L1: Run/RCore on the
alphabet steps)."""
import random
import warnings

import numpy as np

import coqlit as L
import histgen
import pyobs
import world

SNAMES = ['s', 't']            # reserved for series columns (histgen.NAMES are the plain ones)
NUMS = [0, 1, 2, -1, 7, 2.5, -0.5, float('nan'), float('inf'), 1e300, 3, 10]


def sname(n, j):
    return '%s#%d' % (n, j)


def is_series(col):
    return type(col).__name__ == '_SeriesColumn'


def series_cols(dm):
    return [(n, c) for n, c in dm._cols.items() if is_series(c)]


def aliased(dm, col):
    return sum(1 for c in dm._cols.values() if c is col) > 1


# ------------------------------------------------------------------ literals
def pv(x):
    return pyobs.pyv(pyobs.dec(x))


def svalue_coq(v):
    k = v['k']
    if k == 'scalar':
        return '(SVScalar %s)' % pv(v['v'])
    if k == 'series':
        return '(SVSeries %s)' % L.lst(pv(x) for x in v['vs'])
    if k == 'perrow':
        return '(SVPerRow %s)' % L.lst(pv(x) for x in v['vs'])
    return '(SVMatrix %s)' % L.lst(L.lst(pv(x) for x in row) for row in v['rows'])


def svalue_py(v):
    k = v['k']
    if k == 'scalar':
        return pyobs.dec(v['v'])
    if k in ('series', 'perrow'):
        return [pyobs.dec(x) for x in v['vs']]
    return [[pyobs.dec(x) for x in r] for r in v['rows']]


def sop_coq(o):
    k = o['op']
    t = L.nat(o['t']) if 't' in o else None
    if k == 'snew':
        return '(SNew %s %s %s %s)' % (t, L.string(o['name']), L.nat(o['depth']), L.nat(o['old']))
    if k == 'sset':
        if o.get('refused'):
            return '(SRefused %s %s)' % (t, o['refused'])
        return '(SSet %s %s %s %s %s)' % (t, L.string(o['name']), L.nat(o['depth']), world.addr_coq(o['addr']),
                                           svalue_coq(o['value']))
    if k == 'ssetsample':
        return '(SSetSample %s %s %s %s (RScalar %s))' % (t, L.string(o['name']), world.addr_coq(o['addr']),
                                                           world.nats(o['js']), pv(o['v']))
    if k == 'ssetdepth':
        return '(SSetDepth %s %s %s %s)' % (t, L.string(o['name']), L.nat(o['old']), L.nat(o['new']))
    if k == 'srename':
        return '(SRename %s %s %s %s %s)' % (t, L.string(o['old']), L.string(o['new']), L.nat(o['depth']),
                                              L.boolean(o['new'].isidentifier()))
    if k == 'sdelcol':
        return '(SDelCol %s %s %s)' % (t, L.string(o['name']), L.nat(o['depth']))
    if k == 'scopycol':
        return '(SCopyCol %s %s %s %s %s %s)' % (t, L.string(o['name']), L.nat(o['old']), L.nat(o['t2']),
                                                  L.string(o['name2']), L.nat(o['depth']))
    if k == 'sout':
        return 'SOut'
    if k == 'concatrow':
        return '(SConcatRow %s %s %s)' % (t, L.nat(o['t2']), L.z(o['ni']))
    if k == 'concatdict':
        return '(SConcatDict %s %s %s)' % (t, L.nat(o['n']), L.lst(
            '(%s, %s)' % (L.string(nm), L.lst(pv(x) for x in vs)) for nm, vs in o['cols']))
    return '(SPlain %s)' % world.op_coq(o)


class SRunner(world.Runner):
    """world.Runner whose dumper reads a series column as pseudo-columns and whose probes know series cells."""

    def dump_table(self, dm, problems):
        rid, ids = world.index_coq(dm._rowid, problems)
        objs = []        # (column object, sample index or None)
        names = []

        def slot(col, j):
            for q, (o, jj) in enumerate(objs):
                if o is col and jj == j:
                    return q
            objs.append((col, j))
            return len(objs) - 1
        for name, col in dm._cols.items():
            if is_series(col):
                seq = col._seq
                if not isinstance(seq, np.ndarray) or seq.ndim != 2 or seq.shape[1] != col._depth:
                    problems.append('series column %s: storage of shape %r for depth %r' % (
                        name, getattr(seq, 'shape', None), col._depth))
                for j in range(col._depth):
                    names.append((sname(name, j), slot(col, j)))
            else:
                names.append((name, slot(col, None)))
        cols = []
        for col, j in objs:
            crid, _ = world.index_coq(col._rowid, problems)
            if j is None:
                kind = world.kind_of(col)
                if kind is None:
                    problems.append('unsupported column type %s' % type(col).__name__)
                    kind = 'KMixed'
                cells = world.cells_coq(col, kind, problems)
            else:
                kind = 'KFloat'
                seq = col._seq
                if seq.dtype.kind != 'f':
                    problems.append('series storage has dtype %s' % seq.dtype)
                colj = seq[:, j] if (seq.ndim == 2 and j < seq.shape[1]) else []
                cells = L.lst(pyobs.val(float(x)) for x in colj)
            cols.append('{| lc_kind := %s; lc_rowid := %s; lc_cells := %s; lc_owner := %s; lc_tc := %s |}' % (
                kind, crid, cells, L.boolean(col._datamatrix is dm), L.boolean(col._typechecking is True)))
        dk = {world.MixedColumn: 'KMixed', world.FloatColumn: 'KFloat', world.IntColumn: 'KInt'}.get(dm._default_col_type)
        if dk is None:
            problems.append('default column type %r' % (dm._default_col_type,))
            dk = 'KMixed'
        return ('{| l_fam := %s; l_rowid := %s; l_names := %s; l_cols := %s; l_sorted := %s; l_dflt := %s |}' % (
            L.nat(self.fam(dm)), rid,
            L.lst('(%s, %s)' % (L.string(n), L.nat(j)) for n, j in names),
            L.lst(cols), L.boolean(bool(dm._sorted)), dk))

    def probes(self, dm, problems):
        n = len(dm)
        for name, col in dm._cols.items():
            if not is_series(col):
                continue
            if len(col) != n or col._seq.shape[0] != n:
                problems.append('series column %s has %d rows in a %d-row table' % (name, len(col), n))
                continue
            if col.dm is not dm:
                problems.append('series column %s reports another owner' % name)
            try:
                for i, row in enumerate(dm):
                    a = np.asarray(row[name], dtype=float)
                    b = np.asarray(col._seq[i], dtype=float)
                    if a.shape != b.shape or not np.array_equal(a, b, equal_nan=True):
                        problems.append('row-wise read of series %s differs from column-wise read' % name)
                        break
            except Exception as e:      # noqa: BLE001
                problems.append('row-wise read of series %s raised %r' % (name, e))
        # the plain columns: the generic probes, restricted to them
        for name, col in dm._cols.items():
            if is_series(col):
                continue
            if len(col) != n:
                problems.append('column %s has %d cells in a %d-row table' % (name, len(col), n))
                continue
            try:
                colwise = list(col)
                rowwise = [row[name] for row in dm]
            except Exception as e:      # noqa: BLE001
                problems.append('row-wise read of %s raised %r' % (name, e))
                continue
            if [pyobs.val(x) for x in colwise] != [pyobs.val(x) for x in rowwise]:
                problems.append('row-wise read of %s differs from column-wise read' % name)
            if col.dm is not dm:
                problems.append('column %s reports another owner' % name)
        try:
            names = dm.column_names
            want = sorted(dm._cols.keys()) if dm._sorted else list(dm._cols.keys())
            if names != want:
                problems.append('column_names %r, expected %r' % (names, want))
        except Exception as e:      # noqa: BLE001
            problems.append('column_names raised %r' % e)

    def apply_concat(self, o):
        """a << Row and a << dict: the intermediate table (the row's one-row slice / what _fromdict builds) becomes a pool
        member of its own (built independently here), so that the pools of implementation and spec stay aligned."""
        P = self.pool
        from datamatrix import DataMatrix
        with warnings.catch_warnings():
            warnings.simplefilter('ignore')
            a = P[o['t']]
            if o['op'] == 'concatrow':
                src = P[o['t2']]
                ni = o['ni']
                operand = src[o['i']]                 # a Row (o['i'] may be negative; ni is its normalised position)
                tmp = src[ni:ni + 1]
            else:
                d = {nm: [pyobs.dec(x) for x in vs] for nm, vs in o['cols']}
                operand = d
                tmp = DataMatrix()._fromdict({nm: list(v) for nm, v in d.items()})
            P.append(tmp)
            try:
                res = a << operand
            except Exception as e:          # noqa: BLE001
                return '(Err %s)' % pyobs.exn_name(e), False
            if not isinstance(res, DataMatrix):
                return '(Err OtherError)', False
            P.append(res)
        return 'OkNew', True

    # ---------------------------------------------------------------- apply
    def apply_s(self, o, seed=0):
        k = o['op']
        if k in ('concatrow', 'concatdict'):
            return self.apply_concat(o)
        if k not in ('snew', 'sset', 'ssetsample', 'ssetdepth', 'srename', 'sdelcol', 'scopycol', 'sout'):
            return self.apply(o, seed=seed)
        P = self.pool
        from datamatrix import SeriesColumn
        with warnings.catch_warnings():
            warnings.simplefilter('ignore')
            try:
                if k == 'sout':
                    return 'OkUnit', False
                dm = P[o['t']]
                if k == 'snew':
                    dm[o['name']] = SeriesColumn(depth=o['depth'])
                elif k == 'sset':
                    a = o['addr']
                    v = svalue_py(o['value'])
                    if a['k'] == 'row':
                        setattr(dm[a['i']], o['name'], v)
                    else:
                        col = dm[o['name']]
                        if a['k'] == 'int':
                            col[a['i']] = v
                        elif a['k'] == 'slice':
                            col[a['a']:a['b']] = v
                        elif a['k'] == 'list':
                            col[list(a['l'])] = v
                        elif a['k'] == 'sel':
                            col[P[a['t2']]] = v
                elif k == 'ssetsample':
                    a = o['addr']
                    col = dm[o['name']]
                    row = a['i'] if a['k'] == 'int' else (slice(a['a'], a['b']) if a['k'] == 'slice' else list(a['l']))
                    smp = o['smp']
                    col[row, smp[1] if smp[0] == 'int' else slice(smp[1], smp[2])] = pyobs.dec(o['v'])
                elif k == 'ssetdepth':
                    dm[o['name']].depth = o['new']
                elif k == 'srename':
                    dm.rename(o['old'], o['new'])
                elif k == 'sdelcol':
                    del dm[o['name']]
                elif k == 'scopycol':
                    dm[o['name']] = P[o['t2']][o['name2']]
            except Exception as e:          # noqa: BLE001
                if k == 'sset' and o.get('malformed'):
                    o['refused'] = pyobs.exn_name(e)
                return '(Err %s)' % pyobs.exn_name(e), False
        return 'OkUnit', False


# ------------------------------------------------------------------ running
def merge_depth_mismatch(P, o):
    if o['t'] >= len(P) or o['t2'] >= len(P):
        return True
    a, b = P[o['t']], P[o['t2']]
    for n, c in series_cols(a):
        c2 = b._cols.get(n)
        if c2 is not None and is_series(c2) and c2._depth != c._depth:
            return True
        if c2 is not None and not is_series(c2):
            return True
    return False


def run_shistory(ops_list, seed=0):
    r = SRunner()
    steps = []
    problems = []
    outcomes = []
    for si, o in enumerate(ops_list):
        before = r.snapshot_objects()
        eff = o
        if o['op'] == 'merge' and o['t'] < len(r.pool) and o['t2'] < len(r.pool) and merge_depth_mismatch(r.pool, o):
            # relatives whose series columns differ in depth: NumPy refuses to concatenate; not covered by the encoding
            eff = {'op': 'sout'}
            outcomes.append('OkUnit')
            steps.append('{| ss_op := SOut; ss_out := OkUnit; ss_dumps := []; ss_pyok := true |}')
            break
        out, _new = r.apply_s(eff, seed=seed * 7919 + si)
        outcomes.append(out)
        pr = []
        r.audit(before, pr)
        dumps = []
        for i, dm in enumerate(r.pool):
            if i >= len(r.last):
                r.last.append(None)
            try:
                lit = r.dump_table(dm, pr)
            except Exception as e:      # noqa: BLE001
                pr.append('the object graph of table %d cannot be dumped: %r' % (i, e))
                lit = r.last[i] or world.EMPTY_LTABLE
            if r.last[i] != lit:
                r.last[i] = lit
                dumps.append('(%s, %s)' % (L.nat(i), lit))
                try:
                    r.probes(dm, pr)
                except Exception as e:      # noqa: BLE001
                    pr.append('reading table %d through its public interface raised %r' % (i, e))
        if o['op'] == 'sset' and o.get('malformed') and not o.get('refused'):
            pr.append('a malformed series assignment was accepted: %r' % (o['value'],))
        for p in pr:
            problems.append('step %d (%s): %s' % (si, o['op'], p))
        steps.append('{| ss_op := %s; ss_out := %s; ss_dumps := %s; ss_pyok := %s |}' % (
            sop_coq(o), out, L.lst(dumps), L.boolean(not pr)))
    final = L.lst(r.last[:len(r.pool)])
    return L.lst(steps), final, problems, {'outcomes': outcomes, 'pool': len(r.pool),
                                             'rows': [len(dm) for dm in r.pool]}


# ------------------------------------------------------------------ generation
def num(rng):
    return pyobs.enc(rng.choice(NUMS))


def gen_svalue(rng, m, d, scalar_only=False):
    """A well-shaped value for m addressed rows of a depth-d series column."""
    c = rng.random()
    if scalar_only or c < 0.3 or m == 0:
        return {'k': 'scalar', 'v': num(rng)}
    if c < 0.55 and m != d:
        return {'k': 'series', 'vs': [num(rng) for _ in range(d)]}
    if c < 0.75:
        return {'k': 'perrow', 'vs': [num(rng) for _ in range(m)]}
    if m == 1 and d == 1:
        return {'k': 'scalar', 'v': num(rng)}
    return {'k': 'matrix', 'rows': [[num(rng) for _ in range(d)] for _ in range(m)]}


def gen_sop(rng, r, p_series=0.35, bad_rate=0.06, max_rows=9):
    """A series-specific operation on the live pool, or None."""
    P = r.pool
    if not P:
        return None
    for _attempt in range(30):
        ti = rng.randrange(len(P))
        dm = P[ti]
        n = len(dm)
        sc = series_cols(dm)
        k = rng.choices(['snew', 'sset', 'ssetsample', 'ssetdepth', 'srename', 'sdelcol', 'scopycol'],
                        [3 if len(sc) < 2 else 0.3, 10, 6, 2, 1, 0.7, 1.5])[0]
        if k == 'snew':
            name = rng.choice(SNAMES)
            old = dm._cols.get(name)
            if old is not None and not is_series(old):
                continue
            return {'op': 'snew', 't': ti, 'name': name, 'depth': rng.randint(1, 4),
                    'old': old._depth if old is not None else 0}
        if not sc:
            continue
        name, col = rng.choice(sc)
        d = col._depth
        if k == 'sset':
            form = rng.choice(['int', 'row', 'slice', 'list', 'sel', 'slice'])
            malformed = rng.random() < bad_rate
            if form in ('int', 'row'):
                if n == 0:
                    continue
                i = rng.randint(-n, n - 1) if rng.random() > bad_rate else rng.choice([n, -n - 1])
                v = {'k': 'scalar', 'v': num(rng)} if rng.random() < 0.4 else {'k': 'series', 'vs': [num(rng) for _ in range(d)]}
                if malformed and 0 <= (i % max(n, 1)) and -n <= i < n:
                    v = {'k': 'series', 'vs': [num(rng) for _ in range(d + 1)]}
                    return {'op': 'sset', 't': ti, 'name': name, 'depth': d, 'addr': {'k': form, 'i': i}, 'value': v,
                            'malformed': True}
                return {'op': 'sset', 't': ti, 'name': name, 'depth': d, 'addr': {'k': form, 'i': i}, 'value': v}
            if form == 'slice':
                a = rng.choice([None, 0, 1, 2, -1, -2, n])
                b = rng.choice([None, 1, 2, 3, -1, n, n + 1])
                m = len(range(*slice(a, b).indices(n)))
                addr = {'k': 'slice', 'a': a, 'b': b}
            elif form == 'list':
                if n == 0:
                    continue
                l = [rng.randrange(n) for _ in range(rng.randint(1, min(n, 4)))]
                m = len(l)
                addr = {'k': 'list', 'l': l}
            else:
                myids = set(int(x) for x in dm._rowid)
                cands = [j for j, q in enumerate(P) if q._id == dm._id and set(int(x) for x in q._rowid) <= myids]
                c_ = rng.random()
                if c_ < bad_rate:
                    cands = [j for j, q in enumerate(P) if q._id != dm._id] or cands
                elif c_ < 2 * bad_rate and d >= 1:
                    cands = [j for j, q in enumerate(P) if q._id == dm._id
                             and not set(int(x) for x in q._rowid) <= myids] or cands
                if not cands:
                    continue
                t2 = rng.choice(cands)
                m = len(P[t2])
                addr = {'k': 'sel', 't2': t2}
            if malformed and m >= 1:
                # neither m nor d values, nor m x d: refused
                bad_len = max(m, d) + 1
                bad = {'k': 'perrow', 'vs': [pyobs.enc(1.0)] * bad_len}
                if m >= 2 and d >= 2 and rng.random() < 0.5:
                    # shapes that NumPy would broadcast but the column does not accept: one element, one row, 1 x 1
                    bad = rng.choice([{'k': 'perrow', 'vs': [pyobs.enc(5.0)]},
                                      {'k': 'matrix', 'rows': [[pyobs.enc(float(j + 1)) for j in range(d)]]},
                                      {'k': 'matrix', 'rows': [[pyobs.enc(7.0)]]}])
                return {'op': 'sset', 't': ti, 'name': name, 'depth': d, 'addr': addr, 'value': bad, 'malformed': True}
            return {'op': 'sset', 't': ti, 'name': name, 'depth': d, 'addr': addr, 'value': gen_svalue(rng, m, d)}
        if k == 'ssetsample':
            if n == 0 or d == 0:
                continue
            form = rng.choice(['int', 'int', 'slice', 'list'])
            if form == 'int':
                i = rng.randint(-n, n - 1) if rng.random() > bad_rate else rng.choice([n, -n - 1])
                addr = {'k': 'int', 'i': i}
            elif form == 'slice':
                addr = {'k': 'slice', 'a': rng.choice([None, 0, 1, -2]), 'b': rng.choice([None, 2, -1, n])}
            else:
                addr = {'k': 'list', 'l': [rng.randrange(n) for _ in range(rng.randint(1, min(n, 3)))]}
            if rng.random() < 0.6:
                j = rng.randrange(d)
                js, smp = [j], ('int', j if rng.random() < 0.7 else j - d)
            else:
                a = rng.choice([None, 0, 1, -1])
                b = rng.choice([None, 1, 2, d])
                js, smp = list(range(*slice(a, b).indices(d))), ('slice', a, b)
                if not js:
                    continue
            return {'op': 'ssetsample', 't': ti, 'name': name, 'addr': addr, 'js': js, 'smp': list(smp), 'v': num(rng)}
        if k == 'ssetdepth':
            if aliased(dm, col):
                continue
            return {'op': 'ssetdepth', 't': ti, 'name': name, 'old': d, 'new': rng.choice([x for x in (1, 2, 3, 4, 5)])}
        if k == 'srename':
            new = rng.choice(SNAMES + ['w'])
            tgt = dm._cols.get(new)
            if tgt is not None and not is_series(tgt):
                continue
            return {'op': 'srename', 't': ti, 'old': name, 'new': new, 'depth': d}
        if k == 'sdelcol':
            return {'op': 'sdelcol', 't': ti, 'name': name, 'depth': d}
        if k == 'scopycol':
            t2 = ti if rng.random() < 0.5 else rng.randrange(len(P))
            sc2 = series_cols(P[t2])
            if not sc2:
                continue
            name2, col2 = rng.choice(sc2)
            tname = rng.choice(SNAMES + ['w'])
            old = dm._cols.get(tname)
            if old is not None and not is_series(old):
                continue
            return {'op': 'scopycol', 't': ti, 'name': tname, 'old': old._depth if old is not None else 0, 't2': t2,
                    'name2': name2, 'depth': col2._depth}
    return None


def gen_concat_op(rng, r, max_pool=9):
    """a << Row / a << dict (each adds two pool members)"""
    P = r.pool
    if not P or len(P) + 2 > max_pool:
        return None
    ti = rng.randrange(len(P))
    if rng.random() < 0.55:
        cands = [j for j, q in enumerate(P) if len(q) > 0]
        if not cands:
            return None
        t2 = rng.choice(cands)
        n2 = len(P[t2])
        ni = rng.randrange(n2)
        i = ni - n2 if rng.random() < 0.3 else ni
        return {'op': 'concatrow', 't': ti, 't2': t2, 'i': i, 'ni': ni}
    names = rng.sample(histgen.NAMES + ['e'], rng.randint(1, 3))
    n = rng.randint(0, 3)
    cols = []
    for nm in names:
        m = n if rng.random() < 0.7 else rng.randint(0, n)
        cols.append([nm, [pyobs.enc(histgen.pick_value(rng, 'KMixed', 0)) for _ in range(m)]])
    if cols and not any(len(vs) == n for _nm, vs in cols):
        cols[0][1] = [pyobs.enc(histgen.pick_value(rng, 'KMixed', 0)) for _ in range(n)]
    return {'op': 'concatdict', 't': ti, 'n': n, 'cols': cols}


def gen_shistory(rng, nsteps, weights=None, seed=0, p_series=0.35, **kw):
    weights = dict(weights or histgen.DEFAULT_WEIGHTS)
    r = SRunner()
    ops_list = []

    def do(o):
        r.apply_s(o, seed=seed * 7919 + len(ops_list))
        ops_list.append(o)
    n = rng.randint(3, 7)
    do({'op': 'new', 'n': n})
    for name in rng.sample(histgen.NAMES, 2):
        kind = rng.choice(world.KINDS)
        do({'op': 'setcolkind', 't': 0, 'name': name, 'kind': kind})
        do({'op': 'setcol', 't': 0, 'name': name,
            'rhs': {'k': 'seq', 'vs': [pyobs.enc(histgen.pick_value(rng, kind, 0)) for _ in range(n)]}})
    d = rng.randint(1, 3)
    do({'op': 'snew', 't': 0, 'name': 's', 'depth': d, 'old': 0})
    do({'op': 'sset', 't': 0, 'name': 's', 'depth': d, 'addr': {'k': 'slice', 'a': None, 'b': None},
        'value': {'k': 'matrix', 'rows': [[pyobs.enc(float(10 * (i + 1) + j)) for j in range(d)] for i in range(n)]}})
    while len(ops_list) < nsteps:
        o = gen_sop(rng, r, **{k: v for k, v in kw.items() if k in ('bad_rate', 'max_rows')}) \
            if rng.random() < p_series else None
        if o is None and weights.get('concat', 0) and rng.random() < 0.04 + 0.004 * weights.get('concat', 0):
            o = gen_concat_op(rng, r, max_pool=kw.get('max_pool', 7) + 2)
        if o is None:
            o = histgen.gen_op(rng, r, weights, **kw)
        if o['op'] == 'merge' and merge_depth_mismatch(r.pool, o):
            continue
        do(o)
    return ops_list
