"""C01 -- cells stay with their rows under any operation history."""
from histprop import HistProp
from core_props import ProbeMixin, series_payload_probes, series_default_probes, getitem_dispatch_probe


class C01(ProbeMixin, HistProp):
    id = 'C01'
    props_file = 'theories/Props/C01.v'
    rule = ('seeded random operation histories (6-16 steps quick, 10-40 thorough) over a pool of related and unrelated '
            'DataMatrix objects with Mixed/Float/Int columns, full public alphabet (column creation/assignment, cell '
            'assignment by int/slice/index list/selection/Row, selection, & | ^, slicing, sorting, shuffling, sampling, '
            'resizing, row/column deletion, renaming, <<, sorted flag), ~8% malformed operations; after every step the '
            'object graph of each changed table is dumped and checked in Coq (inv_b, abs = Spec.step) and the whole '
            'pool at the end; non-trivial = at least two state-changing steps; distinct by (ops, seed)')
    trusted_base = [
        'Coq 8.16.1 kernel (coqc; vm_compute for evaluating cases; no native_compute)',
        'harness/world.py + harness/sworld.py (runners, object-graph dumpers, audits A1-A2, probes), harness/histgen.py, Run/SCore.v, Run/SSeries.v',
        'Spec/Table.v, Spec/Ops.v: the hand-written positional reference model (the "plain list-of-rows model" of the property)',
    ]
    assumptions = [
        '20% of the histories run on tables with SeriesColumns through the pseudo-column encoding of Spec/SeriesEnc.v '
        '(numbers only; tables compared up to name order); Python-side series payload probes in addition, incl. the '
        'empty value (NaN / 0 for defaultnan=False) of rows added to derived tables by a resize or a concatenation',
        'random operations take the permutation the implementation produced as an oracle argument, validated in Coq',
    ]

    def generate(self, rng, tier):
        return super().generate(rng, tier) + self.direct_probes(rng, 80 if tier == 'quick' else 800)

    def direct_probes(self, rng, n):
        return (series_payload_probes(rng, n, 'C01') + series_default_probes(rng, max(30, n // 2))
                + [getitem_dispatch_probe()])


PROP = C01()
