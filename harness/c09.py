from core_props import C09

PROP = C09()
