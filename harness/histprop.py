"""Base class of the state-machine properties: cases are operation histories
run on the implementation and judged inside Coq by Run/SCore.v (L0 oracle:
Spec.step + inv_b + abs) and Run/RCore.v (L1 model)."""
import json
import random

import histgen
import sworld
import world


class HistProp:
    kernel_files = []
    oracle_vos = ['theories/Run/SCore.vo', 'theories/Run/SSeries.vo']
    model_vos = ['theories/Run/RCore.vo', 'theories/Run/RSeries.vo', 'theories/Run/RSim.vo']
    kernel_files = ['KCore.v']
    oracle_imports = ['From DM Require Import Run.SCore Run.SSeries.']
    model_imports = ['From DM Require Import Run.SCore Run.RCore Run.RSeries Run.RSim.']
    series_share = 0.2          # share of the histories that run on tables with SeriesColumns (Spec/SeriesEnc.v)
    p_series = 0.35
    exhaustive = False
    weights = None
    steps_quick = (10, 22)
    n_quick = 800
    steps_thorough = (10, 40)
    n_thorough = 3000
    gen_kw = {}
    prefixes = [None]
    big_first = False

    def make_case(self, ops_list, seed, tags=None):
        steps, final, problems, stats = world.run_history([dict(o) for o in ops_list], seed=seed)
        ops_done = ops_list
        kinds = [o['op'] for o in ops_done]
        changed = sum(1 for o in stats['outcomes'] if not o.startswith('(Err'))
        return {
            'input': {'ops': ops_done, 'seed': seed},
            'observed': {'outcomes': stats['outcomes'], 'rows': stats['rows'], 'python_side_problems': problems[:6]},
            'pyfail': None,
            'oracle': '(hist_ok %s %s)' % (steps, final),
            'oracle_vec': '(hist_vec %s %s)' % (steps, final),
            'model': '(hist_model_sim_ok %s %s)' % (steps, final),
            'nontrivial': changed >= 2,
            'sig': json.dumps([ops_done, seed], sort_keys=True, default=str),
            'tags': (tags or []) + ['len%02d' % (10 * (len(ops_done) // 10))] + sorted(set(kinds)),
        }

    def make_scase(self, ops_list, seed, tags=None):
        steps, final, problems, stats = sworld.run_shistory([dict(o) for o in ops_list], seed=seed)
        kinds = [o['op'] for o in ops_list]
        changed = sum(1 for o in stats['outcomes'] if not o.startswith('(Err'))
        return {
            'input': {'ops': ops_list, 'seed': seed, 'series': True},
            'observed': {'outcomes': stats['outcomes'], 'rows': stats['rows'], 'python_side_problems': problems[:6]},
            'pyfail': None,
            'oracle': '(shist_ok %s %s)' % (steps, final),
            'oracle_vec': '(shist_vec %s %s)' % (steps, final),
            'model': '(shist_model_ok %s %s)' % (steps, final),
            'nontrivial': changed >= 2 and any(k.startswith('s') and k not in ('select', 'slice', 'sort', 'shuffle',
                                                                                 'sample', 'setcol', 'setcolkind',
                                                                                 'setcolfromcol', 'setcolfromslice',
                                                                                 'setcell', 'setlength', 'setsorted')
                                                for k in kinds),
            'sig': json.dumps([ops_list, seed, 'series'], sort_keys=True, default=str),
            'tags': (tags or []) + ['series', 'len%02d' % (10 * (len(ops_list) // 10))] + sorted(set(kinds)),
        }

    def rerun(self, inp):
        # oracle-supplied arguments (perm, cells of column-valued right-hand sides) are recomputed by the runner
        ops_list = [{k: v for k, v in o.items() if k not in ('perm', 'refused')} for o in inp['ops']]
        if inp.get('series'):
            return self.make_scase(ops_list, inp.get('seed', 0), tags=['replay'])
        return self.make_case(ops_list, inp.get('seed', 0), tags=['replay'])

    def _one(self, args):
        i, seed, lo, hi = args
        sub = random.Random(seed)
        if sub.random() < self.series_share:
            kw = {k: v for k, v in self.gen_kw.items() if k in ('bad_rate', 'max_pool', 'max_rows')}
            ops_list = sworld.gen_shistory(sub, sub.randint(lo, hi), weights=self.weights, seed=seed,
                                           p_series=self.p_series, **kw)
            return self.make_scase(ops_list, seed)
        prefix = self.prefixes[i % len(self.prefixes)]
        ops_list = histgen.gen_history(sub, sub.randint(lo, hi), weights=self.weights, seed=seed, prefix=prefix,
                                       big_first=self.big_first, **self.gen_kw)
        return self.make_case(ops_list, seed)

    def generate(self, rng, tier):
        import multiprocessing
        lo, hi = self.steps_quick if tier == 'quick' else self.steps_thorough
        n = self.n_quick if tier == 'quick' else self.n_thorough
        jobs = [(i, rng.randrange(1 << 30), lo, hi) for i in range(n)]
        ctx = multiprocessing.get_context('fork')
        with ctx.Pool(min(16, multiprocessing.cpu_count())) as pool:
            return pool.map(self._one, jobs, chunksize=4)

    def shrink_candidates(self, inp):
        ops_list = inp['ops']
        n = len(ops_list)
        extra = {'series': True} if inp.get('series') else {}
        # shorter prefixes first
        for m in sorted(set([n // 2, (3 * n) // 4, n - 2, n - 1])):
            if 0 < m < n:
                yield dict({'ops': ops_list[:m], 'seed': inp.get('seed', 0)}, **extra)
        if extra:
            return      # the series operations carry the depth the column had: dropping steps would falsify them
        # drop one operation that does not create a pool member
        creating = ('new', 'select', 'merge', 'slice', 'getrows', 'sort', 'shuffle', 'sample', 'concat')
        for i in range(n - 1, -1, -1):
            if ops_list[i]['op'] not in creating:
                yield {'ops': ops_list[:i] + ops_list[i + 1:], 'seed': inp.get('seed', 0)}

    def key(self, case):
        ops_list = case['input']['ops']
        return ('series history ' if case['input'].get('series') else 'history ') + ' '.join(o['op'] for o in ops_list[-6:])
