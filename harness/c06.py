from core_props import C06

PROP = C06()
