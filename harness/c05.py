"""C05 -- each column type stores one normal form on every write path."""
import csv
import math
import os
import tempfile
import warnings

import numpy as np

import coqlit as L
import pyobs

KINDS = ['KMixed', 'KFloat', 'KInt']
PATHS = ['WholeScalar', 'WholeSeq', 'CellInt', 'SliceScalar', 'SliceSeq', 'IndexList', 'Selection',
         'RowAttr', 'CtorKeyword', 'ConcatDM', 'ConcatDict', 'CsvRead', 'FromCol:KMixed', 'FromCol:KFloat',
         'FromCol:KInt', 'IndexListNp', 'SelectionNp', 'SliceNp', 'WholeNp', 'ConcatFromCol:KMixed',
         'ConcatFromCol:KFloat', 'ConcatFromCol:KInt']


def coltype(kind):
    from datamatrix import MixedColumn, FloatColumn, IntColumn
    return {'KMixed': MixedColumn, 'KFloat': FloatColumn, 'KInt': IntColumn}[kind]


class Obj(object):
    pass


def alphabet():
    ints = [0, 1, -1, 7, -13, 2**31 - 1, -2**31, 2**31, 2**53, 2**53 + 1, -(2**53) - 1, 2**53 - 1, 2**62 + 3,
            2**63 - 1, -(2**63) + 1]
    floats = [0.0, -0.0, 1.0, -3.0, 2.5, -0.75, 1e22, 1e23, 1.5e300, 5e-324, 2.2250738585072014e-308, 0.1,
              123456789.0, 9007199254740992.0, 9007199254740994.0, float('nan'), float('inf'), float('-inf'),
              4294967296.5]
    npv = [np.int8(-5), np.int16(300), np.int32(-70000), np.int64(2**53 + 1), np.uint8(200), np.int64(-2**62),
           np.float32(1.5), np.float32(3.0), np.float64(2.5), np.float64(4.0), np.float64('nan'), np.float32('inf'),
           np.float64(-0.0), np.float32(0.1)]
    strs = ['0', '1', '-1', '+5', ' 12 ', '\t7\n', '1_000', '007', '9007199254740993', '-9007199254740993',
            ' +9007199254740993 ', '1.0', '1.5', '-2.50', '1e3', '1E3', '1e-3', '.5', '5.', '1_0.5', 'nan', 'NaN',
            '-nan', 'inf', '-inf', 'Infinity', '+INFINITY', 'iNf', '1e400', '-1e400', '1e-400', '0x10', '1,5',
            '١٢', '٣.٥', '', ' ', 'abc', 'None', 'True', '1 2', '--1', '1e', 'e5', 'é', '日本', 'a"b', "it's",
            'x,y', 'line\nfeed', '12abc', '0.1', '123456789012345678901234567890', '1' * 30 + '.5', '-0', '-0.0',
            '4.0', '1e22', '1e23']
    other = [None, True, False, Obj()]
    return ints, floats, npv, strs, other


class C05:
    id = 'C05'
    props_file = 'theories/Props/C05.v'
    kernel_files = ['KCheck.v']
    oracle_vos = ['theories/Run/SC05.vo']
    model_vos = ['theories/Run/RC05.vo']
    oracle_imports = ['From DM Require Import Run.SC05.']
    model_imports = ['From DM Require Import Run.RC05.']
    exhaustive = True
    rule = ('every value of a fixed alphabet (ints around 0, +-2^31, +-2^53(+-1), 2^63-1; bools; floats incl. -0.0, '
            'nan, +-inf, subnormal, 1e22/1e23; numpy int8..int64/uint8/float32/float64 scalars; ~60 numeric and '
            'non-numeric string spellings incl. whitespace, underscores, non-ASCII digits; None; an unsupported object) '
            'x 3 column types x 22 write paths (incl. assignment of a column of each type, NumPy-array values, and a column of a << b result), exhaustively; thorough adds random ints/floats/strings. The cell is read '
            'back through col[i], iteration and Row access (all three must agree and be plain int/float/str/None). '
            'non-trivial = the stored value differs from the assigned object or an exception is raised; distinct by '
            '(kind, path, value)')
    trusted_base = [
        'Coq 8.16.1 kernel (coqc; vm_compute for evaluating cases; no native_compute)',
        'translator /verif/translate (pystmt.py, gen_checktype.py): _checktype_regular, BaseColumn._checktype, '
        'NumericColumn._checktype, IntColumn._checktype -> Gen/KCheck.v',
        'hand-written CPython/NumPy models in Base/PyVal.v and Model/Store.v (int(), float(), math.isnan, ==, '
        'float64/int64 array stores), exercised by the correspondence',
        'harness/c05.py, harness/pyobs.py (classification of objects incl. the builtins int(s)/float(s) as grammar oracle)',
    ]
    assumptions = [
        'fastnumbers is not installed (checked at run time): _checktype_regular is the live variant',
        'byte strings, int64 overflow and complex numbers are outside the claim',
        'the skeleton of each write path (which code calls _checktype per cell) is modelled by hand in Model/Store.v '
        'and tied by the correspondence only',
    ]

    # ---- implementation runner ------------------------------------------
    def _write(self, kind, path, v):
        """Perform the write; return the value read back (three ways) for the addressed cell."""
        from datamatrix import DataMatrix, io
        ct = coltype(kind)
        pos = 1

        def fresh():
            dm = DataMatrix(length=3)
            dm.k = 0, 1, 2
            dm.c = ct
            return dm
        if path == 'WholeScalar':
            dm = fresh()
            dm.c = v
        elif path == 'WholeSeq':
            dm = fresh()
            dm.c = [0, v, 0]
        elif path == 'CellInt':
            dm = fresh()
            dm.c[1] = v
        elif path == 'SliceScalar':
            dm = fresh()
            dm.c[1:3] = v
        elif path == 'SliceSeq':
            dm = fresh()
            dm.c[0:2] = [0, v]
        elif path == 'IndexList':
            dm = fresh()
            dm.c[[2, 1]] = [0, v]
        elif path == 'Selection':
            dm = fresh()
            dm.c[dm.k == 1] = v
        elif path == 'RowAttr':
            dm = fresh()
            dm[1].c = v
        elif path == 'CtorKeyword':
            dm = DataMatrix(length=3, default_col_type=ct, c=v)
        elif path == 'ConcatDM':
            a = DataMatrix(length=1)
            a.c = ct
            b = DataMatrix(length=1)
            b.c = ct
            b.c = [v]
            dm = a << b
        elif path == 'ConcatDict':
            a = DataMatrix(length=1, default_col_type=ct)
            a.c = ct
            tmp = DataMatrix(default_col_type=ct)
            dm = a << tmp._fromdict({'c': [v]})
        elif path.startswith('FromCol:'):
            dm = fresh()
            dm.o = coltype(path.split(':')[1])
            try:
                dm.o = [0, v, 0]
            except Exception:        # the source column itself rejects v: nothing to assign
                return ('skip', None)
            dm.c[0:3] = dm.o
        elif path in ('IndexListNp', 'SelectionNp', 'SliceNp', 'WholeNp'):
            # the value arrives inside a NumPy array (float64 for floats, int64 for ints)
            arr = np.array([0, v]) if path != 'WholeNp' else np.array([0, v, 0])
            dm = fresh()
            if path == 'IndexListNp':
                dm.c[[2, 1]] = arr
            elif path == 'SelectionNp':
                dm.c[dm.k >= 1] = np.array([v, 0])
            elif path == 'SliceNp':
                dm.c[0:2] = arr
            else:
                dm.c = arr
        elif path.startswith('ConcatFromCol:'):
            # a table built by a << b (column c only in the left operand), then c[:] = a column of another type
            a = DataMatrix(length=2)
            a.c = ct
            b = DataMatrix(length=1)
            b.k = 1
            dm = a << b
            dm.o = coltype(path.split(':')[1])
            try:
                dm.o = [0, v, 0]
            except Exception:
                return ('skip', None)
            dm.c[:] = dm.o
        elif path == 'CsvRead':
            fd, fn = tempfile.mkstemp(suffix='.csv', dir=self.tmpdir)
            with os.fdopen(fd, 'w', encoding='utf-8', newline='') as f:
                w = csv.writer(f, lineterminator='\n')
                w.writerow(['c'])
                w.writerow(['0'])
                w.writerow([v])
                w.writerow(['0'])
            dm = io.readtxt(fn, default_col_type=ct)
            os.unlink(fn)
        else:
            raise AssertionError(path)
        col = dm.c
        if type(col) is not ct:
            return ('typefail', 'column type is %s, expected %s' % (type(col).__name__, ct.__name__))
        r1 = col[pos]
        r2 = list(col)[pos]
        r3 = dm[pos].c
        r4 = dm[pos]['c']
        return ('ok', (r1, r2, r3, r4))

    def applicable(self, kind, path, v):
        if path.endswith('Np') and not (type(v) in (int, float) and abs(v) < 2 ** 63 if type(v) is int else type(v) is float):
            return False
        if path == 'CsvRead' and not (type(v) is str and '\r' not in v and '\x00' not in v and v != ''):
            return False
        if kind == 'KInt':
            # int64 overflow is outside the claim (and outside the model)
            try:
                x = v
                if type(v) is str:
                    try:
                        x = int(v)
                    except ValueError:
                        x = float(v)
                if isinstance(x, (int, float, np.integer, np.floating)) and not isinstance(x, bool):
                    if math.isfinite(float(x)) and (abs(int(x)) >= 2 ** 63 or abs(int(float(x))) >= 2 ** 63):
                        return False
            except (ValueError, OverflowError, TypeError):
                pass
        return True

    def rerun(self, inp):
        kind, path, v = inp['kind'], inp['path'], self._decode(inp['value'])
        with warnings.catch_warnings():
            warnings.simplefilter('ignore')
            try:
                st, res = self._write(kind, path, v)
                if st == 'skip':
                    return None
                out = ('ok', res) if st == 'ok' else ('typefail', res)
            except Exception as e:      # noqa: BLE001
                out = ('exn', pyobs.exn_name(e))
        pyfail = None
        if out[0] == 'exn':
            obs_lit = '(Raise %s)' % out[1]
            observed = {'raises': out[1]}
        elif out[0] == 'typefail':
            obs_lit = '(Raise OtherError)'
            observed = {'typefail': out[1]}
            pyfail = out[1]
        else:
            r1, r2, r3, r4 = out[1]
            lits = [pyobs.val(r) for r in (r1, r2, r3, r4)]
            observed = {'read_back': pyobs.jsonable(r1), 'type': type(r1).__name__}
            if any(l is None for l in lits):
                pyfail = 'read-back is not a plain int/float/str/None: %r' % ([type(r).__name__ for r in (r1, r2, r3, r4)],)
                obs_lit = '(Raise OtherError)'
            else:
                if len(set(lits)) != 1:
                    pyfail = 'col[i], iteration and Row access disagree: %r' % (lits,)
                obs_lit = '(Ok %s)' % lits[0]
        pv = pyobs.pyv(v)
        trivial = out[0] == 'ok' and pyfail is None and pyobs.val(v) == pyobs.val(out[1][0])
        if path.endswith('Np'):
            # an element of a float64 / int64 array
            npv = np.array([0, v])[1]
            pv = pyobs.pyv(npv)
        if path.startswith('FromCol:') or path.startswith('ConcatFromCol:'):
            k2 = path.split(':')[1]
            o_expr = '(oracle_from %s %s %s %s)' % (kind, k2, pv, obs_lit)
            m_expr = '(model_agrees_from %s %s %s %s)' % (kind, k2, pv, obs_lit)
        elif path.endswith('Np'):
            o_expr = '(oracle %s %s %s)' % (kind, pv, obs_lit)
            m_expr = '(model_agrees IndexList %s %s %s)' % (kind, pv, obs_lit)
        else:
            o_expr = '(oracle %s %s %s)' % (kind, pv, obs_lit)
            m_expr = '(model_agrees %s %s %s %s)' % (path, kind, pv, obs_lit)
        return {
            'input': inp, 'observed': observed, 'pyfail': pyfail,
            'oracle': o_expr,
            'model': m_expr,
            'nontrivial': not trivial,
            'sig': '%s|%s|%s' % (kind, path, pv),
            'tags': [kind, path, pv.split(' ')[0].strip('()')],
        }

    # values are passed through JSON in replay files
    def _encode(self, v):
        if isinstance(v, Obj):
            return {'t': 'obj'}
        if v is None:
            return {'t': 'none'}
        if type(v) is bool:
            return {'t': 'bool', 'v': v}
        if type(v) is int:
            return {'t': 'int', 'v': str(v)}
        if type(v) is float:
            return {'t': 'float', 'v': v.hex()}
        if type(v) is str:
            return {'t': 'str', 'v': v}
        if isinstance(v, np.integer):
            return {'t': 'np', 'dtype': v.dtype.name, 'v': str(int(v))}
        if isinstance(v, np.floating):
            return {'t': 'np', 'dtype': v.dtype.name, 'v': float(v).hex()}
        raise AssertionError(v)

    def _decode(self, d):
        t = d['t']
        if t == 'obj':
            return Obj()
        if t == 'none':
            return None
        if t == 'bool':
            return bool(d['v'])
        if t == 'int':
            return int(d['v'])
        if t == 'float':
            return float.fromhex(d['v'])
        if t == 'str':
            return d['v']
        if t == 'np':
            ty = getattr(np, d['dtype'])
            return ty(float.fromhex(d['v'])) if d['dtype'].startswith('float') else ty(int(d['v']))
        raise AssertionError(d)

    def generate(self, rng, tier):
        import datamatrix._datamatrix._basecolumn as bc
        import datamatrix._datamatrix._numericcolumn as nc
        assert not bc.fastnumbers and nc.fastnumbers is None, 'fastnumbers present: kernels assume it is not'
        os.makedirs(os.path.join(os.path.dirname(os.path.dirname(os.path.abspath(__file__))), '.work'), exist_ok=True)
        self.tmpdir = tempfile.mkdtemp(prefix='c05-', dir=os.path.join(
            os.path.dirname(os.path.dirname(os.path.abspath(__file__))), '.work'))
        ints, floats, npv, strs, other = alphabet()
        values = ints + floats + npv + strs + other
        if tier == 'thorough':
            for _ in range(400):
                c = rng.random()
                if c < 0.3:
                    values.append(rng.randint(-2**63 + 1, 2**63 - 1))
                elif c < 0.6:
                    values.append(float(rng.choice([rng.uniform(-1e6, 1e6), rng.uniform(-1, 1) * 10 ** rng.randint(-300, 300),
                                                    float(rng.randint(-2**60, 2**60)), rng.randint(-10**6, 10**6) / 8.0])))
                elif c < 0.85:
                    x = rng.choice([str(rng.randint(-2**70, 2**70)), repr(rng.uniform(-1e9, 1e9)),
                                    '%se%d' % (rng.randint(-99, 99), rng.randint(-30, 30)),
                                    ' ' * rng.randint(0, 2) + str(rng.randint(-999, 999)) + ' ' * rng.randint(0, 2)])
                    values.append(x)
                else:
                    values.append(''.join(rng.choice('ab1 .-eé,"\n_') for _ in range(rng.randint(1, 6))))
        cases = []
        for kind in KINDS:
            for path in PATHS:
                for v in values:
                    if not self.applicable(kind, path, v):
                        continue
                    c = self.rerun({'kind': kind, 'path': path, 'value': self._encode(v)})
                    if c is not None:
                        cases.append(c)
        try:
            os.rmdir(self.tmpdir)
        except OSError:
            pass
        return cases

    def shrink_candidates(self, inp):
        return []

    def key(self, case):
        i = case['input']
        return 'store kind=%s path=%s value=%s' % (i['kind'], i['path'], i['value'])

    tmpdir = None

    def __init__(self):
        base = os.path.join(os.path.dirname(os.path.dirname(os.path.abspath(__file__))), '.work')
        os.makedirs(base, exist_ok=True)
        self.tmpdir = base


PROP = C05()
